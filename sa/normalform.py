"""Normal form, part 2: private helpers that are implementation detail are inlined before any rule looks at the program.

"Extract method" is the most common harmless refactoring: a block, a condition or an expression moves into a private method of the
same class and is called in place.  The rules anchor on named functions (`RequestManager.__call__`, `Node.apply_timestep` ...); a
helper whose name no rule knows is not an anchor but a piece of the function that calls it.  Such helpers are spliced back into
their callers - on the real tree and on every overlay alike - so that the rules see the same program whether or not the block was
given a name.  Nothing is executed; the rewrite is purely syntactic and all-or-nothing per helper.

A helper is inlined when
  * it is a plain or static method defined directly in a class body, private (`_name`, not dunder), not a generator, not async,
    without *args/**kwargs, not recursive, defined under that name in exactly one class of the repository;
  * its name occurs nowhere in the analyser's own sources (sa/**.py: the names the rules anchor on) and is not in the frozen
    vocabulary of the reference tree (sa/vocabulary.json, written by tools/freeze_vocabulary.py): helpers that existed when the
    rules were confirmed are part of the program the rules know; a helper that appears later is an extracted piece of its caller;
  * every occurrence of `.name` in the repository is a call `self.name(...)` / `cls.name(...)` / `<Class>.name(...)` inside a method of
    the defining class (so it is never passed around as a value, never overridden, never called from outside);
  * and either (E) its body is a single `return <expression>` - then every call is replaced by the expression with the arguments
    substituted (arguments must be side-effect-free chains, or the parameter is used once) - or (B) every call site is a whole
    statement (`self.h(..)`, `x = self.h(..)`, `return self.h(..)`) and the helper's `return`s are in tail position of if/else chains,
    so that the body can be spliced in with `return e` turned into `x = e` without duplicating statements.
The helper's definition is removed once all its call sites are spliced.  Line numbers of the spliced statements stay those of the
helper's body, so reports point at the real source line.
"""
from __future__ import annotations

import ast
import copy
import os
import re
from collections import Counter
from typing import Dict, List, Optional, Set, Tuple

_HERE = os.path.dirname(os.path.abspath(__file__))
_ANCHORS: Optional[Set[str]] = None


_RULE_NAMES: Optional[Set[str]] = None


def rule_names() -> Set[str]:
    """Identifier-like tokens in the string constants of the analyser's own sources: the names the rules themselves mention."""
    global _RULE_NAMES
    if _RULE_NAMES is None:
        names: Set[str] = set()
        for d, _, fs in os.walk(_HERE):
            for f in fs:
                if f.endswith(".py"):
                    try:
                        tree = ast.parse(open(os.path.join(d, f), encoding="utf-8").read())
                    except (OSError, SyntaxError):
                        continue
                    for n in ast.walk(tree):
                        if isinstance(n, ast.Constant) and isinstance(n.value, str):
                            names.update(re.findall(r"[A-Za-z_][A-Za-z0-9_]*", n.value))
        _RULE_NAMES = names
    return _RULE_NAMES


def anchor_names() -> Set[str]:
    """The names the rules mention plus the frozen vocabulary of the reference tree."""
    global _ANCHORS
    if _ANCHORS is None:
        names: Set[str] = set(rule_names())
        # the vocabulary of the reference tree (tools/freeze_vocabulary.py): helpers that existed when the rules were confirmed
        try:
            import json
            names.update(json.load(open(os.path.join(_HERE, "vocabulary.json")))["functions"])
        except (OSError, ValueError, KeyError):
            pass
        _ANCHORS = names
    return _ANCHORS


class NotInlinable(Exception):
    pass


def _pure(e: ast.AST) -> bool:
    """Evaluating the expression twice (or not at all) makes no difference: names, attribute chains, constants, subscripts of those."""
    if isinstance(e, (ast.Name, ast.Constant)):
        return True
    if isinstance(e, ast.Attribute):
        return _pure(e.value)
    if isinstance(e, ast.Subscript):
        return _pure(e.value) and _pure(e.slice)
    return False


def _contains_return(s: ast.AST) -> bool:
    for x in ast.walk(s):
        if isinstance(x, ast.Return):
            return True
    return False


def _own_nodes(fn: ast.AST):
    """Nodes of a function body without nested function/class bodies (lambdas included: they cannot contain statements)."""
    stack = list(fn.body)
    while stack:
        n = stack.pop()
        yield n
        for c in ast.iter_child_nodes(n):
            if isinstance(c, (ast.FunctionDef, ast.AsyncFunctionDef, ast.ClassDef)):
                continue
            stack.append(c)


def _tailify(stmts: List[ast.stmt], mk) -> Tuple[List[ast.stmt], bool]:
    """Rewrite a statement list in which every `return` is in tail position: `return e` -> mk(e).  Returns (statements, always
    returned).  Raises NotInlinable when a return sits in a loop/try/with or when statements would have to be duplicated."""
    out: List[ast.stmt] = []
    for i, s in enumerate(stmts):
        if isinstance(s, ast.Return):
            out.extend(mk(s.value, s))
            return out, True
        if isinstance(s, (ast.FunctionDef, ast.AsyncFunctionDef, ast.ClassDef)) or not _contains_return(s):
            out.append(s)
            continue
        if not isinstance(s, ast.If):
            raise NotInlinable("return inside a loop / try / with")
        rest = stmts[i + 1:]
        b, b_ret = _tailify(s.body, mk)
        o, o_ret = _tailify(s.orelse, mk)
        if b_ret and o_ret:
            s.body, s.orelse = b or [ast.Pass()], o
            out.append(s)
            return out, True
        if rest and not b_ret and not o_ret:
            raise NotInlinable("both arms fall through after a conditional return")
        r, r_ret = _tailify(rest, mk) if rest else ([], False)
        if b_ret:
            s.body, s.orelse = b or [ast.Pass()], o + r
        elif o_ret:
            s.body, s.orelse = (b + r) or [ast.Pass()], o
        else:
            s.body, s.orelse = b or [ast.Pass()], o
        out.append(s)
        return out, (b_ret or o_ret) and r_ret
    return out, False


class _Subst(ast.NodeTransformer):
    def __init__(self, mapping: Dict[str, ast.AST], rename: Dict[str, str]):
        self.mapping, self.rename = mapping, rename

    def visit_Name(self, node):
        if node.id in self.mapping and isinstance(node.ctx, ast.Load):
            return ast.copy_location(copy.deepcopy(self.mapping[node.id]), node)
        if node.id in self.rename:
            return ast.copy_location(ast.Name(id=self.rename[node.id], ctx=node.ctx), node)
        return node

    def visit_arg(self, node):
        if node.arg in self.rename:
            node.arg = self.rename[node.arg]
        return node


def _bind(helper: ast.FunctionDef, call: ast.Call, static: bool) -> Optional[Dict[str, ast.AST]]:
    """parameter -> argument expression (defaults filled in); None when the call does not fit the simple protocol."""
    a = helper.args
    if a.vararg or a.kwarg or a.posonlyargs:
        return None
    params = [x.arg for x in a.args]
    if not static:
        if not params:
            return None
        params = params[1:]
    defaults: Dict[str, ast.AST] = {}
    for p, d in zip(reversed([x.arg for x in a.args]), reversed(a.defaults)):
        defaults[p] = d
    for p, d in zip(a.kwonlyargs, a.kw_defaults):
        if d is not None:
            defaults[p.arg] = d
    params += [x.arg for x in a.kwonlyargs]
    out: Dict[str, ast.AST] = {}
    if any(isinstance(x, ast.Starred) for x in call.args) or any(k.arg is None for k in call.keywords):
        return None
    if len(call.args) > len(a.args) - (0 if static else 1):
        return None
    for p, v in zip(params, call.args):
        out[p] = v
    for k in call.keywords:
        if k.arg not in params or k.arg in out:
            return None
        out[k.arg] = k.value
    for p in params:
        if p not in out:
            if p not in defaults or not isinstance(defaults[p], ast.Constant):
                return None
            out[p] = defaults[p]
    return out


def _helper_body(helper: ast.FunctionDef) -> List[ast.stmt]:
    body = list(helper.body)
    if body and isinstance(body[0], ast.Expr) and isinstance(body[0].value, ast.Constant) and isinstance(body[0].value.value, str):
        body = body[1:]
    return body


def _is_helper_call(e: ast.AST, name: str, cls_name: str) -> bool:
    return isinstance(e, ast.Call) and isinstance(e.func, ast.Attribute) and e.func.attr == name and isinstance(e.func.value, ast.Name) \
        and e.func.value.id in ("self", "cls", cls_name)


def inline_private_helpers(trees: Dict[str, ast.Module]) -> List[str]:
    """Rewrite the module trees in place; returns the list of `Class.helper` names that were spliced into their callers."""
    anchors = anchor_names()
    # how often is a method name defined, and how is `.name` used across the repository
    defined: Counter = Counter()
    mod_uses: Dict[str, Dict[str, List[ast.Attribute]]] = {}
    plain_names: Set[str] = set()

    def index_module(path: str, tree: ast.AST) -> None:
        d: Dict[str, List[ast.Attribute]] = {}
        for n in ast.walk(tree):
            if isinstance(n, ast.Attribute):
                d.setdefault(n.attr, []).append(n)
        mod_uses[path] = d

    definers: Dict[str, List[ast.ClassDef]] = {}
    bases: Dict[str, Set[str]] = {}
    owner_of: Dict[int, ast.ClassDef] = {}  # id(node) -> innermost class whose body (methods included) contains it

    def mark_owner(cls: ast.ClassDef) -> None:
        for n in ast.walk(cls):
            if n is not cls and isinstance(n, ast.ClassDef):
                continue
            owner_of.setdefault(id(n), cls)

    for path, tree in trees.items():
        index_module(path, tree)
        classes = [n for n in ast.walk(tree) if isinstance(n, ast.ClassDef)]
        for n in sorted(classes, key=lambda c: -c.lineno if hasattr(c, "lineno") else 0):
            mark_owner(n)  # innermost (later-starting nested) classes first
        for n in ast.walk(tree):
            if isinstance(n, ast.ClassDef):
                bases.setdefault(n.name, set()).update(ast.unparse(b).split("[")[0].split(".")[-1] for b in n.bases)
                for m in n.body:
                    if isinstance(m, (ast.FunctionDef, ast.AsyncFunctionDef)):
                        defined[m.name] += 1
                        definers.setdefault(m.name, []).append(n)
            elif isinstance(n, ast.Name):
                plain_names.add(n.id)
            elif isinstance(n, ast.Constant) and isinstance(n.value, str) and n.value.isidentifier():
                plain_names.add(n.value)  # getattr(obj, "name") and the like
    def ancestors(c: str, seen: Optional[Set[str]] = None) -> Set[str]:
        seen = seen if seen is not None else set()
        for b in bases.get(c, ()):
            if b not in seen:
                seen.add(b)
                ancestors(b, seen)
        return seen

    def related(a: str, b: str) -> bool:
        return a == b or a in ancestors(b) or b in ancestors(a)

    done: List[str] = []
    for path, tree in trees.items():
        for cls in [n for n in ast.walk(tree) if isinstance(n, ast.ClassDef)]:
            changed = True
            while changed:
                changed = False
                for helper in [m for m in cls.body if isinstance(m, ast.FunctionDef)]:
                    nm = helper.name
                    if not nm.startswith("_") or nm.startswith("__") or nm in anchors or nm in plain_names:
                        continue
                    if defined[nm] != 1 and any(d is not cls and related(d.name, cls.name) for d in definers.get(nm, [])):
                        continue  # overridden / overriding: dispatch on self is not static
                    decos = [ast.unparse(d) for d in helper.decorator_list]
                    if any(d != "staticmethod" for d in decos):
                        continue
                    static = "staticmethod" in decos
                    if any(isinstance(x, (ast.Yield, ast.YieldFrom, ast.Await, ast.Global, ast.Nonlocal)) for x in ast.walk(helper)):
                        continue
                    if any(isinstance(x, ast.Attribute) and x.attr == nm for x in ast.walk(helper)):
                        continue  # recursive
                    if any(isinstance(x, ast.Call) and isinstance(x.func, ast.Name) and x.func.id == "super" for x in ast.walk(helper)):
                        continue
                    all_uses = [u for d in mod_uses.values() for u in d.get(nm, [])]
                    # a use outside this class is somebody else's business only if it sits in an unrelated class that defines
                    # its own method of that name
                    uses = []
                    foreign = False
                    for u in all_uses:
                        oc = owner_of.get(id(u))
                        if oc is cls or (oc is None and any(u is x for x in ast.walk(cls))):
                            uses.append(u)
                        elif oc is not None and oc is not cls and any(d is oc for d in definers.get(nm, [])) and not related(oc.name, cls.name):
                            continue
                        else:
                            foreign = True
                    if not uses or foreign:
                        continue
                    try:
                        if _splice(cls, helper, static, uses):
                            cls.body.remove(helper)
                            done.append(f"{cls.name}.{nm}")
                            index_module(path, tree)
                            mark_owner(cls)
                            changed = True
                            break
                    except NotInlinable:
                        continue
    # module-level private functions and helper functions nested in a function: called by bare name
    imported: Set[str] = set()
    for tree in trees.values():
        for n in ast.walk(tree):
            if isinstance(n, ast.ImportFrom):
                imported.update(a.name for a in n.names)
    for path, tree in trees.items():
        changed = True
        while changed:
            changed = False
            scopes: List[Tuple[ast.AST, List[ast.stmt]]] = [(tree, tree.body)] + [
                (f, f.body) for f in ast.walk(tree) if isinstance(f, (ast.FunctionDef, ast.AsyncFunctionDef))]
            for scope, sbody in scopes:
                for helper in [m for m in sbody if isinstance(m, ast.FunctionDef)]:
                    nm = helper.name
                    nested = scope is not tree
                    if not nm.startswith("_") or nm.startswith("__") or nm in anchors or nm in imported or helper.decorator_list:
                        continue
                    if any(isinstance(x, (ast.Yield, ast.YieldFrom, ast.Await, ast.Global, ast.Nonlocal)) for x in ast.walk(helper)):
                        continue
                    if any(isinstance(x, ast.Name) and x.id == nm for x in ast.walk(helper)):
                        continue  # recursive
                    if nm in mod_uses[path]:
                        continue  # also reached as an attribute somewhere
                    region = tree if not nested else scope
                    name_uses = [x for x in ast.walk(region) if isinstance(x, ast.Name) and x.id == nm]
                    if sum(1 for t2 in trees.values() for x in ast.walk(t2) if isinstance(x, ast.FunctionDef) and x.name == nm) != 1:
                        continue
                    funcs = [f for f in ast.walk(region) if isinstance(f, (ast.FunctionDef, ast.AsyncFunctionDef)) and f is not helper
                             and not any(f is x for x in ast.walk(helper))]
                    if nested:
                        funcs = [scope] + [f for f in funcs if f is not scope]
                        # a nested helper that reads the enclosing function's locals can only be spliced into that function itself
                    sites = []
                    seen_ids: Set[int] = set()
                    # innermost function first, so that a call inside a nested function is attributed to it
                    for f in sorted(funcs, key=lambda f: -getattr(f, "lineno", 0)):
                        for n in _own_nodes(f):
                            if isinstance(n, ast.Call) and isinstance(n.func, ast.Name) and n.func.id == nm and id(n.func) not in seen_ids:
                                sites.append((f, n))
                                seen_ids.add(id(n.func))
                    if not sites or {id(x) for x in name_uses} != seen_ids:
                        continue  # passed around as a value, or called at module level
                    if nested and any(f is not scope for f, _ in sites):
                        continue
                    try:
                        if _splice_sites(helper, True, sites):
                            sbody.remove(helper)
                            if not sbody:
                                sbody.append(ast.Pass())
                            done.append(f"{path.rsplit('/', 1)[-1]}:{nm}")
                            index_module(path, tree)
                            changed = True
                            break
                    except NotInlinable:
                        continue
                if changed:
                    break
    return done


def _splice(cls: ast.ClassDef, helper: ast.FunctionDef, static: bool, uses: List[ast.Attribute]) -> bool:
    nm = helper.name
    # every use of `.nm` must be the callee of a call inside a method of this class, on self / cls / the class itself
    methods = [m for m in cls.body if isinstance(m, (ast.FunctionDef, ast.AsyncFunctionDef)) and m is not helper]
    sites: List[Tuple[ast.FunctionDef, ast.Call]] = []
    use_ids = {id(u) for u in uses}
    found: Set[int] = set()
    for m in methods:
        for n in ast.walk(m):
            if isinstance(n, ast.Call) and id(n.func) in use_ids:
                if not _is_helper_call(n, nm, cls.name):
                    return False
                sites.append((m, n))
                found.add(id(n.func))
    if found != use_ids or not sites:
        return False
    return _splice_sites(helper, static, sites)


def _splice_sites(helper: ast.FunctionDef, static: bool, sites: List[Tuple[ast.FunctionDef, ast.Call]]) -> bool:
    body = _helper_body(helper)
    if not body:
        return False
    params = {a.arg for a in helper.args.args + helper.args.kwonlyargs}
    stored = {x.id for x in ast.walk(helper) if isinstance(x, ast.Name) and not isinstance(x.ctx, ast.Load)}
    expr_helper = len(body) == 1 and isinstance(body[0], ast.Return) and body[0].value is not None
    plans = []
    for m, call in sites:
        binding = _bind(helper, call, static)
        if binding is None:
            return False
        if expr_helper:
            e = body[0].value
            inner_bound = {x.id for x in ast.walk(e) if isinstance(x, ast.Name) and isinstance(x.ctx, ast.Store)} | {
                a.arg for lam in ast.walk(e) if isinstance(lam, ast.Lambda) for a in lam.args.args}
            uses_of = Counter(x.id for x in ast.walk(e) if isinstance(x, ast.Name) and isinstance(x.ctx, ast.Load))
            ok = True
            for p, v in binding.items():
                if p in stored:
                    ok = False
                if not _pure(v) and uses_of[p] > 1:
                    ok = False
                if any(isinstance(x, ast.Name) and x.id in inner_bound for x in ast.walk(v)):
                    ok = False
            if ok:
                plans.append(("expr", m, call, binding))
                continue
        plans.append(("stmt", m, call, binding))
    # statement-level sites: the call must be a whole statement
    for kind, m, call, binding in plans:
        if kind == "stmt":
            st = _statement_of(m, call)
            if st is None:
                return False
    # apply
    for kind, m, call, binding in plans:
        if kind == "expr":
            new = _Subst(binding, {}).visit(copy.deepcopy(body[0].value))
            _replace_expr(m, call, new)
        else:
            _splice_statement(m, call, helper, body, binding, params, stored)
    return True


def _statement_of(fn: ast.FunctionDef, call: ast.Call) -> Optional[Tuple[List[ast.stmt], int]]:
    """(statement list, index) of the statement that consists of exactly this call."""
    for lst in _stmt_lists(fn):
        for i, s in enumerate(lst):
            v = s.value if isinstance(s, (ast.Expr, ast.Return, ast.Assign, ast.AnnAssign)) else None
            if v is call:
                if isinstance(s, ast.Assign) and len(s.targets) != 1:
                    return None
                return lst, i
    return None


def _stmt_lists(fn: ast.AST):
    stack = [fn.body]
    while stack:
        lst = stack.pop()
        yield lst
        for s in lst:
            if isinstance(s, (ast.FunctionDef, ast.AsyncFunctionDef, ast.ClassDef)):
                continue
            for fld in ("body", "orelse", "finalbody"):
                v = getattr(s, fld, None)
                if isinstance(v, list) and v and isinstance(v[0], ast.stmt):
                    stack.append(v)
            if isinstance(s, ast.Try):
                for h in s.handlers:
                    stack.append(h.body)
            if isinstance(s, ast.Match):
                for c in s.cases:
                    stack.append(c.body)


def _replace_expr(fn: ast.AST, old: ast.AST, new: ast.AST) -> None:
    class R(ast.NodeTransformer):
        def visit_Call(self, node):
            if node is old:
                return ast.copy_location(new, node)
            return self.generic_visit(node)

    R().visit(fn)


def _splice_statement(m: ast.FunctionDef, call: ast.Call, helper: ast.FunctionDef, body: List[ast.stmt], binding: Dict[str, ast.AST],
                      params: Set[str], stored: Set[str]) -> None:
    lst, i = _statement_of(m, call)
    st = lst[i]
    caller_names = {x.id for x in ast.walk(m) if isinstance(x, ast.Name)} | {a.arg for a in m.args.args + m.args.kwonlyargs}
    new_body = copy.deepcopy(body)
    helper_locals = {x.id for b in new_body for x in ast.walk(b) if isinstance(x, ast.Name) and not isinstance(x.ctx, ast.Load)}
    subst: Dict[str, ast.AST] = {}
    pre: List[ast.stmt] = []
    rename: Dict[str, str] = {}
    for p, v in binding.items():
        if isinstance(v, ast.Name) and v.id == p and (p not in stored or isinstance(st, ast.Return)):
            continue  # same name on both sides (a parameter the helper rebinds is harmless when the caller ends with the call)
        if _pure(v) and p not in stored and not (isinstance(v, ast.Name) and v.id in helper_locals):
            subst[p] = v
        else:
            tgt = p if p not in caller_names else f"{p}__{helper.name.strip('_')}"
            if tgt != p:
                rename[p] = tgt
            pre.append(ast.copy_location(ast.Assign(targets=[ast.Name(id=tgt, ctx=ast.Store())], value=v), st))
    # a helper local that has the name of the variable the call's result is assigned to needs no new name: the caller's variable
    # is overwritten by this very statement (unless the call's own arguments read it)
    tgt_names: Set[str] = set()
    if isinstance(st, (ast.Assign, ast.AnnAssign)):
        t0 = st.targets[0] if isinstance(st, ast.Assign) else st.target
        if isinstance(t0, ast.Name) and not any(isinstance(x, ast.Name) and x.id == t0.id for a in list(call.args) + [k.value for k in call.keywords]
                                                for x in ast.walk(a)):
            tgt_names.add(t0.id)
    for loc in helper_locals - set(binding):
        if loc in caller_names and loc not in tgt_names:
            rename[loc] = f"{loc}__{helper.name.strip('_')}"
    sub = _Subst(subst, rename)
    new_body = [sub.visit(b) for b in new_body]
    if isinstance(st, ast.Return):
        out = new_body
        if not _always_returns(out):
            out = out + [ast.copy_location(ast.Return(value=ast.Constant(value=None)), st)]
    else:
        if isinstance(st, ast.Expr):
            def mk(value, node):
                if value is not None and any(isinstance(x, ast.Call) for x in ast.walk(value)):
                    return [ast.copy_location(ast.Expr(value=value), node)]
                return []
        else:
            target = st.targets[0] if isinstance(st, ast.Assign) else st.target

            def mk(value, node):
                v = value if value is not None else ast.Constant(value=None)
                if isinstance(v, ast.Name) and isinstance(target, ast.Name) and v.id == target.id:
                    return []  # `return x` into `x = ...`: nothing to do
                return [ast.copy_location(ast.Assign(targets=[copy.deepcopy(target)], value=v), node)]
        # (a "find the first" helper - `for ..: if c: return v` / `return w` - could be spliced as for/else with `break`; it is not:
        #  the caller then tests the found value, and a path-insensitive flow graph sees the infeasible path break -> "not found")
        search = None
        if search is not None:
            out, always = search, True
        else:
            out, always = _tailify(new_body, mk)
        if not always and not isinstance(st, ast.Expr):
            out = out + mk(None, st)
        if not out:
            out = [ast.copy_location(ast.Pass(), st)]
    # the spliced statements take the position of the call in the caller (rules order statements by line); the line they really
    # stand on is kept as `src_lineno` and is what reports print
    for b in pre + out:
        for x in ast.walk(b):
            if hasattr(x, "lineno"):
                if not hasattr(x, "src_lineno"):
                    x.src_lineno = x.lineno
                x.lineno = st.lineno
                if hasattr(x, "end_lineno"):
                    x.end_lineno = getattr(st, "end_lineno", st.lineno)
    lst[i:i + 1] = pre + out
    ast.fix_missing_locations(m)


def _search_loop(body: List[ast.stmt], mk) -> Optional[List[ast.stmt]]:
    """The "find the first" helper - return-free statements, then one `for` whose only returns are `return v` directly under (possibly
    nested) `if`s of the loop body, then a final `return w` - spliced as `for ...: if c: x = v; break` / `else: x = w`."""
    if len(body) < 2 or not isinstance(body[-1], ast.Return) or not isinstance(body[-2], ast.For) or body[-2].orelse:
        return None
    if any(_contains_return(b) for b in body[:-2]):
        return None
    loop = body[-2]
    if any(isinstance(x, (ast.For, ast.While, ast.Try, ast.With)) for b in loop.body for x in ast.walk(b)):
        return None  # a `break` would leave the wrong loop / the return sits in a construct we do not restructure

    ok = True

    def conv(stmts: List[ast.stmt]) -> List[ast.stmt]:
        nonlocal ok
        out: List[ast.stmt] = []
        for s_ in stmts:
            if isinstance(s_, ast.Return):
                out.extend(mk(s_.value, s_))
                out.append(ast.copy_location(ast.Break(), s_))
                return out
            if isinstance(s_, ast.If) and _contains_return(s_):
                s_.body = conv(s_.body) or [ast.Pass()]
                s_.orelse = conv(s_.orelse)
                out.append(s_)
                continue
            if _contains_return(s_):
                ok = False
            out.append(s_)
        return out

    if not any(_contains_return(b) for b in loop.body):
        return None
    loop.body = conv(loop.body)
    if not ok:
        raise NotInlinable("return in an unsupported position of a search loop")
    loop.orelse = mk(body[-1].value, body[-1]) or [ast.copy_location(ast.Pass(), body[-1])]
    return body[:-2] + [loop]


def _always_returns(stmts: List[ast.stmt]) -> bool:
    for s in stmts:
        if isinstance(s, (ast.Return, ast.Raise)):
            return True
        if isinstance(s, ast.If) and s.orelse and _always_returns(s.body) and _always_returns(s.orelse):
            return True
    return False


# ------------------------------------------------------------------------------------------------------------------ hoisted chains
def _chain(e: ast.AST) -> bool:
    """An attribute / subscript chain over names and constants with at least one step (`self.a.b`, `agent.reward_function`,
    `self.history[timestep].response`)."""
    return _pure(e) and isinstance(e, (ast.Attribute, ast.Subscript))


def dehoist_chains(tree: ast.AST) -> int:
    """Normal form: a local that merely names an attribute chain (`rf = agent.reward_function` ... `rf.total += rf.current`) is
    replaced by the chain at every use and the binding is dropped - the spelling with and without the local are the same program as
    long as nothing rebinds the local, the names in the chain, or the chain itself in between.  Conditions (all syntactic, per
    function): the local is bound exactly once, by a plain assignment of a chain, is not a parameter, is never loaded inside a nested
    function / lambda / comprehension; every load comes after the binding in the same block or deeper; no name occurring in the chain
    is (re)bound at or after the binding; no assignment, augmented assignment or `del` in the function targets the chain or a prefix
    of it."""
    n_done = 0
    for fn in [f for f in ast.walk(tree) if isinstance(f, (ast.FunctionDef, ast.AsyncFunctionDef))]:
        own = list(_own_nodes(fn))
        own_ids = {id(x) for x in own}
        stores: Dict[str, List[ast.AST]] = {}
        for x in own:
            if isinstance(x, ast.Name) and not isinstance(x.ctx, ast.Load):
                stores.setdefault(x.id, []).append(x)
        params = {a.arg for a in fn.args.posonlyargs + fn.args.args + fn.args.kwonlyargs} | (
            {fn.args.vararg.arg} if fn.args.vararg else set()) | ({fn.args.kwarg.arg} if fn.args.kwarg else set())
        if any(isinstance(x, (ast.Global, ast.Nonlocal)) for x in own):
            continue
        # names loaded in nested scopes (closures run later) or bound by comprehensions
        nested_loads: Set[str] = set()
        for x in ast.walk(fn):
            if x is fn:
                continue
            if isinstance(x, (ast.FunctionDef, ast.AsyncFunctionDef, ast.Lambda)):
                nested_loads |= {y.id for y in ast.walk(x) if isinstance(y, ast.Name)}
        attr_store_texts: List[Tuple[str, int]] = []
        for x in own:
            tg: List[ast.AST] = []
            if isinstance(x, ast.Assign):
                tg = list(x.targets)
            elif isinstance(x, (ast.AugAssign, ast.AnnAssign)):
                tg = [x.target]
            elif isinstance(x, ast.Delete):
                tg = list(x.targets)
            elif isinstance(x, (ast.For, ast.AsyncFor)):
                tg = [x.target]
            for t in tg:
                for y in ([t] if not isinstance(t, (ast.Tuple, ast.List)) else list(t.elts)):
                    if isinstance(y, (ast.Attribute, ast.Subscript)):
                        attr_store_texts.append((ast.unparse(y), getattr(x, "lineno", 0)))
        changed = True
        while changed:
            changed = False
            for lst in _stmt_lists(fn):
                for i, st in enumerate(lst):
                    tgt = st.targets[0] if isinstance(st, ast.Assign) and len(st.targets) == 1 else (
                        st.target if isinstance(st, ast.AnnAssign) and st.value is not None else None)
                    if not isinstance(tgt, ast.Name) or not _chain(st.value):
                        continue
                    x = tgt.id
                    if x in params or x in nested_loads or len(stores.get(x, [])) != 1:
                        continue
                    chain = st.value
                    ctext = ast.unparse(chain)
                    names_in_chain = {y.id for y in ast.walk(chain) if isinstance(y, ast.Name)}
                    if x in names_in_chain:
                        continue
                    if any(getattr(s, "lineno", 0) >= st.lineno for nm in names_in_chain for s in stores.get(nm, [])):
                        continue
                    if any(ctext == t or ctext.startswith(t + ".") or ctext.startswith(t + "[") for t, _ in attr_store_texts):
                        continue
                    # every load after the binding, inside the later siblings of this block
                    later = {id(y) for s2 in lst[i + 1:] for y in ast.walk(s2)}
                    loads = [y for y in own if isinstance(y, ast.Name) and y.id == x and isinstance(y.ctx, ast.Load)]
                    if not loads or any(id(y) not in later for y in loads):
                        continue
                    # comprehension scopes: a load inside a comprehension is evaluated in place, fine; but the chain's names must not
                    # be shadowed by comprehension targets
                    comp_bound = {z.id for s2 in lst[i + 1:] for c in ast.walk(s2) if isinstance(c, ast.comprehension)
                                  for z in ast.walk(c.target) if isinstance(z, ast.Name)}
                    if comp_bound & names_in_chain:
                        continue

                    class R(ast.NodeTransformer):
                        def visit_Name(self, node):
                            if node.id == x and isinstance(node.ctx, ast.Load):
                                return ast.copy_location(copy.deepcopy(chain), node)
                            return node

                    for j in range(i + 1, len(lst)):
                        lst[j] = R().visit(lst[j])
                    del lst[i]
                    if not lst:
                        lst.append(ast.copy_location(ast.Pass(), st))
                    stores.pop(x, None)
                    n_done += 1
                    changed = True
                    own = list(_own_nodes(fn))
                    break
                if changed:
                    break
    return n_done


# ------------------------------------------------------------------------------------------------------------------ new constants
def _literal(e: ast.AST) -> bool:
    """A value that can be repeated at every use: constants, enum members / attribute chains, and tuples / lists / sets / dicts /
    frozenset(...) of those."""
    if isinstance(e, ast.Constant) or _pure(e):
        return True
    if isinstance(e, (ast.Tuple, ast.List, ast.Set)):
        return all(_literal(x) for x in e.elts)
    if isinstance(e, ast.Dict):
        return all(k is not None and _literal(k) and _literal(v) for k, v in zip(e.keys, e.values))
    if isinstance(e, ast.Call) and isinstance(e.func, ast.Name) and e.func.id in ("frozenset", "tuple", "set") and len(e.args) == 1 and not e.keywords:
        return _literal(e.args[0])
    if isinstance(e, ast.UnaryOp) and isinstance(e.op, ast.USub):
        return _literal(e.operand)
    if isinstance(e, ast.BinOp) and isinstance(e.op, (ast.Add, ast.Sub, ast.Mult, ast.Pow)):
        return _literal(e.left) and _literal(e.right)
    return False


def inline_new_constants(trees: Dict[str, ast.Module]) -> List[str]:
    """A module-level name that is bound once to a literal, is not part of the reference vocabulary, is not named by a rule and is
    not imported anywhere is a constant somebody gave a name to ("move the list of accepted states to a module constant"): its
    uses are replaced by the literal and the binding is dropped."""
    anchors = anchor_names()
    imported: Set[str] = set()
    for tree in trees.values():
        for n in ast.walk(tree):
            if isinstance(n, ast.ImportFrom):
                imported.update(a.name for a in n.names)
            elif isinstance(n, ast.Attribute):
                imported.add(n.attr)  # module.NAME style access
    done: List[str] = []
    for path, tree in trees.items():
        for st in list(tree.body):
            tgt = st.targets[0] if isinstance(st, ast.Assign) and len(st.targets) == 1 else (
                st.target if isinstance(st, ast.AnnAssign) and st.value is not None else None)
            if not isinstance(tgt, ast.Name) or tgt.id in anchors or tgt.id in imported or tgt.id.startswith("__") or not _literal(st.value):
                continue
            nm = tgt.id
            stores = [x for x in ast.walk(tree) if isinstance(x, ast.Name) and x.id == nm and not isinstance(x.ctx, ast.Load)]
            if len(stores) != 1 or any(isinstance(x, ast.Global) and nm in x.names for x in ast.walk(tree)):
                continue
            # names used by the literal must mean the same thing at every use: only module-level names (imports, classes), never
            # shadowed by a parameter or local of the using function
            lit_names = {x.id for x in ast.walk(st.value) if isinstance(x, ast.Name)}
            shadowed = False
            for f in ast.walk(tree):
                if isinstance(f, (ast.FunctionDef, ast.AsyncFunctionDef, ast.Lambda)):
                    uses_here = any(isinstance(x, ast.Name) and x.id == nm for x in ast.walk(f))
                    if uses_here:
                        local = {a.arg for a in f.args.posonlyargs + f.args.args + f.args.kwonlyargs} | {
                            x.id for x in ast.walk(f) if isinstance(x, ast.Name) and not isinstance(x.ctx, ast.Load)}
                        if local & (lit_names | {nm}):
                            shadowed = True
            if shadowed:
                continue
            value = st.value

            class R(ast.NodeTransformer):
                def visit_Name(self, node):
                    if node.id == nm and isinstance(node.ctx, ast.Load):
                        return ast.copy_location(copy.deepcopy(value), node)
                    return node

            tree.body.remove(st)
            R().visit(tree)
            ast.fix_missing_locations(tree)
            done.append(f"{path.rsplit('/', 1)[-1]}:{nm}")
    return done


# ------------------------------------------------------------------------------------------------------------------ renamed methods
def undo_method_renames(trees: Dict[str, ast.Module]) -> List[str]:
    """A method the rules (or their frozen tables) know by name that was merely *renamed* - same class, same parameters, same body,
    old name gone, new name unknown to the reference vocabulary - is presented under its old name (definition and every `.new`
    attribute reference).  The body is compared with the hash recorded by tools/freeze_vocabulary.py (docstring dropped; recursive
    self-references would change the hash and are simply not recognised)."""
    import hashlib
    import json
    try:
        voc = json.load(open(os.path.join(_HERE, "vocabulary.json")))
    except (OSError, ValueError):
        return []
    bodies: Dict[str, str] = voc.get("method_bodies", {})
    known = set(voc.get("functions", []))
    if not bodies:
        return []

    def h(fn: ast.AST) -> str:
        body = [st for st in fn.body if not (isinstance(st, ast.Expr) and isinstance(st.value, ast.Constant) and isinstance(st.value.value, str))]
        return hashlib.sha1((ast.dump(fn.args) + "|" + "|".join(ast.dump(b) for b in body)).encode()).hexdigest()[:16]

    by_class: Dict[str, Dict[str, str]] = {}
    for q, hv in bodies.items():
        c, m = q.split(".", 1)
        by_class.setdefault(c, {})[m] = hv
    renames: Dict[str, str] = {}
    done: List[str] = []
    for tree in trees.values():
        for c in ast.walk(tree):
            if not isinstance(c, ast.ClassDef) or c.name not in by_class:
                continue
            present = {m.name for m in c.body if isinstance(m, (ast.FunctionDef, ast.AsyncFunctionDef))}
            missing = {m: hv for m, hv in by_class[c.name].items() if m not in present}
            if not missing:
                continue
            for m in c.body:
                if isinstance(m, (ast.FunctionDef, ast.AsyncFunctionDef)) and m.name not in known and m.name not in by_class[c.name]:
                    hv = h(m)
                    olds = [o for o, ohv in missing.items() if ohv == hv]
                    if len(olds) == 1 and m.name not in renames:
                        renames[m.name] = olds[0]
                        done.append(f"{c.name}.{m.name} -> {olds[0]}")
                        m.name = olds[0]
                        del missing[olds[0]]
    if renames:
        for tree in trees.values():
            for n in ast.walk(tree):
                if isinstance(n, ast.Attribute) and n.attr in renames:
                    n.attr = renames[n.attr]
    return done


def unalias_fresh_containers(tree: ast.AST) -> int:
    """Normal form: `x = set()` (or [] / {} / list() / dict()) immediately followed by `T[k] = x` (or `o.a = x`), x bound once: the local is
    just a handle on the object that was filed away - later uses of x are presented as `T[k]`, the pair as `T[k] = set()`."""
    n = 0
    for fn in [f for f in ast.walk(tree) if isinstance(f, (ast.FunctionDef, ast.AsyncFunctionDef))]:
        own = list(_own_nodes(fn))
        stores: Dict[str, int] = {}
        for x in own:
            if isinstance(x, ast.Name) and not isinstance(x.ctx, ast.Load):
                stores[x.id] = stores.get(x.id, 0) + 1
        nested_loads: Set[str] = set()
        for x in ast.walk(fn):
            if x is not fn and isinstance(x, (ast.FunctionDef, ast.AsyncFunctionDef, ast.Lambda)):
                nested_loads |= {y.id for y in ast.walk(x) if isinstance(y, ast.Name)}
        for lst in _stmt_lists(fn):
            i = 0
            while i + 1 < len(lst):
                a, b = lst[i], lst[i + 1]
                ok = (isinstance(a, ast.Assign) and len(a.targets) == 1 and isinstance(a.targets[0], ast.Name)
                      and (isinstance(a.value, (ast.List, ast.Dict, ast.Set)) and not getattr(a.value, "elts", getattr(a.value, "keys", []))
                           or isinstance(a.value, ast.Call) and isinstance(a.value.func, ast.Name) and a.value.func.id in ("set", "list", "dict") and not a.value.args and not a.value.keywords)
                      and isinstance(b, ast.Assign) and len(b.targets) == 1 and isinstance(b.targets[0], (ast.Subscript, ast.Attribute)) and _pure(b.targets[0])
                      and isinstance(b.value, ast.Name) and b.value.id == a.targets[0].id)
                if ok:
                    x = a.targets[0].id
                    chain = b.targets[0]
                    names_in_chain = {y.id for y in ast.walk(chain) if isinstance(y, ast.Name)}
                    later_nodes = [y for s2 in lst[i + 2:] for y in ast.walk(s2)]
                    rebinds = any(isinstance(y, ast.Name) and y.id in names_in_chain and not isinstance(y.ctx, ast.Load) for y in later_nodes)
                    all_loads = [y for y in own if isinstance(y, ast.Name) and y.id == x and isinstance(y.ctx, ast.Load)]
                    later_ids = {id(y) for y in later_nodes}
                    if stores.get(x, 0) == 1 and x not in nested_loads and x not in names_in_chain and not rebinds \
                            and all(id(y) in later_ids or y is b.value for y in all_loads):
                        class R(ast.NodeTransformer):
                            def visit_Name(self, node):
                                if node.id == x and isinstance(node.ctx, ast.Load):
                                    c = copy.deepcopy(chain)
                                    c.ctx = ast.Load()
                                    return ast.copy_location(c, node)
                                return node
                        for j in range(i + 2, len(lst)):
                            lst[j] = R().visit(lst[j])
                        b.value = a.value
                        del lst[i]
                        n += 1
                        continue
                i += 1
    return n
