"""Receiver typing from annotations (part of E1): best-effort, never guesses - returns None when unknown."""
from __future__ import annotations

import ast
from typing import Dict, Optional, Tuple

from .astutil import SCOPE_NODES, unparse
from .index import ClassInfo, FuncInfo, Index

Ty = Tuple[Optional[ClassInfo], str]  # (class, shape) shape: scalar | dict | list | set | unknown | class (the class object itself)

UNKNOWN: Ty = (None, "unknown")


class FuncTypes:
    """Types of names inside one function (parameters, annotated locals, constructor results, loop variables)."""

    def __init__(self, ix: Index, fn: FuncInfo):
        self.ix = ix
        self.fn = fn
        self.owner = self._owner_class(fn)
        self._cache: Dict[str, Ty] = {}
        self._busy: set = set()
        self._defs: Dict[str, list] = {}
        node = fn.node
        if not isinstance(node, ast.Lambda):
            for n in ast.walk(node):
                if isinstance(n, SCOPE_NODES) and n is not node:
                    continue
                if isinstance(n, ast.Assign):
                    for t in n.targets:
                        self._bind(t, ("value", n.value))
                elif isinstance(n, ast.AnnAssign):
                    if isinstance(n.target, ast.Name):
                        self._defs.setdefault(n.target.id, []).append(("ann", n.annotation))
                elif isinstance(n, (ast.For, ast.comprehension)):
                    self._bind(n.target, ("iter", n.iter))
                elif isinstance(n, ast.NamedExpr):
                    self._bind(n.target, ("value", n.value))

    def _bind(self, t, what):
        if isinstance(t, ast.Name):
            self._defs.setdefault(t.id, []).append(what)
        elif isinstance(t, (ast.Tuple, ast.List)) and what[0] == "iter":
            # for k, v in d.items():  -> v gets the dict's value type
            it = what[1]
            if (isinstance(it, ast.Call) and isinstance(it.func, ast.Attribute) and it.func.attr == "items"
                    and len(t.elts) == 2 and isinstance(t.elts[1], ast.Name)):
                self._defs.setdefault(t.elts[1].id, []).append(("iter_values", it.func.value))

    @staticmethod
    def _owner_class(fn: FuncInfo) -> Optional[ClassInfo]:
        f = fn
        while f is not None:
            if f.cls is not None:
                return f.cls
            f = f.parent
        return None

    def _param_ann(self, name: str) -> Optional[ast.AST]:
        f: Optional[FuncInfo] = self.fn
        while f is not None:
            a = f.node.args
            for x in list(a.posonlyargs) + list(a.args) + list(a.kwonlyargs):
                if x.arg == name:
                    return x.annotation
            f = f.parent
        return None

    def name_type(self, name: str) -> Ty:
        if name in self._cache:
            return self._cache[name]
        if name in self._busy:
            return UNKNOWN
        self._busy.add(name)
        try:
            res = self._name_type(name)
        finally:
            self._busy.discard(name)
        self._cache[name] = res
        return res

    def _name_type(self, name: str) -> Ty:
        ix = self.ix
        if name == "self" and self.owner is not None:
            return (self.owner, "scalar")
        if name == "cls" and self.owner is not None:
            return (self.owner, "class")
        ann = self._param_ann(name)
        mi = self.fn.module
        if ann is not None:
            t = ix.ann_class(ann, mi, self.owner)
            if t[0] is not None:
                return t
        defs = self._defs.get(name, [])
        if not defs and self.fn.parent is not None:
            return FuncTypes(ix, self.fn.parent).name_type(name)
        found: Optional[Ty] = None
        for kind, expr in defs:
            if kind == "ann":
                t = ix.ann_class(expr, mi, self.owner)
            elif kind == "value":
                t = self.expr_type(expr)
            elif kind == "iter":
                c, sh = self.expr_type(expr)
                t = (c, "scalar") if c is not None and sh in ("list", "set", "values") else UNKNOWN
            elif kind == "iter_values":
                c, sh = self.expr_type(expr)
                t = (c, "scalar") if c is not None and sh == "dict" else UNKNOWN
            else:
                t = UNKNOWN
            if t[0] is None:
                continue
            if found is None:
                found = t
            elif found[0] is not t[0]:
                # conflicting definitions: keep the common base if one is a subclass of the other
                if ix.is_subclass(t[0], found[0]):
                    pass
                elif ix.is_subclass(found[0], t[0]):
                    found = t
                else:
                    return UNKNOWN
        if found is not None:
            return found
        # a bare class name used as a value
        c = ix._resolve_expr_to_class(ast.Name(id=name, ctx=ast.Load()), mi, self.owner)
        if c is not None:
            return (c, "class")
        return UNKNOWN

    def expr_type(self, e: ast.AST) -> Ty:
        ix = self.ix
        if isinstance(e, ast.Name):
            return self.name_type(e.id)
        if isinstance(e, ast.Attribute):
            c, sh = self.expr_type(e.value)
            if c is None:
                return UNKNOWN
            if sh == "class":
                # Class.Nested or Class.attr
                for k in ix.mro(c):
                    if e.attr in k.nested:
                        return (k.nested[e.attr], "class")
                return ix.attr_type(c, e.attr)
            if sh != "scalar":
                return UNKNOWN
            return ix.attr_type(c, e.attr)
        if isinstance(e, ast.Subscript):
            c, sh = self.expr_type(e.value)
            if c is not None and sh in ("dict", "list"):
                return (c, "scalar")
            return UNKNOWN
        if isinstance(e, ast.Call):
            f = e.func
            if isinstance(f, ast.Name) and f.id == "super":
                return UNKNOWN
            if isinstance(f, ast.Name) and f.id in ("list", "sorted", "reversed", "tuple") and e.args:
                c, sh = self.expr_type(e.args[0])
                return (c, "list") if c is not None and sh in ("list", "set", "values") else UNKNOWN
            if isinstance(f, ast.Attribute):
                rc, rsh = self.expr_type(f.value)
                if rc is not None and rsh == "dict":
                    if f.attr in ("get", "pop", "setdefault"):
                        return (rc, "scalar")
                    if f.attr == "values":
                        return (rc, "values")
                    return UNKNOWN
                if rc is not None and rsh in ("scalar", "class"):
                    m = ix.find_method(rc, f.attr)
                    if m is not None and not isinstance(m.node, ast.Lambda):
                        t = ix.ann_class(m.node.returns, m.module, m.cls)
                        if t[0] is not None:
                            return t
                    # Class.Nested(...) constructor
                    if rsh == "class":
                        for k in ix.mro(rc):
                            if f.attr in k.nested:
                                return (k.nested[f.attr], "scalar")
                return UNKNOWN
            ct = self.expr_type(f) if isinstance(f, ast.Name) else UNKNOWN
            if ct[0] is not None and ct[1] == "class":
                return (ct[0], "scalar")
            if isinstance(f, ast.Name):
                mf = self.fn.module.functions.get(f.id)
                if mf is not None:
                    t = ix.ann_class(mf.node.returns, mf.module, None)
                    if t[0] is not None:
                        return t
            return UNKNOWN
        if isinstance(e, ast.IfExp):
            a = self.expr_type(e.body)
            return a if a[0] is not None else self.expr_type(e.orelse)
        if isinstance(e, ast.NamedExpr):
            return self.expr_type(e.value)
        return UNKNOWN


_FT_CACHE: Dict[int, FuncTypes] = {}


def func_types(ix: Index, fn: FuncInfo) -> FuncTypes:
    k = id(fn)
    ft = _FT_CACHE.get(k)
    if ft is None or ft.ix is not ix:
        ft = FuncTypes(ix, fn)
        _FT_CACHE[k] = ft
    return ft
