"""Static analysis framework for PrimAITE properties C01-C20 (see /verif/DESIGN.md).

Nothing in this package imports or executes code from /repo: every verdict is computed from `ast` trees of the
current working tree.
"""
