"""E2 - per-function control-flow graph with guard edges, and the path queries built on it.

Nodes are statements or *atomic* branch conditions: `if a and not b:` is decomposed into a node for `a` and a node
for `b` (polarity flipped), so a guard that lives inside a compound condition is still an edge of the graph.
Edges out of a condition node carry (expression, polarity).  `for` nodes carry ('iter', True/False).
"""
from __future__ import annotations

import ast
import copy
from collections import deque
from dataclasses import dataclass, field
from typing import Callable, Dict, Iterable, List, Optional, Sequence, Set, Tuple

from .astutil import SCOPE_NODES, store_targets, unparse, walk_shallow
from .index import AnalysisError

Label = Optional[Tuple]  # None | ('cond', expr, bool) | ('iter', for_stmt, bool) | ('exc',)


@dataclass(eq=False)
class CNode:
    id: int
    kind: str  # entry | exit | raise | stmt | cond | for | with
    ast: Optional[ast.AST] = None
    stmt: Optional[ast.AST] = None  # enclosing statement (for cond nodes: the if/while)
    loops: Tuple[ast.AST, ...] = ()  # enclosing loop statements, innermost last
    virtual: bool = False  # atom of a condition that was evaluated earlier and is held in a local (`c = a and b` ... `if c:`)

    @property
    def lineno(self) -> int:
        return getattr(self.ast, "lineno", 0) or getattr(self.stmt, "lineno", 0)

    @property
    def src_lineno(self) -> int:
        """The line the construct really stands on (differs from `lineno` for statements spliced in from a helper)."""
        return getattr(self.ast, "src_lineno", 0) or getattr(self.stmt, "src_lineno", 0) or self.lineno

    def expr_root(self) -> Optional[ast.AST]:
        """The AST evaluated *at this node* (not the nested bodies)."""
        a = self.ast
        if self.virtual:
            return None  # the expression was evaluated where the local was bound; here only its value is tested
        if self.kind == "for":
            return a.iter
        if self.kind == "with":
            return ast.Tuple(elts=[i.context_expr for i in a.items], ctx=ast.Load())
        return a

    def __repr__(self) -> str:
        return f"<{self.kind}#{self.id} L{self.lineno} {unparse(self.ast)[:60] if self.ast is not None else ''}>"


@dataclass
class Edge:
    src: CNode
    dst: CNode
    label: Label = None

    def describe(self) -> str:
        if self.label and self.label[0] == "cond":
            return f"L{self.src.src_lineno}: [{unparse(self.label[1])}] is {self.label[2]}"
        if self.label and self.label[0] == "iter":
            return f"L{self.src.src_lineno}: loop {'iterates' if self.label[2] else 'exhausted'}"
        if self.label and self.label[0] == "exc":
            return f"L{self.src.src_lineno}: raises -> handler"
        return f"L{self.src.src_lineno}"


class CFG:
    def __init__(self, fn: ast.AST):
        self.fn = fn
        self.nodes: List[CNode] = []
        self.succ: Dict[int, List[Edge]] = {}
        self.pred: Dict[int, List[Edge]] = {}
        self.entry = self._new("entry")
        self.exit = self._new("exit")  # normal return / fall-through
        self.raise_exit = self._new("raise")  # uncaught raise
        self._loop_stack: List[Tuple[ast.AST, CNode, List]] = []  # (loop stmt, continue target, break frontier)
        self._try_stack: List[List[CNode]] = []  # handler entry placeholders
        self._ld: Optional["LocalDefs"] = None if isinstance(fn, ast.Lambda) else LocalDefs(fn)
        self._virtual_depth = 0
        body = fn.body if not isinstance(fn, ast.Lambda) else [ast.Return(value=fn.body, lineno=fn.lineno, col_offset=0)]
        out = self._block(body, [(self.entry, None)])
        self._connect(out, self.exit)
        self.falls_through = bool(out)  # some path reaches the end of the body without return/raise

    # ------------------------------------------------------------ construction
    def _new(self, kind: str, a: Optional[ast.AST] = None, stmt: Optional[ast.AST] = None) -> CNode:
        n = CNode(len(self.nodes), kind, a, stmt, tuple(l[0] for l in getattr(self, "_loop_stack", [])))
        self.nodes.append(n)
        self.succ[n.id] = []
        self.pred[n.id] = []
        return n

    def _edge(self, src: CNode, dst: CNode, label: Label = None) -> None:
        e = Edge(src, dst, label)
        self.succ[src.id].append(e)
        self.pred[dst.id].append(e)

    def _connect(self, frontier: List[Tuple[CNode, Label]], dst: CNode) -> None:
        for n, lab in frontier:
            self._edge(n, dst, lab)

    def _exc_edges(self, n: CNode) -> None:
        """A statement inside a try body may raise into any handler of the innermost try."""
        if self._try_stack:
            for h in self._try_stack[-1]:
                self._edge(n, h, ("exc",))

    def _cond(self, expr: ast.AST, frontier, stmt) -> Tuple[List, List]:
        """Decompose a branch condition; returns (true frontier, false frontier)."""
        if isinstance(expr, ast.BoolOp):
            if isinstance(expr.op, ast.And):
                t, f = self._cond(expr.values[0], frontier, stmt)
                for v in expr.values[1:]:
                    t, f2 = self._cond(v, t, stmt)
                    f = f + f2
                return t, f
            else:
                t, f = self._cond(expr.values[0], frontier, stmt)
                for v in expr.values[1:]:
                    t2, f = self._cond(v, f, stmt)
                    t = t + t2
                return t, f
        if isinstance(expr, ast.UnaryOp) and isinstance(expr.op, ast.Not):
            t, f = self._cond(expr.operand, frontier, stmt)
            return f, t
        if isinstance(expr, ast.Compare) and len(expr.ops) == 1 and type(expr.ops[0]) in _POSITIVE:
            # `a not in b`, `a != b`, `a is not b` are presented as the positive comparison with the arms exchanged
            pos = ast.copy_location(ast.Compare(left=expr.left, ops=[_POSITIVE[type(expr.ops[0])]()], comparators=expr.comparators), expr)
            t, f = self._cond(pos, frontier, stmt)
            return f, t
        if isinstance(expr, ast.Call) and self._virtual_depth < 3:
            inner = _predicate_body(expr)
            if inner is not None:
                self._virtual_depth += 1
                try:
                    return self._cond(inner, frontier, stmt)
                finally:
                    self._virtual_depth -= 1
        if _is_quantifier(expr):
            # any(p(x) for x in it if c(x)) / all(...): the search loop it abbreviates - a `for` node over `it`, the filters and the
            # element test as branch conditions inside it, the answer on the first decisive element or on exhaustion
            comp = expr.args[0]
            gen = comp.generators[0]
            loop_ast = ast.copy_location(ast.For(target=gen.target, iter=gen.iter, body=[ast.Pass()], orelse=[]), expr)
            ast.fix_missing_locations(loop_ast)
            n = self._new("for", loop_ast, stmt)
            n.virtual = self._virtual_depth > 0
            self._connect(frontier, n)
            self._exc_edges(n)
            cur = [(n, ("iter", loop_ast, True))]
            back = []
            self._loop_stack.append((loop_ast, n, []))
            try:
                for c in gen.ifs:
                    t, f = self._cond(c, cur, stmt)
                    back += f
                    cur = t
                t, f = self._cond(comp.elt, cur, stmt)
            finally:
                self._loop_stack.pop()
            exhausted = [(n, ("iter", loop_ast, False))]
            if expr.func.id == "any":
                self._connect(back + f, n)
                return t, exhausted
            self._connect(back + t, n)
            return exhausted, f
        if isinstance(expr, ast.Call) and isinstance(expr.func, ast.Name) and expr.func.id in ("all", "any") and len(expr.args) == 1 \
                and not expr.keywords and isinstance(expr.args[0], (ast.Tuple, ast.List)) and expr.args[0].elts \
                and not any(isinstance(x, ast.Starred) for x in expr.args[0].elts):
            # all((a, b, c)) / any([a, b]) over a literal sequence: the same decision as `a and b and c` / `a or b` (every element is
            # evaluated, none of them short-circuited - which makes no difference to which branch is taken)
            op = ast.And() if expr.func.id == "all" else ast.Or()
            return self._cond(ast.copy_location(ast.BoolOp(op=op, values=list(expr.args[0].elts)), expr), frontier, stmt)
        if isinstance(expr, ast.Name) and self._ld is not None and self._virtual_depth < 3:
            # a guard held in a local: `c = <condition>` (bound exactly once, whole value) ... `if c:` is decomposed like the
            # condition itself; the atoms are *virtual* (nothing is evaluated here, only the remembered value is tested)
            d = self._ld.single(expr.id)
            boolean = d is not None and (isinstance(d[0], (ast.BoolOp, ast.Compare)) or (isinstance(d[0], ast.UnaryOp) and isinstance(d[0].op, ast.Not)))
            # a call / attribute / subscript held in a local is a guard only if the local is never used as a value
            valueish = d is not None and isinstance(d[0], (ast.Call, ast.Attribute, ast.Subscript)) and self._only_tested(expr.id)
            if d and d[0] is not None and d[1] is None and (boolean or valueish):
                self._virtual_depth += 1
                try:
                    return self._cond(d[0], frontier, stmt)
                finally:
                    self._virtual_depth -= 1
        if isinstance(expr, ast.Constant):
            n = self._new("cond", expr, stmt)
            self._connect(frontier, n)
            self._exc_edges(n)
            if expr.value:
                return [(n, ("cond", expr, True))], []
            return [], [(n, ("cond", expr, False))]
        expr = _constant_right(expr)
        n = self._new("cond", expr, stmt)
        n.virtual = self._virtual_depth > 0
        self._connect(frontier, n)
        self._exc_edges(n)
        return [(n, ("cond", expr, True))], [(n, ("cond", expr, False))]

    def _only_tested(self, name: str) -> bool:
        """Every load of the local is a truth test (if/while/ifexp/assert test, possibly under not/and/or)."""
        cache = self.__dict__.setdefault("_only_tested_cache", {})
        if name in cache:
            return cache[name]
        tests: Set[int] = set()

        def mark(e: ast.AST) -> None:
            if isinstance(e, ast.Name):
                tests.add(id(e))
            elif isinstance(e, ast.BoolOp):
                for v in e.values:
                    mark(v)
            elif isinstance(e, ast.UnaryOp) and isinstance(e.op, ast.Not):
                mark(e.operand)

        loads = []
        for n in ast.walk(self.fn):
            if isinstance(n, (ast.If, ast.While, ast.IfExp, ast.Assert)):
                mark(n.test)
            if isinstance(n, ast.Name) and n.id == name and isinstance(n.ctx, ast.Load):
                loads.append(n)
        ok = bool(loads) and all(id(n) in tests for n in loads)
        cache[name] = ok
        return ok

    def _simple(self, stmt: ast.AST, frontier, kind: str = "stmt") -> CNode:
        n = self._new(kind, stmt, stmt)
        self._connect(frontier, n)
        self._exc_edges(n)
        return n

    def _block(self, stmts: Sequence[ast.stmt], frontier: List[Tuple[CNode, Label]]) -> List[Tuple[CNode, Label]]:
        for s in stmts:
            if not frontier:
                break  # unreachable code after return/raise/break
            frontier = self._stmt(s, frontier)
        return frontier

    def _ifexp_split(self, s: ast.stmt, frontier):
        """`return a if c else b` / `x = a if c else b` -> branch on c with one synthetic statement per arm."""
        val = getattr(s, "value", None)
        if isinstance(val, ast.IfExp) and isinstance(s, (ast.Return, ast.Assign, ast.AnnAssign, ast.Expr)):
            t, f = self._cond(val.test, frontier, s)
            outs = []
            for arm, fr in ((val.body, t), (val.orelse, f)):
                s2 = copy.copy(s)
                s2.value = arm
                if fr:
                    outs.extend(self._stmt(s2, fr))
            return True, outs
        return False, frontier

    def _stmt(self, s: ast.stmt, frontier):
        if isinstance(s, ast.If):
            t, f = self._cond(s.test, frontier, s)
            out_t = self._block(s.body, t)
            out_f = self._block(s.orelse, f) if s.orelse else f
            return out_t + out_f
        if isinstance(s, ast.While):
            head_in = self._new("stmt", ast.Pass(lineno=s.lineno, col_offset=0), s)  # loop head join point
            self._connect(frontier, head_in)
            self._loop_stack.append((s, head_in, []))
            t, f = self._cond(s.test, [(head_in, None)], s)
            body_out = self._block(s.body, t)
            self._connect(body_out, head_in)
            _, _, breaks = self._loop_stack.pop()
            out_f = self._block(s.orelse, f) if s.orelse else f
            return out_f + breaks
        if isinstance(s, (ast.For, ast.AsyncFor)):
            self._loop_stack.append((s, None, []))
            n = self._new("for", s, s)
            self._loop_stack[-1] = (s, n, self._loop_stack[-1][2])
            self._connect(frontier, n)
            self._exc_edges(n)
            body_out = self._block(s.body, [(n, ("iter", s, True))])
            self._connect(body_out, n)
            _, _, breaks = self._loop_stack.pop()
            f = [(n, ("iter", s, False))]
            out_f = self._block(s.orelse, f) if s.orelse else f
            return out_f + breaks
        if isinstance(s, ast.Try):
            handlers = [self._new("stmt", h, s) for h in s.handlers]
            self._try_stack.append(handlers)
            body_out = self._block(s.body, frontier)
            self._try_stack.pop()
            if s.orelse:
                body_out = self._block(s.orelse, body_out)
            outs = list(body_out)
            for h, hn in zip(s.handlers, handlers):
                outs.extend(self._block(h.body, [(hn, None)]))
            if s.finalbody:
                outs = self._block(s.finalbody, outs)
            return outs
        if isinstance(s, (ast.With, ast.AsyncWith)):
            n = self._simple(s, frontier, "with")
            return self._block(s.body, [(n, None)])
        if isinstance(s, ast.Return):
            done, outs = self._ifexp_split(s, frontier)
            if done:
                return outs
            if s.value is not None and isinstance(s.value, ast.Call) and isinstance(s.value.func, ast.Name) and s.value.func.id == "bool" \
                    and len(s.value.args) == 1 and not s.value.keywords and isinstance(s.value.args[0], (ast.BoolOp, ast.Compare, ast.UnaryOp)):
                # `return bool(<condition>)`: the branch `if <condition>: return True` / `return False` written as an expression
                t, f = self._cond(s.value.args[0], frontier, s)
                for fr, val in ((t, True), (f, False)):
                    if fr:
                        r = ast.copy_location(ast.Return(value=ast.copy_location(ast.Constant(value=val), s)), s)
                        n = self._simple(r, fr)
                        self._edge(n, self.exit)
                return []
            if s.value is not None and _is_quantifier(s.value):
                # `return any(...)` / `return all(...)`: the search loop, answering True / False
                t, f = self._cond(s.value, frontier, s)
                for fr, val in ((t, True), (f, False)):
                    if fr:
                        r = ast.copy_location(ast.Return(value=ast.copy_location(ast.Constant(value=val), s)), s)
                        n = self._simple(r, fr)
                        self._edge(n, self.exit)
                return []
            n = self._simple(s, frontier)
            self._edge(n, self.exit)
            return []
        if isinstance(s, ast.Raise):
            n = self._new("stmt", s, s)
            self._connect(frontier, n)
            if self._try_stack:
                for h in self._try_stack[-1]:
                    self._edge(n, h, ("exc",))
            else:
                self._edge(n, self.raise_exit)
            return []
        if isinstance(s, ast.Break):
            n = self._simple(s, frontier)
            if not self._loop_stack:
                raise AnalysisError("break outside loop")
            self._loop_stack[-1][2].append((n, None))
            return []
        if isinstance(s, ast.Continue):
            n = self._simple(s, frontier)
            self._edge(n, self._loop_stack[-1][1])
            return []
        if isinstance(s, ast.Assert):
            t, f = self._cond(s.test, frontier, s)
            for n, lab in f:
                self._edge(n, self.raise_exit, lab)
            return t
        if isinstance(s, ast.Match):
            raise AnalysisError(f"match statement at line {s.lineno} is not modelled by the CFG builder")
        if isinstance(s, (ast.Assign, ast.AnnAssign, ast.Expr)):
            done, outs = self._ifexp_split(s, frontier)
            if done:
                return outs
        n = self._simple(s, frontier)
        return [(n, None)]

    # ------------------------------------------------------------ queries
    def edges(self) -> Iterable[Edge]:
        for es in self.succ.values():
            yield from es

    def find_nodes(self, pred: Callable[[CNode], bool]) -> List[CNode]:
        return [n for n in self.nodes if n.kind not in ("entry", "exit", "raise") and pred(n)]

    def path_avoiding(
        self,
        targets: Iterable[CNode],
        blocked: Callable[[Edge], bool],
        start: Optional[CNode] = None,
        blocked_nodes: Optional[Set[int]] = None,
    ) -> Optional[List[Edge]]:
        """BFS from start (default entry) to any target using only edges for which blocked(e) is False.

        Returns the edge path (a witness) or None when every path is cut.
        """
        tset = {t.id for t in targets}
        start = start or self.entry
        if start.id in tset:
            return []
        parent: Dict[int, Edge] = {}
        seen = {start.id}
        dq = deque([start])
        bn = blocked_nodes or set()
        if start.id in bn:
            return None  # the path would begin at a node it has to avoid (e.g. one statement both removes and marks)
        while dq:
            cur = dq.popleft()
            for e in self.succ[cur.id]:
                if e.dst.id in seen or e.dst.id in bn or blocked(e):
                    continue
                seen.add(e.dst.id)
                parent[e.dst.id] = e
                if e.dst.id in tset:
                    path = []
                    x = e.dst.id
                    while x != start.id:
                        pe = parent[x]
                        path.append(pe)
                        x = pe.src.id
                    path.reverse()
                    return path
                dq.append(e.dst)
        return None

    def reachable(self, start: Optional[CNode] = None, blocked: Callable[[Edge], bool] = lambda e: False) -> Set[int]:
        start = start or self.entry
        seen = {start.id}
        dq = deque([start])
        while dq:
            cur = dq.popleft()
            for e in self.succ[cur.id]:
                if e.dst.id not in seen and not blocked(e):
                    seen.add(e.dst.id)
                    dq.append(e.dst)
        return seen

    def dominators(self) -> Dict[int, Set[int]]:
        reach = self.reachable()
        ids = [n.id for n in self.nodes if n.id in reach]
        dom = {i: set(ids) for i in ids}
        dom[self.entry.id] = {self.entry.id}
        changed = True
        while changed:
            changed = False
            for i in ids:
                if i == self.entry.id:
                    continue
                preds = [e.src.id for e in self.pred[i] if e.src.id in reach]
                new = set.intersection(*(dom[p] for p in preds)) if preds else set()
                new = new | {i}
                if new != dom[i]:
                    dom[i] = new
                    changed = True
        return dom

    def dominates(self, a: CNode, b: CNode) -> bool:
        return a.id in self.dominators().get(b.id, set())

    def always_before(self, a_nodes: Iterable[CNode], b: CNode) -> Optional[List[Edge]]:
        """Witness path entry->b that avoids every node in a_nodes, or None if some a always precedes b."""
        bn = {a.id for a in a_nodes}
        if b.id in bn:
            return None
        return self.path_avoiding([b], lambda e: False, blocked_nodes=bn)

    def count_range(self, is_event: Callable[[CNode], int], to: Optional[CNode] = None) -> Tuple[int, float]:
        """(min, max) number of events along any entry->exit path; max is inf when an event sits on a cycle."""
        to = to or self.exit
        reach = self.reachable()
        # nodes that can reach `to`
        back = {to.id}
        dq = deque([to.id])
        while dq:
            cur = dq.popleft()
            for e in self.pred[cur]:
                if e.src.id not in back:
                    back.add(e.src.id)
                    dq.append(e.src.id)
        live = reach & back
        if self.entry.id not in live:
            return (0, 0)
        # Tarjan SCC on live subgraph
        index: Dict[int, int] = {}
        low: Dict[int, int] = {}
        onst: Set[int] = set()
        st: List[int] = []
        comp: Dict[int, int] = {}
        comps: List[List[int]] = []
        counter = [0]

        def strong(v: int) -> None:
            # iterative Tarjan
            work = [(v, iter([e.dst.id for e in self.succ[v] if e.dst.id in live]))]
            index[v] = low[v] = counter[0]
            counter[0] += 1
            st.append(v)
            onst.add(v)
            while work:
                node, it = work[-1]
                adv = False
                for w in it:
                    if w not in index:
                        index[w] = low[w] = counter[0]
                        counter[0] += 1
                        st.append(w)
                        onst.add(w)
                        work.append((w, iter([e.dst.id for e in self.succ[w] if e.dst.id in live])))
                        adv = True
                        break
                    elif w in onst:
                        low[node] = min(low[node], index[w])
                if adv:
                    continue
                work.pop()
                if work:
                    low[work[-1][0]] = min(low[work[-1][0]], low[node])
                if low[node] == index[node]:
                    c = []
                    while True:
                        w = st.pop()
                        onst.discard(w)
                        comp[w] = len(comps)
                        c.append(w)
                        if w == node:
                            break
                    comps.append(c)

        for v in sorted(live):
            if v not in index:
                strong(v)
        ev = {i: int(is_event(self.nodes[i])) for i in live}
        cyc = {}
        for ci, c in enumerate(comps):
            is_cycle = len(c) > 1 or any(e.dst.id == c[0] for e in self.succ[c[0]])
            tot = sum(ev[i] for i in c)
            cyc[ci] = (is_cycle, tot)
        # comps are produced in reverse topological order (sinks first)
        best_min: Dict[int, float] = {}
        best_max: Dict[int, float] = {}
        for ci, c in enumerate(comps):
            is_cycle, tot = cyc[ci]
            own_min = 0 if is_cycle else tot
            own_max = (float("inf") if tot else 0) if is_cycle else tot
            succs = {comp[e.dst.id] for i in c for e in self.succ[i] if e.dst.id in live and comp[e.dst.id] != ci}
            if to.id in c:
                smin, smax = 0, 0
                if succs:
                    smin = min(0, min(best_min[s] for s in succs))
                    smax = max(0, max(best_max[s] for s in succs))
            else:
                smin = min(best_min[s] for s in succs)
                smax = max(best_max[s] for s in succs)
            best_min[ci] = own_min + smin
            best_max[ci] = own_max + smax
        ce = comp[self.entry.id]
        return int(best_min[ce]), best_max[ce]


def path_text(path: Optional[List[Edge]], limit: int = 12) -> List[str]:
    if path is None:
        return []
    out = [e.describe() for e in path if e.label is not None]
    if len(out) > limit:
        out = out[: limit // 2] + ["..."] + out[-limit // 2 :]
    return out


# single-expression predicate methods of the analysed program, by name (set by the program index when it is built): a condition
# `self.name(args)` / `cls.name(args)` is decomposed like the predicate's own expression with the arguments substituted
PREDICATES: Dict[str, ast.FunctionDef] = {}


def set_predicates(preds: Dict[str, ast.FunctionDef]) -> None:
    PREDICATES.clear()
    PREDICATES.update(preds)


def _predicate_body(call: ast.Call) -> Optional[ast.AST]:
    f = call.func
    if isinstance(f, ast.Name) and f.id in PREDICATES and getattr(PREDICATES[f.id], "_module_level", False):
        fn = PREDICATES[f.id]  # a module-level predicate function called by its bare name
        static = True
    else:
        if not (isinstance(f, ast.Attribute) and isinstance(f.value, ast.Name) and f.attr in PREDICATES):
            return None
        fn = PREDICATES[f.attr]
        if getattr(fn, "_module_level", False):
            return None
        static = any(isinstance(d, ast.Name) and d.id == "staticmethod" for d in fn.decorator_list)
        if f.value.id not in ("self", "cls") and not f.value.id[:1].isupper():
            return None
    params = [a.arg for a in fn.args.args][0 if static else 1:]
    if fn.args.vararg or fn.args.kwarg or fn.args.kwonlyargs or any(isinstance(a, ast.Starred) for a in call.args) \
            or any(k.arg is None for k in call.keywords) or len(call.args) > len(params):
        return None
    binding: Dict[str, ast.AST] = dict(zip(params, call.args))
    for k in call.keywords:
        if k.arg not in params or k.arg in binding:
            return None
        binding[k.arg] = k.value
    defaults = dict(zip(reversed([a.arg for a in fn.args.args]), reversed(fn.args.defaults)))
    for p in params:
        if p not in binding:
            if p not in defaults:
                return None
            binding[p] = defaults[p]
    body = [st for st in fn.body if not (isinstance(st, ast.Expr) and isinstance(st.value, ast.Constant))]
    expr = copy.deepcopy(body[0].value)

    class Sub(ast.NodeTransformer):
        def visit_Name(self, node):
            if node.id in binding and isinstance(node.ctx, ast.Load):
                return ast.copy_location(copy.deepcopy(binding[node.id]), node)
            return node

    out = Sub().visit(expr)
    # positions of the call site, so that reports point at the condition that was written
    for x in ast.walk(out):
        ast.copy_location(x, call)
    return out


_POSITIVE = {ast.NotIn: ast.In, ast.NotEq: ast.Eq, ast.IsNot: ast.Is}


def _is_quantifier(e: ast.AST) -> bool:
    """any(<elt> for x in it [if c]) / all(...) with one generator (generator expression or list comprehension)."""
    return (isinstance(e, ast.Call) and isinstance(e.func, ast.Name) and e.func.id in ("any", "all") and len(e.args) == 1 and not e.keywords
            and isinstance(e.args[0], (ast.GeneratorExp, ast.ListComp)) and len(e.args[0].generators) == 1
            and not e.args[0].generators[0].is_async)


_MIRROR = {ast.Lt: ast.Gt, ast.Gt: ast.Lt, ast.LtE: ast.GtE, ast.GtE: ast.LtE, ast.Eq: ast.Eq, ast.NotEq: ast.NotEq}


def _is_const(e: ast.AST) -> bool:
    return isinstance(e, ast.Constant) or (isinstance(e, ast.UnaryOp) and isinstance(e.op, ast.USub) and isinstance(e.operand, ast.Constant))


def _constant_right(expr: ast.AST) -> ast.AST:
    """`0 >= x` is presented to the rules as `x <= 0`: one orientation for comparisons against a constant."""
    if isinstance(expr, ast.Compare) and len(expr.ops) == 1 and type(expr.ops[0]) in _MIRROR and _is_const(expr.left) \
            and not _is_const(expr.comparators[0]):
        return ast.copy_location(ast.Compare(left=expr.comparators[0], ops=[_MIRROR[type(expr.ops[0])]()], comparators=[expr.left]), expr)
    return expr


class LocalDefs:
    """Single-assignment view of a function's locals: name -> list of (value, tuple index, stmt)."""

    def __init__(self, fn: ast.AST):
        self.defs: Dict[str, List[Tuple[Optional[ast.AST], Optional[int], ast.AST]]] = {}
        body = fn.body if not isinstance(fn, ast.Lambda) else []
        for node in ast.walk(fn) if not isinstance(fn, ast.Lambda) else []:
            if isinstance(node, SCOPE_NODES) and node is not fn:
                continue
            if isinstance(node, ast.Assign):
                for t in node.targets:
                    self._bind(t, node.value, node)
            elif isinstance(node, ast.AnnAssign) and node.value is not None:
                self._bind(node.target, node.value, node)
            elif isinstance(node, ast.AugAssign):
                self._bind(node.target, None, node)
            elif isinstance(node, (ast.For, ast.AsyncFor)):
                self._bind(node.target, None, node)
            elif isinstance(node, ast.NamedExpr):
                self._bind(node.target, node.value, node)
            elif isinstance(node, (ast.With, ast.AsyncWith)):
                for it in node.items:
                    if it.optional_vars is not None:
                        self._bind(it.optional_vars, None, node)
        self.params = set()
        a = fn.args
        for x in list(a.posonlyargs) + list(a.args) + list(a.kwonlyargs):
            self.params.add(x.arg)
        if a.vararg:
            self.params.add(a.vararg.arg)
        if a.kwarg:
            self.params.add(a.kwarg.arg)

    def _bind(self, t: ast.AST, v: Optional[ast.AST], stmt: ast.AST) -> None:
        if isinstance(t, ast.Name):
            self.defs.setdefault(t.id, []).append((v, None, stmt))
        elif isinstance(t, (ast.Tuple, ast.List)):
            for i, e in enumerate(t.elts):
                if isinstance(e, ast.Name):
                    if isinstance(v, (ast.Tuple, ast.List)) and len(v.elts) == len(t.elts):
                        self.defs.setdefault(e.id, []).append((v.elts[i], None, stmt))
                    else:
                        self.defs.setdefault(e.id, []).append((v, i, stmt))
                elif isinstance(e, (ast.Tuple, ast.List)):
                    self._bind(e, None, stmt)

    def single(self, name: str) -> Optional[Tuple[Optional[ast.AST], Optional[int]]]:
        """(value, tuple-index) if the name has exactly one definition and is not a parameter."""
        d = self.defs.get(name)
        if d and len(d) == 1 and name not in self.params:
            return d[0][0], d[0][1]
        return None

    def all_values(self, name: str) -> List[Tuple[Optional[ast.AST], Optional[int]]]:
        return [(v, i) for v, i, _ in self.defs.get(name, [])]

    def expand(self, expr: ast.AST, depth: int = 3) -> ast.AST:
        """Replace a Name by its single definition (whole-value definitions only), transitively."""
        cur = expr
        for _ in range(depth):
            if isinstance(cur, ast.Name):
                s = self.single(cur.id)
                if s and s[0] is not None and s[1] is None:
                    cur = s[0]
                    continue
            break
        return cur


def expand_test(ld: "LocalDefs", test: ast.AST, depth: int = 3) -> ast.AST:
    """A branch condition with guards held in locals written out: `c = a and b` ... `if c:` reads as `if a and b:`.
    Only whole-value, single definitions are followed; the structure (and/or/not) around them is kept.  Syntactic rules that
    pattern-match `If.test` use this so that binding a condition to a local first does not hide it from them."""
    if depth <= 0:
        return test
    if isinstance(test, ast.Name):
        d = ld.single(test.id)
        if d and d[0] is not None and d[1] is None and isinstance(d[0], (ast.BoolOp, ast.Compare, ast.UnaryOp, ast.Call, ast.Attribute, ast.Subscript)):
            return expand_test(ld, d[0], depth - 1)
        return test
    if isinstance(test, ast.BoolOp):
        return ast.copy_location(ast.BoolOp(op=test.op, values=[expand_test(ld, v, depth) for v in test.values]), test)
    if isinstance(test, ast.UnaryOp) and isinstance(test.op, ast.Not):
        return ast.copy_location(ast.UnaryOp(op=test.op, operand=expand_test(ld, test.operand, depth)), test)
    return test
