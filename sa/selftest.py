"""Self-test corpus runner (thorough tier): breaking variants must be detected, benign twins must stay silent.

Variants are text edits applied to the *current* source of one file and analysed as an in-memory overlay of the index
(no scratch copy is written, nothing is executed).  A variant whose anchor text no longer occurs exactly once in the
current tree is reported as stale and skipped.
"""
from __future__ import annotations

import importlib
import json
import os
import sys
import time
from concurrent.futures import ProcessPoolExecutor
from typing import Any, Dict, List, Optional, Tuple

from .index import AnalysisError, Index
from .report import Ctx, load_known

HERE = os.path.dirname(os.path.abspath(__file__))
CORPUS_DIR = os.path.join(os.path.dirname(HERE), "selftest", "corpus")


def load_corpus(prop: str) -> List[Dict[str, Any]]:
    p = os.path.join(CORPUS_DIR, f"{prop.lower()}.json")
    if not os.path.exists(p):
        return []
    with open(p) as fh:
        return json.load(fh)


def _run_variant(args: Tuple[str, str, Dict[str, Any]]) -> Dict[str, Any]:
    prop, repo, v = args
    t0 = time.time()
    res: Dict[str, Any] = {"id": v["id"], "kind": v["kind"], "file": v["file"], "what": v.get("what", "")}
    overlay: Dict[str, str] = {}
    for part in v.get("files") or [{"file": v["file"], "edits": v.get("edits") or [{"old": v["old"], "new": v["new"]}]}]:
        try:
            src = open(os.path.join(repo, part["file"]), encoding="utf-8").read()
        except OSError:
            res["outcome"] = "stale"
            return res
        for e in part["edits"]:
            if src.count(e["old"]) != 1:
                res["outcome"] = "stale"
                res["detail"] = f"anchor occurs {src.count(e['old'])} times"
                return res
            src = src.replace(e["old"], e["new"])
        try:
            compile(src, part["file"], "exec")
        except SyntaxError as ex:
            res["outcome"] = "invalid"
            res["detail"] = str(ex)
            return res
        overlay[part["file"]] = src
    try:
        ix = Index(repo, overlay=overlay)
        ctx = Ctx(prop, "selftest", ix)
        mod = importlib.import_module(f"sa.rules.{prop.lower()}")
        mod.check(ctx)
        known = {(f["property"], f["rule"], f["key"]) for f in load_known().get("findings", []) if f.get("status") == "known"}
        new_fail = [i for i in ctx.instances if not i.ok and (prop, i.rule, i.key) not in known]
        res["fired"] = sorted({i.rule for i in new_fail})
        res["first"] = (new_fail[0].rule + " " + new_fail[0].key.split("::", 1)[-1][:90]) if new_fail else ""
        res["outcome"] = "violation" if new_fail else "silent"
    except AnalysisError as ex:
        res["outcome"] = "analysis-error"
        res["detail"] = str(ex)[:160]
    except Exception as ex:  # pragma: no cover
        res["outcome"] = "crash"
        res["detail"] = f"{type(ex).__name__}: {ex}"[:160]
    res["s"] = round(time.time() - t0, 2)
    return res


def run_for(prop: str, repo: str, jobs: int = 16) -> Dict[str, Any]:
    corpus = load_corpus(prop)
    out: Dict[str, Any] = {"breaking": 0, "killed": 0, "fail_closed": 0, "benign": 0, "silent": 0, "stale": 0,
                           "failures": [], "variants": []}
    if not corpus:
        return out
    with ProcessPoolExecutor(max_workers=min(jobs, len(corpus))) as ex:
        results = list(ex.map(_run_variant, [(prop, repo, v) for v in corpus]))
    for v, r in zip(corpus, results):
        out["variants"].append({k: r.get(k) for k in ("id", "kind", "outcome", "fired", "first", "what")})
        if r["outcome"] in ("stale", "invalid"):
            out["stale"] += 1
            continue
        if v["kind"] == "break":
            out["breaking"] += 1
            want = v.get("rule")
            if r["outcome"] == "violation" and (not want or any(x.startswith(want) for x in r.get("fired", []))):
                out["killed"] += 1
            elif r["outcome"] == "analysis-error":
                out["fail_closed"] += 1
            else:
                out["failures"].append(f"{prop} {v['id']}: breaking variant not detected ({r['outcome']}, fired {r.get('fired')}) - {v.get('what', '')}")
        else:
            out["benign"] += 1
            if r["outcome"] == "silent":
                out["silent"] += 1
            else:
                out["failures"].append(f"{prop} {v['id']}: benign twin raised {r['outcome']} {r.get('fired') or r.get('detail')} - {v.get('what', '')}")
    return out


def main() -> int:
    """python -m sa.selftest [PROP ...] : run the corpus for the given (or all) properties and print a table."""
    repo = os.environ.get("PRIMAITE_REPO", "/repo")
    props = [a.upper() for a in sys.argv[1:]] or sorted(f[:-5].upper() for f in os.listdir(CORPUS_DIR) if f.endswith(".json"))
    bad = 0
    for p in props:
        r = run_for(p, repo)
        print(f"{p}: breaking {r['killed']}/{r['breaking']} detected (+{r['fail_closed']} fail-closed), benign {r['silent']}/{r['benign']} silent, "
              f"{r['stale']} stale")
        for f in r["failures"]:
            print("   FAIL", f)
            bad += 1
        if os.environ.get("SELFTEST_VERBOSE"):
            for v in r["variants"]:
                print("     ", v["id"], v["kind"], v["outcome"], v.get("fired"), "|", v.get("first"))
    return 1 if bad else 0


if __name__ == "__main__":
    sys.exit(main())
