"""Self-test corpus runner (thorough tier): placeholder until the mutant corpus is written."""
from typing import Any, Dict


def run_for(prop: str, repo: str) -> Dict[str, Any]:
    return {"breaking": 0, "killed": 0, "benign": 0, "silent": 0, "failures": [], "variants": []}
