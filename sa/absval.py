"""E10 - exact evaluation of guard expressions over a small finite domain (no program execution).

`Evaluator` evaluates a boolean/arithmetic *expression AST* under an environment that maps expression *texts*
("self.step_counter", "max_steps", "route.metric") to concrete stand-in values.  It is used to build truth tables of
guards whose operands matter only through comparisons, and to follow a CFG deterministically (`walk`).
"""
from __future__ import annotations

import ast
import operator
from typing import Any, Callable, Dict, List, Optional, Tuple

from .astutil import unparse
from .cfg import CFG, CNode, LocalDefs
from .index import AnalysisError


class _Unknown:
    def __repr__(self) -> str:
        return "UNKNOWN"


UNKNOWN = _Unknown()

_CMP = {
    ast.Eq: operator.eq, ast.NotEq: operator.ne, ast.Lt: operator.lt, ast.LtE: operator.le, ast.Gt: operator.gt,
    ast.GtE: operator.ge, ast.Is: operator.is_, ast.IsNot: operator.is_not,
    ast.In: lambda a, b: a in b, ast.NotIn: lambda a, b: a not in b,
}
_BIN = {ast.Add: operator.add, ast.Sub: operator.sub, ast.Mult: operator.mul, ast.FloorDiv: operator.floordiv, ast.Div: operator.truediv,
        ast.Mod: operator.mod, ast.BitAnd: operator.and_, ast.BitOr: operator.or_, ast.BitXor: operator.xor,
        ast.LShift: lambda a, b: a << b if isinstance(b, int) and 0 <= b <= 64 else UNKNOWN,
        ast.RShift: lambda a, b: a >> b if isinstance(b, int) and 0 <= b <= 64 else UNKNOWN,
        ast.Pow: lambda a, b: a ** b if isinstance(b, int) and 0 <= b <= 64 else UNKNOWN}


class Evaluator:
    def __init__(self, env: Dict[str, Any], ld: Optional[LocalDefs] = None):
        self.env = dict(env)
        self.pinned = set(env)  # stand-in values supplied by the rule are never overwritten by assignments
        self.ld = ld

    def ev(self, e: ast.AST, depth: int = 0) -> Any:
        txt = unparse(e)
        if txt in self.env:
            return self.env[txt]
        if isinstance(e, ast.Constant):
            return e.value
        if isinstance(e, ast.Name):
            if self.ld is not None and depth < 6:
                s = self.ld.single(e.id)
                if s and s[0] is not None and s[1] is None:
                    return self.ev(s[0], depth + 1)
            return UNKNOWN
        if isinstance(e, ast.UnaryOp):
            v = self.ev(e.operand, depth)
            if v is UNKNOWN:
                return UNKNOWN
            if isinstance(e.op, ast.Not):
                return not v
            if isinstance(e.op, ast.USub):
                return -v
            if isinstance(e.op, ast.Invert) and isinstance(v, int):
                return ~v
            return UNKNOWN
        if isinstance(e, ast.BoolOp):
            vals = []
            for v in e.values:
                x = self.ev(v, depth)
                if isinstance(e.op, ast.And):
                    if x is not UNKNOWN and not x:
                        return x
                else:
                    if x is not UNKNOWN and x:
                        return x
                vals.append(x)
            if any(x is UNKNOWN for x in vals):
                return UNKNOWN
            return vals[-1]
        if isinstance(e, ast.Compare):
            left = self.ev(e.left, depth)
            res = True
            for op, c in zip(e.ops, e.comparators):
                right = self.ev(c, depth)
                if left is UNKNOWN or right is UNKNOWN:
                    return UNKNOWN
                fn = _CMP.get(type(op))
                if fn is None:
                    return UNKNOWN
                try:
                    if not fn(left, right):
                        res = False
                        break
                except TypeError:
                    return UNKNOWN
                left = right
            return res
        if isinstance(e, ast.BinOp):
            a, b = self.ev(e.left, depth), self.ev(e.right, depth)
            fn = _BIN.get(type(e.op))
            if a is UNKNOWN or b is UNKNOWN or fn is None:
                return UNKNOWN
            try:
                return fn(a, b)
            except Exception:
                return UNKNOWN
        if isinstance(e, ast.IfExp):
            t = self.ev(e.test, depth)
            if t is UNKNOWN:
                return UNKNOWN
            return self.ev(e.body if t else e.orelse, depth)
        if isinstance(e, (ast.Tuple, ast.List, ast.Set)):
            vals = [self.ev(x, depth) for x in e.elts]
            if any(v is UNKNOWN for v in vals):
                return UNKNOWN
            return tuple(vals) if not isinstance(e, ast.Set) else set(vals)
        if isinstance(e, ast.Call) and isinstance(e.func, ast.Name) and e.func.id in ("all", "any") and len(e.args) == 1 and not e.keywords \
                and isinstance(e.args[0], (ast.Tuple, ast.List)):
            vals = [self.ev(a, depth) for a in e.args[0].elts]
            if e.func.id == "all":
                if any(v is not UNKNOWN and not v for v in vals):
                    return False
                return UNKNOWN if any(v is UNKNOWN for v in vals) else True
            if any(v is not UNKNOWN and v for v in vals):
                return True
            return UNKNOWN if any(v is UNKNOWN for v in vals) else False
        if isinstance(e, ast.Call) and isinstance(e.func, ast.Name) and e.func.id in ("len", "int", "bool", "min", "max", "abs", "round", "float"):
            vals = [self.ev(a, depth) for a in e.args]
            if any(v is UNKNOWN for v in vals) or e.keywords:
                return UNKNOWN
            try:
                return {"len": len, "int": int, "bool": bool, "min": min, "max": max, "abs": abs, "round": round, "float": float}[e.func.id](*vals)
            except Exception:
                return UNKNOWN
        if isinstance(e, ast.Call) and len(e.args) == 1 and not e.keywords and (
                (isinstance(e.func, ast.Attribute) and isinstance(e.func.value, ast.Name) and e.func.value.id in ("math", "np", "numpy")
                 and e.func.attr in ("ceil", "floor", "trunc")) or (isinstance(e.func, ast.Name) and e.func.id in ("ceil", "floor", "trunc"))):
            v = self.ev(e.args[0], depth)
            if isinstance(v, (int, float)) and not isinstance(v, bool):
                import math
                return getattr(math, e.func.attr if isinstance(e.func, ast.Attribute) else e.func.id)(v)
            return UNKNOWN
        if isinstance(e, ast.Call) and isinstance(e.func, ast.Attribute) and e.func.attr in ("bit_length", "bit_count") and not e.args:
            v = self.ev(e.func.value, depth)
            if isinstance(v, int) and not isinstance(v, bool):
                return v.bit_length() if e.func.attr == "bit_length" else bin(v).count("1")
            return UNKNOWN
        return UNKNOWN


def walk(g: CFG, ev: Evaluator, track_assign: bool = True, max_steps: int = 2000) -> Tuple[str, Optional[CNode], List[str]]:
    """Follow the CFG deterministically.  Returns (outcome, node, trace): outcome 'return' with the Return node,
    'fallthrough', 'raise', or 'unknown' with the condition node that could not be evaluated."""
    cur = g.entry
    trace: List[str] = []
    ev.visited = []  # ids of the CFG nodes passed, in order (used by rules that ask "was this statement reached?")
    for _ in range(max_steps):
        ev.visited.append(cur.id)
        succ = g.succ[cur.id]
        if cur.kind == "exit":
            return "fallthrough", None, trace
        if cur.kind == "raise":
            return "raise", None, trace
        if cur.kind == "cond":
            v = ev.ev(cur.ast)
            if v is UNKNOWN:
                return "unknown", cur, trace
            want = bool(v)
            nxt = [e for e in succ if e.label and e.label[0] == "cond" and e.label[2] == want]
            if not nxt:
                return "unknown", cur, trace
            trace.append(f"L{cur.lineno}: [{unparse(cur.ast)[:60]}] is {want}")
            cur = nxt[0].dst
            continue
        if cur.kind == "stmt" and isinstance(cur.ast, ast.Return):
            return "return", cur, trace
        if cur.kind == "stmt" and isinstance(cur.ast, ast.Raise):
            return "raise", cur, trace
        if cur.kind == "for":
            return "unknown", cur, trace
        if track_assign and cur.kind == "stmt" and isinstance(cur.ast, ast.Assign) and len(cur.ast.targets) == 1 \
                and isinstance(cur.ast.targets[0], ast.Name):
            if cur.ast.targets[0].id not in ev.pinned:
                ev.env[cur.ast.targets[0].id] = ev.ev(cur.ast.value)
        plain = [e for e in succ if not (e.label and e.label[0] == "exc")]
        if not plain:
            return "fallthrough", None, trace
        cur = plain[0].dst
    raise AnalysisError("CFG walk did not terminate")
