"""Rule-instance bookkeeping, known-findings matching, evidence and verdict output."""
from __future__ import annotations

import json
import os
import time
from dataclasses import dataclass, field
from typing import Any, Dict, List, Optional

from .index import AnalysisError, FuncInfo, Index

VERIF = os.path.dirname(os.path.dirname(os.path.abspath(__file__)))
KNOWN_FILE = os.path.join(VERIF, "known_findings.json")
EVIDENCE_DIR = os.path.join(VERIF, "evidence")


@dataclass
class Instance:
    rule: str
    key: str  # stable construct key: path::function::pattern (no line numbers)
    where: str  # file:line (diagnostic only)
    ok: bool
    detail: str
    witness: Optional[List[str]] = None
    trivial: bool = False  # instance inspected no real construct (e.g. stub override)

    def as_dict(self) -> Dict[str, Any]:
        d = {"rule": self.rule, "instance": self.key, "where": self.where, "verdict": "holds" if self.ok else "FAILS",
             "detail": self.detail}
        if self.witness:
            d["witness"] = self.witness
        return d


class Ctx:
    """Per-run context handed to each property's rule module."""

    def __init__(self, prop: str, tier: str, ix: Index, seed: int = 0):
        self.prop = prop
        self.tier = tier
        self.ix = ix
        self.seed = seed
        self.instances: List[Instance] = []
        self.notes: List[str] = []
        self.rules_text: Dict[str, str] = {}
        self.counters: Dict[str, int] = {}
        self.t0 = time.time()
        self._relabel: Dict[str, str] = {}

    # ---- a rule of one property run as part of another (the same necessary condition serves both): ids are re-labelled
    def borrowed(self, mapping: Dict[str, str]):
        ctx = self

        class _B:
            def __enter__(self_b):
                self_b.saved = dict(ctx._relabel)
                ctx._relabel.update(mapping)

            def __exit__(self_b, *a):
                ctx._relabel = self_b.saved
                return False

        return _B()

    def _rid(self, rid: str) -> str:
        return self._relabel.get(rid, rid)

    # ---- recording
    def rule(self, rid: str, text: str) -> None:
        self.rules_text[self._rid(rid)] = text + (f" [rule {rid} of another property, applied here]" if rid in self._relabel else "")

    def key(self, fn: Optional[FuncInfo], pattern: str) -> str:
        if fn is None:
            return pattern
        return f"{fn.path}::{fn.short}::{pattern}"

    def ok(self, rule: str, key: str, where: str, detail: str, trivial: bool = False) -> None:
        self.instances.append(Instance(self._rid(rule), key, where, True, detail, None, trivial))

    def fail(self, rule: str, key: str, where: str, detail: str, witness: Optional[List[str]] = None) -> None:
        self.instances.append(Instance(self._rid(rule), key, where, False, detail, witness))

    def record(self, rule: str, key: str, where: str, ok: bool, detail: str, witness=None) -> None:
        if ok:
            self.ok(rule, key, where, detail)
        else:
            self.fail(rule, key, where, detail, witness)

    def note(self, text: str) -> None:
        self.notes.append(text)

    def count(self, name: str, n: int = 1) -> None:
        self.counters[name] = self.counters.get(name, 0) + n

    def floor(self, rule: str, what: str, n: int, minimum: int) -> None:
        """Fail closed (exit 2) if a rule matched fewer sites than were confirmed by hand."""
        rule = self._rid(rule)
        self.counters[f"{rule}:{what}"] = n
        # the numbers in the rule modules are the counts confirmed by hand on the pinned tree; the armed floor leaves 30% slack so
        # that legitimately deleting a few sites (an observation class, a log switch, a scan call) is not reported as a broken
        # analysis - a vanished anchor or an unrecognised idiom drops the count to (near) zero and still trips it
        minimum = minimum if minimum <= 2 else max(2, int(minimum * 0.7))
        if n < minimum:
            raise AnalysisError(
                f"{rule}: only {n} instance(s) of '{what}' found, at least {minimum} were confirmed by hand on the "
                f"pinned tree - the anchor moved or the extractor no longer recognises the idiom"
            )

    def n_rule(self, rule: str) -> int:
        return sum(1 for i in self.instances if i.rule == rule)


def load_known() -> Dict[str, Any]:
    if not os.path.exists(KNOWN_FILE):
        return {"findings": []}
    with open(KNOWN_FILE) as fh:
        return json.load(fh)


def finish(ctx: Ctx, explanation: str, assumptions: List[str], selftest: Optional[Dict[str, Any]] = None) -> int:
    known = load_known()
    kn = {(f["property"], f["rule"], f["key"]): f for f in known.get("findings", []) if f.get("status") == "known"}
    fails = [i for i in ctx.instances if not i.ok]
    viol: List[Instance] = []
    known_hit: List[Instance] = []
    for i in fails:
        if (ctx.prop, i.rule, i.key) in kn:
            known_hit.append(i)
        else:
            viol.append(i)
    os.makedirs(os.path.join(EVIDENCE_DIR, "replay"), exist_ok=True)
    for i in known_hit:
        print(f"KNOWN-FINDING: property={ctx.prop} {i.rule} {i.key} -- {kn[(ctx.prop, i.rule, i.key)].get('what', i.detail)}")
    hit_keys = {(i.rule, i.key) for i in known_hit}
    for (p, r, k), f in kn.items():
        if p == ctx.prop and (r, k) not in hit_keys:
            print(f"NOTE: listed known finding no longer fires: {r} {k}")
    if selftest and selftest.get("failures"):
        for m in selftest["failures"]:
            print(f"SELFTEST-FAILURE: {m}")
    n = 0
    for i in viol:
        n += 1
        rp = os.path.join(EVIDENCE_DIR, "replay", f"{ctx.prop}-{n}.json")
        with open(rp, "w") as fh:
            json.dump({"property": ctx.prop, **i.as_dict(), "rule_text": ctx.rules_text.get(i.rule, "")}, fh, indent=1)
        print(f"  {i.where}: {i.rule} [{i.key}] {i.detail}")
        if i.witness:
            for w in i.witness:
                print(f"      path: {w}")
        print(f"VIOLATION property={ctx.prop} replay={rp}")
    # evidence
    nontrivial = {(i.rule, i.key) for i in ctx.instances if not i.trivial}
    samples = [i.as_dict() for i in (fails[:6] + [i for i in ctx.instances if i.ok and not i.trivial][:10])]
    per_rule: Dict[str, Dict[str, int]] = {}
    for i in ctx.instances:
        d = per_rule.setdefault(i.rule, {"instances": 0, "hold": 0, "fail": 0})
        d["instances"] += 1
        d["hold" if i.ok else "fail"] += 1
    cov: Dict[str, Any] = {
        "explanation": explanation,
        "evaluations": len(ctx.instances),
        "distinct_nontrivial": len(nontrivial),
        "rule": "one evaluation = one rule instance (rule id x construct found in /repo's current source); distinct = "
                "distinct (rule, construct-key); non-trivial = the instance inspected at least one real construct "
                "(stub/abstract overrides that are vacuously compliant are counted as trivial)",
        "samples": samples,
        "obligations": len(ctx.instances),
        "discharged": len(ctx.instances) - len(fails),
        "known_findings_printed": len(known_hit),
        "per_rule": per_rule,
        "rules": ctx.rules_text,
        "counters": ctx.counters,
        "modules_parsed": len(ctx.ix.modules),
        "classes_indexed": len(ctx.ix.classes),
        "functions_indexed": len(ctx.ix.functions),
        "notes": ctx.notes[:60],
        "checker_cmd": f"./check {ctx.prop} --tier {ctx.tier}",
        "trusted_base": ["CPython 3.12 ast", "sa/ engines (index, cfg) in /verif", "frozen tables in the rule modules"],
        "exhaustive": False,
    }
    if selftest is not None:
        cov["selftest"] = selftest
    ev = {
        "property_id": ctx.prop,
        "tier": ctx.tier,
        "seed": ctx.seed,
        "level": "other",
        "coverage": cov,
        "assumptions": assumptions,
        "wall_s": round(time.time() - ctx.t0, 3),
        "violations": len(viol),
    }
    with open(os.path.join(EVIDENCE_DIR, f"{ctx.prop}.json"), "w") as fh:
        json.dump(ev, fh, indent=1, default=str)
    st_fail = bool(selftest and selftest.get("failures"))
    print(
        f"{ctx.prop} [{ctx.tier}]: {len(ctx.instances)} rule instances over {len(per_rule)} rules, "
        f"{len(fails)} failing ({len(known_hit)} known, {len(viol)} new); "
        + (f"selftest {selftest.get('killed', 0)}(+{selftest.get('fail_closed', 0)} fail-closed)/{selftest.get('breaking', 0)} breaking variants detected, "
           f"{selftest.get('silent', 0)}/{selftest.get('benign', 0)} benign twins silent; "
           + (f"verdict invariant under {selftest['invariance']['passed']}/{selftest['invariance']['total']} whole-repository rewrites; "
              if selftest.get("invariance") else "") if selftest else "")
        + f"{ev['wall_s']}s"
    )
    if viol:
        return 1
    # a self-test deviation is a weakness of the checker, not a violation of the property on this tree: it is printed
    # (SELFTEST-FAILURE lines above) and recorded in the evidence, and does not change the verdict
    return 0
