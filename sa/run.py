"""Entry point: /venv/bin/python -m sa.run <ID> [--tier quick|thorough] [--replay path]."""
from __future__ import annotations

import argparse
import importlib
import json
import os
import sys
import time
import traceback

from .index import AnalysisError, Index
from .report import EVIDENCE_DIR, Ctx, finish


def main(argv=None) -> int:
    ap = argparse.ArgumentParser()
    ap.add_argument("prop")
    ap.add_argument("--tier", default=os.environ.get("VERIF_TIER", "quick"), choices=["quick", "thorough"])
    ap.add_argument("--replay", default=None)
    ap.add_argument("--repo", default=os.environ.get("PRIMAITE_REPO", "/repo"))
    args = ap.parse_args(argv)
    prop = args.prop.upper()
    seed = int(os.environ.get("VERIF_SEED", "0") or 0)
    t0 = time.time()
    try:
        mod = importlib.import_module(f"sa.rules.{prop.lower()}")
    except ModuleNotFoundError:
        print(f"ANALYSIS-ERROR: no rule module for {prop}")
        return 2
    try:
        ix = Index(args.repo)
        ctx = Ctx(prop, args.tier, ix, seed)
        mod.check(ctx)
        selftest = None
        if args.tier == "thorough":
            from . import selftest as st

            selftest = st.run_for(prop, args.repo)
            from . import invariance

            inv = invariance.run_for(prop, args.repo)
            selftest["invariance"] = inv
            selftest.setdefault("failures", []).extend(inv["failures"])
        if args.replay:
            with open(args.replay) as fh:
                rp = json.load(fh)
            hit = [i for i in ctx.instances if i.rule == rp.get("rule") and i.key == rp.get("instance")]
            for i in hit:
                print(json.dumps(i.as_dict(), indent=1))
            if not hit:
                print("replay: the instance no longer exists on the current tree")
        return finish(ctx, mod.EXPLANATION, getattr(mod, "ASSUMPTIONS", []), selftest)
    except AnalysisError as e:
        print(f"ANALYSIS-ERROR: {prop}: {e}")
        _broken_evidence(prop, args.tier, seed, str(e), t0)
        return 2
    except Exception:
        traceback.print_exc()
        print(f"ANALYSIS-ERROR: {prop}: internal error in the analyser (see traceback above)")
        _broken_evidence(prop, args.tier, seed, "internal error", t0)
        return 2


def _broken_evidence(prop: str, tier: str, seed: int, msg: str, t0: float) -> None:
    os.makedirs(EVIDENCE_DIR, exist_ok=True)
    ev = {
        "property_id": prop, "tier": tier, "seed": seed, "level": "other",
        "coverage": {"explanation": f"ANALYSIS-ERROR, nothing decided on this run: {msg}", "evaluations": 0,
                     "distinct_nontrivial": 0, "samples": []},
        "wall_s": round(time.time() - t0, 3), "violations": 0,
    }
    with open(os.path.join(EVIDENCE_DIR, f"{prop}.json"), "w") as fh:
        json.dump(ev, fh, indent=1)


if __name__ == "__main__":
    sys.exit(main())
