"""setup_cmd: build the index once and confirm the analyser runs offline with the stdlib only."""
import sys
import time

from .cfg import CFG
from .index import Index


def main() -> int:
    t0 = time.time()
    ix = Index()
    n = 0
    for f in ix.functions:
        CFG(f.node)
        n += 1
    print(f"sa smoke test: {len(ix.modules)} modules, {len(ix.classes)} classes, {n} function CFGs in {time.time() - t0:.2f}s")
    return 0 if len(ix.modules) > 100 else 2


if __name__ == "__main__":
    sys.exit(main())
