"""E5 - static reconstruction of the request tree and evaluation of action `form_request` bodies to path templates.

The tree is keyed by *manager slots*: (class, 'root') is the manager returned by that class's
`_init_request_manager` chain; (class, '<attr>') is a `RequestManager()` stored in an attribute of the instance.
Every `X.add_request(key, RequestType(func=..., validator=...))` call site in the repository becomes one entry of one
slot: literal keys for constant names, *typed wildcards* for names computed at run time (hostname, software name, NIC
number, folder name, file name).
"""
from __future__ import annotations

import ast
from dataclasses import dataclass, field
from typing import Dict, List, Optional, Sequence, Set, Tuple, Union

from .astutil import attr_chain, call_name, kwarg, unparse
from .cfg import LocalDefs
from .index import AnalysisError, ClassInfo, FuncInfo, Index
from .inventory import CallSite, call_sites
from .types import func_types


@dataclass
class ValidatorRef:
    cls: Optional[ClassInfo]
    text: str

    @property
    def name(self) -> str:
        return self.cls.short if self.cls else f"?{self.text}"


@dataclass
class Entry:
    owner: ClassInfo
    slot: str
    key: Optional[Union[str, int]]  # literal key or None for wildcard
    wild_text: Optional[str]
    wild_kind: Optional[str]
    target_kind: str  # handler | slot | root
    target: object  # handler: (FuncInfo|None enclosing, ast node) ; slot: (ClassInfo, name) ; root: ClassInfo
    validators: List[ValidatorRef]
    site: CallSite
    static: bool  # registered inside _init_request_manager

    @property
    def where(self) -> str:
        return self.site.where

    def key_text(self) -> str:
        return repr(self.key) if self.key is not None else f"<{self.wild_kind}:{self.wild_text}>"


@dataclass
class Removal:
    owner: ClassInfo
    slot: str
    key_text: str
    site: CallSite


# Element type of the components registered in a dynamic slot, used to narrow `software._request_manager` when the
# registering code only knows the common base (IOSoftware).  One line of reason each.
SLOT_ELEMENT = {
    "_application_request_manager": "Application",  # SoftwareManager.install: branch `isinstance(software, Application)`
    "_service_request_manager": "Service",  # SoftwareManager.install: branch `isinstance(software, Service)`
}

WILD_KINDS = [
    # (predicate on key expression text, kind)
    ("hostname", "hostname"),
    ("nic_num", "nic"),
    ("network_interface_num", "nic"),
    ("application_name", "software"),
    ("software.name", "software"),
    ("software_name", "software"),
    ("folder.name", "folder"),
    ("file.name", "file"),
]


def wild_kind_of(text: str) -> str:
    for frag, kind in WILD_KINDS:
        if frag in text:
            return kind
    return "other"


def software_name(ix: Index, ci: ClassInfo) -> Optional[str]:
    """The `name` a Service/Application class registers itself under (constant set in its __init__)."""
    for c in ix.mro(ci):
        init = c.methods.get("__init__")
        if init is None:
            continue
        found_self = found_kw = None
        for n in ast.walk(init.node):
            if isinstance(n, ast.Assign) and len(n.targets) == 1 and isinstance(n.value, ast.Constant):
                t = n.targets[0]
                if isinstance(t, ast.Attribute) and t.attr == "name" and isinstance(t.value, ast.Name) and t.value.id == "self":
                    found_self = n.value.value
                elif (isinstance(t, ast.Subscript) and isinstance(t.value, ast.Name) and t.value.id == "kwargs"
                      and isinstance(t.slice, ast.Constant) and t.slice.value == "name"):
                    found_kw = n.value.value
        if found_self is not None:
            return found_self
        if found_kw is not None:
            return found_kw
    return None


class RequestTree:
    def __init__(self, ix: Index):
        self.ix = ix
        self.slots: Dict[Tuple[str, str], List[Entry]] = {}
        self.removals: List[Removal] = []
        self.problems: List[str] = []
        self.opaque: List[str] = []
        self.n_sites = 0
        self._slot_attr_names: Set[str] = set()
        self._build()

    # ---------------------------------------------------------------- helpers
    @staticmethod
    def _top(fn: FuncInfo) -> FuncInfo:
        while fn.parent is not None:
            fn = fn.parent
        return fn

    def _owner(self, fn: FuncInfo) -> Optional[ClassInfo]:
        return self._top(fn).cls

    def _isinstance_narrow(self, fn: FuncInfo, call: ast.Call, name: str) -> Optional[ClassInfo]:
        """If `call` sits in the body of `if isinstance(<name>, T):` return T."""
        best: Optional[ClassInfo] = None
        for n in ast.walk(fn.node):
            if isinstance(n, ast.If):
                t = n.test
                if (isinstance(t, ast.Call) and isinstance(t.func, ast.Name) and t.func.id == "isinstance"
                        and len(t.args) == 2 and isinstance(t.args[0], ast.Name) and t.args[0].id == name):
                    inside = any(call is x for b in n.body for x in ast.walk(b))
                    if inside:
                        c = self.ix._resolve_expr_to_class(t.args[1], fn.module, self._owner(fn))
                        if c is not None:
                            best = c
        return best

    def _type_of(self, fn: FuncInfo, e: ast.AST, call: ast.Call) -> Optional[ClassInfo]:
        c, sh = func_types(self.ix, fn).expr_type(e)
        if c is not None and sh == "scalar":
            return c
        if isinstance(e, ast.Name):
            n = self._isinstance_narrow(fn, call, e.id)
            if n is not None:
                return n
            # closure variable of the enclosing function
            if fn.parent is not None:
                return self._type_of(fn.parent, e, call)
        return None

    def _slot_of_receiver(self, fn: FuncInfo, recv: ast.AST, call: ast.Call) -> Optional[Tuple[ClassInfo, str]]:
        owner = self._owner(fn)
        if isinstance(recv, ast.Name):
            ld = LocalDefs(fn.node)
            s = ld.single(recv.id)
            if s and s[0] is not None and isinstance(s[0], ast.Call):
                txt = unparse(s[0])
                if txt == "super()._init_request_manager()" and owner is not None:
                    return owner, "root"
                if txt.endswith("RequestManager()") and owner is not None and fn.name == "_init_request_manager":
                    # a fresh local manager that the function returns is the root
                    return owner, "root"
            return None
        if isinstance(recv, ast.Attribute):
            base_c: Optional[ClassInfo]
            if isinstance(recv.value, ast.Name) and recv.value.id == "self":
                base_c = owner
            else:
                base_c = self._type_of(fn, recv.value, call)
            if base_c is None:
                return None
            return base_c, ("root" if recv.attr == "_request_manager" else recv.attr)
        return None

    def _resolve_validator(self, fn: FuncInfo, e: Optional[ast.AST], depth: int = 0) -> List[ValidatorRef]:
        if e is None:
            return []
        if isinstance(e, ast.BinOp) and isinstance(e.op, ast.Add):
            return self._resolve_validator(fn, e.left, depth) + self._resolve_validator(fn, e.right, depth)
        if isinstance(e, ast.Call):
            c, sh = func_types(self.ix, fn).expr_type(e.func)
            if c is not None and sh == "class":
                return [ValidatorRef(c, unparse(e))]
            return [ValidatorRef(None, unparse(e))]
        if depth > 3:
            return [ValidatorRef(None, unparse(e))]
        if isinstance(e, ast.Name):
            f: Optional[FuncInfo] = fn
            while f is not None:
                s = LocalDefs(f.node).single(e.id)
                if s and s[0] is not None:
                    return self._resolve_validator(f, s[0], depth + 1)
                f = f.parent
            return [ValidatorRef(None, unparse(e))]
        if isinstance(e, ast.Attribute) and isinstance(e.value, ast.Name) and e.value.id == "self":
            top = self._top(fn)
            owner = top.cls
            cands: List[Tuple[FuncInfo, ast.AST]] = []
            if owner is not None:
                for c in self.ix.mro(owner):
                    for m in c.methods.values():
                        for n in ast.walk(m.node):
                            if isinstance(n, ast.Assign):
                                for t in n.targets:
                                    if (isinstance(t, ast.Attribute) and t.attr == e.attr
                                            and isinstance(t.value, ast.Name) and t.value.id == "self"):
                                        cands.append((m, n.value))
            if len(cands) == 1:
                return self._resolve_validator(cands[0][0], cands[0][1], depth + 1)
            return [ValidatorRef(None, unparse(e))]
        return [ValidatorRef(None, unparse(e))]

    # ---------------------------------------------------------------- build
    def _build(self) -> None:
        ix = self.ix
        sites = [s for s in call_sites(ix, ["add_request", "remove_request"]) if s.fn is not None]
        # discover slot attribute names first (receivers of add_request)
        for s in sites:
            f = s.call.func
            if isinstance(f, ast.Attribute) and isinstance(f.value, ast.Attribute):
                self._slot_attr_names.add(f.value.attr)
        for fn0 in ix.functions:
            for n in ast.walk(fn0.node):
                if (isinstance(n, ast.Assign) and isinstance(n.value, ast.Call)
                        and unparse(n.value.func).split(".")[-1] == "RequestManager"):
                    for t in n.targets:
                        if isinstance(t, ast.Attribute) and isinstance(t.value, ast.Name) and t.value.id == "self":
                            self._slot_attr_names.add(t.attr)
        for s in sites:
            fn = s.fn
            if fn.cls is not None and fn.cls.short == "RequestManager":
                continue
            f = s.call.func
            if not isinstance(f, ast.Attribute):
                continue
            self.n_sites += 1
            slot = self._slot_of_receiver(fn, f.value, s.call)
            if slot is None:
                self.problems.append(f"{s.where}: cannot resolve the manager that receives {unparse(s.call)[:80]}")
                continue
            owner, slot_name = slot
            key_e = kwarg(s.call, "name", 0)
            if key_e is None:
                self.problems.append(f"{s.where}: add/remove_request without a name argument")
                continue
            if call_name(s.call) == "remove_request":
                self.removals.append(Removal(owner, slot_name, unparse(key_e), s))
                continue
            rt = kwarg(s.call, "request_type", 1)
            if not (isinstance(rt, ast.Call) and call_name(rt) == "RequestType"):
                self.problems.append(f"{s.where}: request_type is not a RequestType(...) literal call")
                continue
            func_e = kwarg(rt, "func", 0)
            val_e = kwarg(rt, "validator", 1)
            if func_e is None:
                self.problems.append(f"{s.where}: RequestType without func")
                continue
            key: Optional[Union[str, int]] = None
            wtxt = wkind = None
            if isinstance(key_e, ast.Constant) and isinstance(key_e.value, (str, int)):
                key = key_e.value
            else:
                wtxt = unparse(key_e)
                # classify through the local definition too (new_nic_num = len(...))
                wkind = wild_kind_of(wtxt)
                if wkind == "other" and isinstance(key_e, ast.Attribute) and key_e.attr == "name":
                    # by the static type of the object whose .name is the key (independent of what the local is called)
                    if slot_name in SLOT_ELEMENT:
                        wkind = "software"  # the slot holds Services / Applications (SLOT_ELEMENT), keyed by their registered name
                    kc, ksh = func_types(self.ix, fn).expr_type(key_e.value)
                    if kc is not None and ksh == "scalar":
                        for base, kind in (("Software", "software"), ("Folder", "folder"), ("File", "file")):
                            b = self.ix.cls_opt(base)
                            if b is not None and self.ix.is_subclass(kc, b):
                                wkind = kind
                                break
                if wkind == "other":
                    d = LocalDefs(fn.node).single(wtxt) if isinstance(key_e, ast.Name) else None
                    if d and d[0] is not None:
                        wkind = wild_kind_of(unparse(d[0]))
                    if wkind == "other" and "request[0]" in (unparse(d[0]) if d and d[0] is not None else ""):
                        wkind = wild_kind_of(wtxt + " application_name")
            tk, tgt = self._resolve_func(fn, func_e, s.call)
            if tk is None:
                if isinstance(func_e, ast.Attribute) and func_e.attr == "_request_manager" and slot_name not in SLOT_ELEMENT:
                    tk, tgt = "opaque", unparse(func_e)
                    self.opaque.append(f"{s.where}: {unparse(func_e)} (component type not statically known)")
                elif not (isinstance(func_e, ast.Attribute) and func_e.attr == "_request_manager"):
                    self.problems.append(f"{s.where}: cannot resolve func={unparse(func_e)[:60]}")
                    continue
            if slot_name in SLOT_ELEMENT and (isinstance(func_e, ast.Attribute) and func_e.attr == "_request_manager"):
                elem = ix.cls(SLOT_ELEMENT[slot_name])
                if tk is None or tk == "opaque" or (tk == "root" and not ix.is_subclass(tgt, elem)):
                    tk, tgt = "root", elem
            ent = Entry(owner, slot_name, key, wtxt, wkind, tk, tgt, self._resolve_validator(fn, val_e), s,
                        self._top(fn).name == "_init_request_manager" and fn.parent is None)
            self.slots.setdefault((owner.qualname, slot_name), []).append(ent)

    def _resolve_func(self, fn: FuncInfo, e: ast.AST, call: ast.Call):
        ix = self.ix
        if isinstance(e, ast.Lambda):
            return "handler", (fn, e)
        if isinstance(e, ast.Name):
            f: Optional[FuncInfo] = fn
            while f is not None:
                for nf in ix.nested_funcs(f):
                    if nf.name == e.id:
                        return "handler", (nf, nf.node)
                f = f.parent
            return None, None
        if isinstance(e, ast.Attribute):
            if e.attr == "_request_manager":
                if isinstance(e.value, ast.Name) and e.value.id == "self":
                    c = self._owner(fn)
                else:
                    c = self._type_of(fn, e.value, call)
                if c is None:
                    return None, None
                return "root", c
            if isinstance(e.value, ast.Name) and e.value.id == "self":
                owner = self._owner(fn)
                if owner is not None and e.attr in self._slot_attr_names:
                    return "slot", (owner, e.attr)
                # method reference used as handler
                if owner is not None:
                    m = ix.find_method(owner, e.attr)
                    if m is not None:
                        return "handler", (m, m.node)
            return None, None
        return None, None

    # ---------------------------------------------------------------- queries
    def entries(self, cls: ClassInfo, slot: str) -> List[Entry]:
        out: List[Entry] = []
        for c in self.ix.mro(cls):
            out.extend(self.slots.get((c.qualname, slot), []))
        return out

    def concrete_classes(self, cls: ClassInfo) -> List[ClassInfo]:
        return self.ix.subclasses(cls, include_self=True)

    def handler_min_params(self, handler) -> int:
        """1 + highest constant request[i] the handler reads (0 if none); tuple-unpack of request counts its arity."""
        fnode = handler[1]
        args = fnode.args.args
        names = [a.arg for a in args]
        if not names:
            return 0
        # first non-self parameter is the request
        req = names[1] if names and names[0] in ("self", "cls") and len(names) > 1 else names[0]
        need = 0
        body = fnode.body if isinstance(fnode.body, list) else [fnode.body]
        for b in body:
            for n in ast.walk(b):
                if isinstance(n, ast.Subscript) and isinstance(n.value, ast.Name) and n.value.id == req:
                    sl = n.slice
                    if isinstance(sl, ast.Constant) and isinstance(sl.value, int):
                        need = max(need, sl.value + 1 if sl.value >= 0 else 1)
                    elif isinstance(sl, ast.UnaryOp) and isinstance(sl.op, ast.USub):
                        need = max(need, 1)
                elif isinstance(n, ast.Assign) and isinstance(n.value, ast.Name) and n.value.id == req:
                    for t in n.targets:
                        if isinstance(t, (ast.Tuple, ast.List)):
                            need = max(need, len(t.elts))
        return need


# -------------------------------------------------------------------- action routes
@dataclass
class Seg:
    kind: str  # lit | wild | param
    value: object = None  # literal value
    src: str = ""  # source text
    field: Optional[str] = None  # config field name for wild segments


@dataclass
class ActionRoute:
    cls: ClassInfo  # action class
    discriminator: str
    form: FuncInfo  # the form_request that applies (MRO-resolved)
    segs: List[Seg]
    config_cls: Optional[ClassInfo]
    where: str


def _config_schema(ix: Index, ci: ClassInfo) -> Optional[ClassInfo]:
    for c in ix.mro(ci):
        if "ConfigSchema" in c.nested:
            return c.nested["ConfigSchema"]
    return None


def _field_default(ix: Index, cfg: Optional[ClassInfo], name: str):
    """(found, is_classvar, default AST) of a ConfigSchema field along the MRO."""
    if cfg is None:
        return False, False, None
    r = ix.find_field(cfg, name)
    if r is None:
        return False, False, None
    _, f = r
    return True, f.classvar, f.default


def action_routes(ix: Index) -> Tuple[List[ActionRoute], List[str]]:
    """Evaluate every registered action's form_request to path templates (one per non-'do-nothing' return)."""
    base = ix.cls("AbstractAction")
    routes: List[ActionRoute] = []
    problems: List[str] = []
    for ci in ix.subclasses(base):
        disc = ci.discriminator
        if disc is None:
            continue
        form = ix.find_method(ci, "form_request")
        if form is None or form.cls is base:
            problems.append(f"{ci.path}:{ci.node.lineno}: action {disc} has no form_request")
            continue
        cfg = _config_schema(ix, ci)
        params = [a.arg for a in form.node.args.args if a.arg not in ("self", "cls")]
        cfg_name = params[0] if params else "config"
        ld = LocalDefs(form.node)
        rets = [n for n in ast.walk(form.node) if isinstance(n, ast.Return) and n.value is not None]
        got = False
        for r in rets:
            v = ld.expand(r.value)
            if not isinstance(v, (ast.List, ast.Tuple)):
                problems.append(f"{form.loc(r)}: form_request of {disc} returns a non-literal list: {unparse(r.value)[:60]}")
                continue
            segs: List[Seg] = []
            for e in v.elts:
                e2 = e
                if isinstance(e2, ast.Constant) and isinstance(e2.value, (str, int)) and not isinstance(e2.value, bool):
                    segs.append(Seg("lit", e2.value, unparse(e)))
                    continue
                if (isinstance(e2, ast.Attribute) and isinstance(e2.value, ast.Name) and e2.value.id == cfg_name):
                    found, is_cv, dflt = _field_default(ix, cfg, e2.attr)
                    if found and isinstance(dflt, ast.Constant) and isinstance(dflt.value, str) and (
                            is_cv or e2.attr == "verb"):
                        segs.append(Seg("lit", dflt.value, unparse(e), e2.attr))
                    elif not found:
                        problems.append(f"{form.loc(r)}: {disc}: config field '{e2.attr}' is not declared in {cfg.short if cfg else '?'}")
                        segs.append(Seg("wild", None, unparse(e), e2.attr))
                    else:
                        segs.append(Seg("wild", None, unparse(e), e2.attr))
                    continue
                segs.append(Seg("param", None, unparse(e)))
            if len(segs) == 1 and segs[0].kind == "lit" and segs[0].value == "do-nothing" and disc != "do-nothing":
                continue  # the "missing option -> do nothing" early exit
            routes.append(ActionRoute(ci, disc, form, segs, cfg, form.loc(r)))
            got = True
        if not got:
            problems.append(f"{form.loc()}: form_request of {disc} has no analysable return")
    routes.sort(key=lambda r: r.discriminator)
    return routes, problems


FIELD_KINDS = {
    "node_name": "hostname", "source_node": "hostname", "target_router": "hostname",
    "target_firewall_nodename": "hostname", "target_nodename": "hostname",
    "service_name": "software", "application_name": "software",
    "folder_name": "folder", "file_name": "file", "nic_num": "nic", "port_num": "nic",
}


@dataclass
class Resolution:
    ok: bool
    trail: List[str]
    entries: List[Entry] = field(default_factory=list)
    handler: object = None
    n_params: int = 0
    need_params: int = 0
    reason: str = ""
    classes: List[str] = field(default_factory=list)  # concrete classes chosen at polymorphic hops

    def validators(self) -> List[List[str]]:
        return [[v.name for v in e.validators] for e in self.entries]


class Router:
    """Walks a path template through the static tree."""

    def __init__(self, ix: Index, tree: RequestTree):
        self.ix = ix
        self.tree = tree
        self._sw_names: Dict[str, Optional[str]] = {}

    def sw_name(self, c: ClassInfo) -> Optional[str]:
        if c.qualname not in self._sw_names:
            self._sw_names[c.qualname] = software_name(self.ix, c)
        return self._sw_names[c.qualname]

    def resolve(self, segs: Sequence[Seg], start: Tuple[ClassInfo, str]) -> List[Resolution]:
        out: List[Resolution] = []
        self._walk(start[0], start[1], list(segs), 0, [], [], [], out)
        return out

    def _walk(self, cls: ClassInfo, slot: str, segs: List[Seg], i: int, trail, ents, classes, out) -> None:
        here = f"{cls.short}.{slot}"
        if i >= len(segs):
            out.append(Resolution(False, trail + [here], list(ents), reason="path ends at a manager, not at a handler",
                                  classes=list(classes)))
            return
        seg = segs[i]
        entries = self.tree.entries(cls, slot)
        if not entries:
            out.append(Resolution(False, trail + [here], list(ents), reason=f"manager {here} has no registered requests",
                                  classes=list(classes)))
            return
        if seg.kind == "param":
            out.append(Resolution(False, trail + [here], list(ents),
                                  reason=f"segment {i} ({seg.src}) is a parameter but {here} expects a request name",
                                  classes=list(classes)))
            return
        matched = False
        free = seg.kind == "wild" and FIELD_KINDS.get(seg.field or "", "free") == "free"
        real_out = out
        if free:
            out = []  # existential over the registered names a free string may take
        seen_targets: Set[Tuple] = set()
        for e in entries:
            sub_filter: Optional[str] = None
            if seg.kind == "lit":
                if e.key is not None:
                    if e.key != seg.value:
                        continue
                else:
                    # a literal name under a dynamically registered key: only software names are resolvable
                    if e.wild_kind != "software":
                        continue
                    sub_filter = str(seg.value)
            else:  # wild
                kind = FIELD_KINDS.get(seg.field or "", "free")
                if e.key is not None:
                    if kind != "free":
                        continue  # a component name cannot address a fixed verb
                else:
                    if kind != "free" and e.wild_kind != kind:
                        continue
            tid = (e.target_kind, id(e.target) if e.target_kind != "slot" else (id(e.target[0]), e.target[1]), e.key,
                   tuple(v.name for v in e.validators))
            if e.key is None and tid in seen_targets:
                continue  # the same component kind registered from two sites (install / request-time install)
            seen_targets.add(tid)
            matched = True
            self._follow(e, segs, i, trail + [f"{here}[{e.key_text()}]"], ents + [e], classes, out, sub_filter)
        if free:
            good = [r for r in out if r.ok]
            real_out.extend(good if good else out)
            out = real_out
        if not matched:
            avail = sorted({e.key_text() for e in entries})
            out.append(Resolution(False, trail + [here], list(ents),
                                  reason=f"segment {i} ({seg.src}) matches no request of {here}; registered: {avail[:14]}",
                                  classes=list(classes)))

    def _follow(self, e: Entry, segs, i, trail, ents, classes, out, sub_filter) -> None:
        if e.target_kind == "handler":
            n = len(segs) - (i + 1)
            need = self.tree.handler_min_params(e.target)
            ok = n >= need
            out.append(Resolution(ok, trail, list(ents), e.target, n, need,
                                  "" if ok else f"handler reads request[{need - 1}] but the action supplies {n} parameter(s)",
                                  list(classes)))
            return
        if e.target_kind == "slot":
            c, s = e.target
            self._walk(c, s, segs, i + 1, trail, ents, classes, out)
            return
        if e.target_kind == "opaque":
            out.append(Resolution(False, trail, list(ents), reason=f"component {e.target} has no statically known type",
                                  classes=list(classes)))
            return
        # root of a (polymorphic) class
        base: ClassInfo = e.target
        cands = self.tree.concrete_classes(base)
        with_disc = [c for c in cands if c.discriminator]
        if with_disc:
            cands = with_disc  # registered (instantiable) plugin classes; abstract bases carry no discriminator
        if sub_filter is not None:
            cands = [c for c in cands if self.sw_name(c) == sub_filter]
            if not cands:
                out.append(Resolution(False, trail, list(ents),
                                      reason=f"no {base.short} subclass registers itself under the name {sub_filter!r}",
                                      classes=list(classes)))
                return
        # group subclasses that share the same effective entries to keep the result small
        seen_sig: Set[Tuple] = set()
        for c in cands:
            sig = tuple(id(x) for x in self.tree.entries(c, "root"))
            if sig in seen_sig and sub_filter is None:
                continue
            seen_sig.add(sig)
            self._walk(c, "root", segs, i + 1, trail, ents, classes + [c.short], out)
