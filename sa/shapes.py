"""E9 - return-shape analysis: does every path of a function return, and what kind of value?

Kinds: 'bool', 'none', 'response' (a RequestResponse), 'nonbool' (definitely neither bool nor None: str/num/list/...),
'unknown'.  The analysis is closed over resolved callees (class-hierarchy analysis) to a stated depth; an unresolved
callee yields 'unknown', which is reported as such and never as a failure.
"""
from __future__ import annotations

import ast
from typing import Dict, List, Optional, Set, Tuple

from .astutil import call_name, unparse, walk_shallow
from .cfg import CFG, LocalDefs
from .index import FuncInfo, Index
from .purity import resolve_callees
from .types import func_types

BOOL_BUILTINS = {"bool", "isinstance", "issubclass", "all", "any", "hasattr", "callable"}


class ShapeAnalyser:
    def __init__(self, ix: Index, depth: int = 4):
        self.ix = ix
        self.depth = depth
        self._memo: Dict[Tuple[int, int], Set[str]] = {}
        self.evidence: Dict[int, List[str]] = {}
        self.calls: Dict[int, List[FuncInfo]] = {}

    # ---- function level
    def func_kinds(self, fn: FuncInfo, depth: Optional[int] = None, _stack: Optional[Set[int]] = None) -> Set[str]:
        """Set of kinds the function may return; problems are recorded in self.evidence[id(fn)]."""
        depth = self.depth if depth is None else depth
        key = (id(fn), depth)
        if key in self._memo:
            return self._memo[key]
        _stack = _stack or set()
        if id(fn) in _stack:
            return {"unknown"}
        _stack = _stack | {id(fn)}
        kinds: Set[str] = set()
        why: List[str] = []
        node = fn.node
        if isinstance(node, ast.Lambda):
            kinds |= self.expr_kinds(fn, node.body, depth, _stack)
            self._memo[key] = kinds
            return kinds
        if fn.is_abstract and self._is_stub(node):
            self._memo[key] = {"unknown"}
            return {"unknown"}
        g = CFG(node)
        if g.falls_through:
            kinds.add("none")
            why.append(f"{fn.path}:{node.lineno} {fn.short}: a path falls off the end of the function (returns None)")
        for n in g.nodes:
            if n.kind == "stmt" and isinstance(n.ast, ast.Return) and n.id in g.reachable():
                if n.ast.value is None:
                    kinds.add("none")
                    why.append(f"{fn.path}:{n.ast.lineno} {fn.short}: bare `return`")
                else:
                    ks = self.expr_kinds(fn, n.ast.value, depth, _stack)
                    kinds |= ks
                    if "none" in ks:
                        why.append(f"{fn.path}:{n.ast.lineno} {fn.short}: `{unparse(n.ast)[:70]}` may be None")
                    if "nonbool" in ks:
                        why.append(f"{fn.path}:{n.ast.lineno} {fn.short}: `{unparse(n.ast)[:70]}` is not a bool")
        self.evidence[id(fn)] = why
        self._memo[key] = kinds
        return kinds

    @staticmethod
    def _is_stub(node: ast.AST) -> bool:
        body = [s for s in node.body if not (isinstance(s, ast.Expr) and isinstance(s.value, ast.Constant))]
        return all(isinstance(s, (ast.Pass, ast.Raise)) or (isinstance(s, ast.Return)) for s in body) and len(body) <= 2

    # ---- expression level
    def expr_kinds(self, fn: FuncInfo, e: ast.AST, depth: int, _stack: Set[int]) -> Set[str]:
        ix = self.ix
        if isinstance(e, ast.Constant):
            if isinstance(e.value, bool):
                return {"bool"}
            if e.value is None:
                return {"none"}
            return {"nonbool"}
        if isinstance(e, (ast.Compare,)):
            return {"bool"}
        if isinstance(e, ast.UnaryOp) and isinstance(e.op, ast.Not):
            return {"bool"}
        if isinstance(e, ast.BoolOp):
            out: Set[str] = set()
            for v in e.values:
                out |= self.expr_kinds(fn, v, depth, _stack)
            return out
        if isinstance(e, ast.IfExp):
            return self.expr_kinds(fn, e.body, depth, _stack) | self.expr_kinds(fn, e.orelse, depth, _stack)
        if isinstance(e, (ast.List, ast.Dict, ast.Set, ast.Tuple, ast.JoinedStr, ast.ListComp, ast.DictComp, ast.SetComp,
                          ast.BinOp)):
            return {"nonbool"}
        if isinstance(e, ast.NamedExpr):
            return self.expr_kinds(fn, e.value, depth, _stack)
        if isinstance(e, ast.Name):
            ld = LocalDefs(fn.node) if not isinstance(fn.node, ast.Lambda) else None
            if ld is not None and e.id in ld.defs and e.id not in ld.params:
                out = set()
                for v, idx in ld.all_values(e.id):
                    if v is None or idx is not None:
                        out.add("unknown")
                    else:
                        out |= self.expr_kinds(fn, v, depth, _stack)
                return out or {"unknown"}
            ann = None
            f: Optional[FuncInfo] = fn
            while f is not None and ann is None:
                args = f.node.args
                for a in list(args.posonlyargs) + list(args.args) + list(args.kwonlyargs):
                    if a.arg == e.id:
                        ann = a.annotation
                f = f.parent
            if ann is not None and unparse(ann) in ("bool", "StrictBool"):
                return {"bool"}
            return {"unknown"}
        if isinstance(e, ast.Attribute):
            c, sh = func_types(ix, fn).expr_type(e.value)
            if c is not None and sh == "scalar":
                r = ix.find_field(c, e.attr)
                if r is not None and r[1].ann is not None and unparse(r[1].ann) in ("bool", "StrictBool"):
                    return {"bool"}
                m = ix.find_method(c, e.attr)
                if m is not None and m.is_property and getattr(m.node, "returns", None) is not None and unparse(m.node.returns) == "bool":
                    return {"bool"}
            return {"unknown"}
        if isinstance(e, ast.Call):
            nm = call_name(e)
            if isinstance(e.func, ast.Name) and nm in BOOL_BUILTINS:
                return {"bool"}
            if nm in ("RequestResponse",) or (isinstance(e.func, ast.Attribute) and e.func.attr == "from_bool"
                                              and unparse(e.func.value).endswith("RequestResponse")):
                return {"response"}
            if isinstance(e.func, ast.Attribute) and e.func.attr in ("apply_request",):
                return {"response"}
            if depth <= 0:
                return {"unknown"}
            targets, why = resolve_callees(ix, fn, e)
            if not targets:
                return {"unknown"}
            self.calls.setdefault(id(fn), []).extend(targets)
            out = set()
            for t in targets:
                if t.name == "__init__":
                    out.add("nonbool")
                    continue
                ret_ann = getattr(t.node, "returns", None)
                if ret_ann is not None and "RequestResponse" in unparse(ret_ann):
                    ks = self.func_kinds(t, depth - 1, _stack)
                    out |= ks if ks - {"unknown"} else {"response"}
                    continue
                out |= self.func_kinds(t, depth - 1, _stack)
            return out or {"unknown"}
        return {"unknown"}

    def problems_for_call(self, fn: FuncInfo, e: ast.AST, depth: Optional[int] = None) -> Tuple[Set[str], List[str]]:
        """Kinds of expression e (evaluated inside fn) plus the recorded reasons from the callee closure."""
        d = self.depth if depth is None else depth
        ks = self.expr_kinds(fn, e, d, set())
        reasons: List[str] = []
        if isinstance(e, ast.Call):
            targets, _ = resolve_callees(self.ix, fn, e)
            seen: Set[int] = set()
            stack = list(targets)
            while stack:
                t = stack.pop()
                if id(t) in seen:
                    continue
                seen.add(id(t))
                reasons.extend(self.evidence.get(id(t), []))
                stack.extend(self.calls.get(id(t), []))
        return ks, reasons
