"""E6 - state schema and observation abstract evaluation (stdlib `ast` only; nothing from /repo is imported or run).

Four layers, each usable on its own:

1. *conditions* - branch tests are decomposed into atoms (normalised text, polarity); presence conditions are DNFs over
   those atoms and are compared by truth table, so `a and b`, nested `if a: if b:` and `not (not a or not b)` agree.
2. *DictBuilder* - a small symbolic executor for the stylised dict-building code of the repo (`describe_state`, the
   `space` property, `observe`, the `default_observation` built in `__init__`).  It produces a **Tree**: a list of store
   events (key path, presence condition, leaf expression with locals substituted).  Keys come from dict literals,
   `spaces.Dict({...})`, `{**x}`, `D[k] = v`, `D.update({...})`, dict comprehensions and `for` loops; loop variables are
   replaced by canonical pseudo-names (`index[self.services]`, `each[self.services]`), so `{i + 1: s.space for i, s in enumerate(self.services)}`
   and a `for` loop writing `obs[j + 1]` give the same slot family.
3. *SchemaModel* - `describe_state` of every simulator class evaluated to a Tree (following `super().describe_state()`
   along the MRO of the concrete class and explicit `Base.describe_state(self)` calls); leaf producers are given an
   abstract value (Enum range from the enum table, Bool, Count, Real, Str, Ref to a nested component, Opaque).  A *cursor*
   walks key paths over the class-hierarchy closure of a component.
4. *ObsModel* - one model per observation class: the trees of `space`, `observe` (per return) and `default_observation`,
   the `where` templates derived from the constructor call sites (`cls(where=parent_where + [...])`), the component
   the template denotes in the schema, the state reads of `observe`, and an interval evaluation of leaf expressions.

An idiom that cannot be brought into these normal forms raises AnalysisError (exit 2), never a violation.
"""
from __future__ import annotations

import ast
import dataclasses
import copy
import itertools
import math
from dataclasses import dataclass, field
from typing import Any, Callable, Dict, FrozenSet, Iterable, List, Optional, Sequence, Set, Tuple

from .astutil import attr_chain, call_name, unparse
from .index import AnalysisError, ClassInfo, FuncInfo, Index

# ===================================================================================================== conditions
Atom = Tuple[str, bool]
CondSet = FrozenSet[Atom]
DNF = List[CondSet]
EMPTY: CondSet = frozenset()


def _norm_compare(e: ast.Compare) -> Tuple[ast.AST, bool]:
    """`a != b` -> (`a == b`, False); `a >= b` -> (`a < b`, False); `a > b` -> (`b < a`, True); constants to the right."""
    op, l, r = e.ops[0], e.left, e.comparators[0]
    pol = True
    if isinstance(op, ast.NotEq):
        op, pol = ast.Eq(), False
    elif isinstance(op, ast.IsNot):
        op, pol = ast.Is(), False
    elif isinstance(op, ast.NotIn):
        op, pol = ast.In(), False
    elif isinstance(op, ast.GtE):
        op, pol = ast.Lt(), False
    elif isinstance(op, ast.Gt):
        op, l, r = ast.Lt(), r, l
    elif isinstance(op, ast.LtE):
        op, l, r, pol = ast.Lt(), r, l, False
    if isinstance(op, (ast.Eq, ast.Is)) and isinstance(l, ast.Constant) and not isinstance(r, ast.Constant):
        l, r = r, l
    return ast.Compare(left=l, ops=[op], comparators=[r]), pol


def _consistent(c: Iterable[Atom]) -> bool:
    seen: Dict[str, bool] = {}
    for t, p in c:
        if seen.setdefault(t, p) != p:
            return False
    return True


def dnf(e: ast.AST, pol: bool = True) -> DNF:
    """Disjunctive normal form of `e` (or of `not e`) over atoms (normalised text, polarity)."""
    marker = getattr(e, "_conds", None)
    if marker is not None:  # synthetic test produced by DictBuilder.read_name
        if pol:
            return [marker]
        if len(marker) == 1:
            (t, p), = marker
            return [frozenset([(t, not p)])]
        return [frozenset([(t, not p)]) for t, p in marker]
    if isinstance(e, ast.BoolOp):
        parts = [dnf(v, pol) for v in e.values]
        if isinstance(e.op, ast.And) == pol:  # conjunction
            out: DNF = []
            for combo in itertools.product(*parts):
                u = frozenset().union(*combo)
                if _consistent(u) and u not in out:
                    out.append(u)
            return out
        out = []
        for p in parts:
            for c in p:
                if c not in out:
                    out.append(c)
        return out
    if isinstance(e, ast.UnaryOp) and isinstance(e.op, ast.Not):
        return dnf(e.operand, not pol)
    if isinstance(e, ast.Constant):
        return [EMPTY] if bool(e.value) == pol else []
    if isinstance(e, ast.Compare) and len(e.ops) == 1:
        n, p = _norm_compare(e)
        return [frozenset([(unparse(n), p == pol)])]
    return [frozenset([(unparse(e), pol)])]


def dnf_and(d: DNF, c: CondSet) -> DNF:
    out = []
    for x in d:
        u = x | c
        if _consistent(u) and u not in out:
            out.append(u)
    return out


def dnf_equiv(a: DNF, b: DNF) -> bool:
    """Exact equivalence by truth table over the atoms that occur (atoms are independent booleans)."""
    atoms = sorted({t for d in (a, b) for c in d for t, _ in c})
    if len(atoms) > 16:
        raise AnalysisError(f"presence condition over {len(atoms)} atoms is too large for a truth table")

    def ev(d: DNF, val: Dict[str, bool]) -> bool:
        return any(all(val[t] == p for t, p in c) for c in d)

    for bits in itertools.product((False, True), repeat=len(atoms)):
        val = dict(zip(atoms, bits))
        if ev(a, val) != ev(b, val):
            return False
    return True


def dnf_simplify(d: DNF) -> DNF:
    """Resolution ((A and c) or (A and not c) -> A) and absorption, for readable reports."""
    cur = [c for i, c in enumerate(d) if c not in d[:i]]
    changed = True
    while changed:
        changed = False
        for x, y in itertools.combinations(cur, 2):
            diff = x ^ y
            if len(diff) == 2:
                (t1, p1), (t2, p2) = tuple(diff)
                if t1 == t2 and p1 != p2:
                    cur = [c for c in cur if c not in (x, y)]
                    if (x & y) not in cur:
                        cur.append(x & y)
                    changed = True
                    break
        if changed:
            continue
        for x in cur:
            if any(y < x for y in cur):
                cur = [c for c in cur if c != x]
                changed = True
                break
    return cur


def dnf_text(d: DNF) -> str:
    d = dnf_simplify(d)
    if not d:
        return "never"
    if EMPTY in d:
        return "always"
    return " or ".join("(" + " and ".join(sorted(("" if p else "not ") + t for t, p in c)) + ")" for c in sorted(d, key=sorted))


# ===================================================================================================== trees
KeyElem = Tuple[str, Any]  # ('lit', value) | ('var', normalised text)
Path = Tuple[KeyElem, ...]


def path_text(p: Path) -> str:
    if not p:
        return "<root>"
    return "/".join(repr(v) if k == "lit" else f"<{v}>" for k, v in p)


@dataclass
class Ev:
    """One store event: at `path`, under `conds`, a dict node or a leaf with expression `expr` (locals substituted)."""
    path: Path
    conds: CondSet
    kind: str  # dict | leaf
    expr: Optional[ast.AST] = None
    raw: Optional[ast.AST] = None
    fn: Optional[FuncInfo] = None
    self_cls: Optional[ClassInfo] = None

    @property
    def lineno(self) -> int:
        return getattr(self.raw, "lineno", 0) or getattr(self.expr, "lineno", 0)


class Tree:
    def __init__(self, opaque: str = ""):
        self.events: List[Ev] = []
        self.opaque = opaque  # non-empty: the dict is produced by something we cannot enumerate (model_dump(), None)

    def kill(self, path: Path, conds: CondSet) -> None:
        """A store at `path` under `conds` replaces whatever an earlier store put at or below `path` under conditions
        that imply `conds`."""
        n = len(path)
        self.events = [e for e in self.events if not (e.path[:n] == path and e.conds >= conds)]

    def add(self, ev: Ev) -> None:
        self.events.append(ev)

    def copy_into(self, dst: "Tree", at: Path, conds: CondSet) -> None:
        for e in self.events:
            c = e.conds | conds
            if _consistent(c):
                dst.add(Ev(at + e.path, c, e.kind, e.expr, e.raw, e.fn, e.self_cls))
        if self.opaque and not dst.opaque and not at:
            dst.opaque = self.opaque

    def by_path(self) -> Dict[Path, List[Ev]]:
        out: Dict[Path, List[Ev]] = {}
        for e in self.events:
            out.setdefault(e.path, []).append(e)
        return out

    def presence(self) -> Dict[Path, DNF]:
        out: Dict[Path, DNF] = {}
        for e in self.events:
            d = out.setdefault(e.path, [])
            if e.conds not in d:
                d.append(e.conds)
        return out

    def children(self, path: Path) -> List[KeyElem]:
        n = len(path)
        out: List[KeyElem] = []
        for e in self.events:
            if len(e.path) > n and e.path[:n] == path and e.path[n] not in out:
                out.append(e.path[n])
        return out

    def at(self, path: Path) -> List[Ev]:
        return [e for e in self.events if e.path == path]

    def subtree(self, path: Path) -> "Tree":
        t = Tree(self.opaque)
        n = len(path)
        for e in self.events:
            if e.path[:n] == path:
                t.add(Ev(e.path[n:], e.conds, e.kind, e.expr, e.raw, e.fn, e.self_cls))
        return t


# ===================================================================================================== values
@dataclass
class Val:
    kind: str  # dict | tree | leaf
    items: List[Tuple[Optional[KeyElem], CondSet, "Val"]] = field(default_factory=list)  # dict: key None = spread
    tree: Optional[Tree] = None
    expr: Optional[ast.AST] = None
    raw: Optional[ast.AST] = None


@dataclass
class Outcome:
    conds: CondSet
    val: Val
    stmt: ast.AST


UNDEF = "<undef>"
_ROLE_WORD = {"i": "index", "e": "each", "k": "key", "v": "value"}


@dataclass
class Pseudo:
    role: str  # i (enumerate/range index) | e (enumerate element / plain element) | k | v
    source: ast.AST  # substituted iterable expression (the collection, without enumerate()/items()/values())
    how: str  # enumerate | range | items | values | iter
    fn: Optional[FuncInfo] = None


def _is_spaces_dict(call: ast.Call) -> bool:
    ch = attr_chain(call.func)
    return bool(ch) and ch[-1] == "Dict" and len(ch) >= 2 and ch[-2] == "spaces"


def _docstring(s: ast.stmt) -> bool:
    return isinstance(s, ast.Expr) and isinstance(s.value, ast.Constant) and isinstance(s.value.value, str)


class DictBuilder:
    """Symbolic executor for one function; see the module docstring."""

    MAX_DEPTH = 4

    def __init__(self, ix: Index, fn: FuncInfo, self_cls: Optional[ClassInfo] = None, *,
                 attr_trees: Optional[Dict[str, Tree]] = None,
                 call_resolver: Optional[Callable[[ast.Call, ast.Call, "DictBuilder"], Optional[Val]]] = None,
                 on_expr: Optional[Callable[[ast.AST, ast.AST, CondSet, "DictBuilder"], None]] = None,
                 pseudos: Optional[Dict[str, Pseudo]] = None, alias_params: bool = False, depth: int = 0):
        self.ix, self.fn = ix, fn
        self.self_cls = self_cls or fn.cls
        self.env: Dict[str, List[Tuple[CondSet, ast.AST]]] = {}
        self.trees: Dict[str, Tree] = {}
        self.attr_trees = attr_trees if attr_trees is not None else {}
        self.call_resolver = call_resolver
        self.on_expr = on_expr
        self.pseudos: Dict[str, Pseudo] = pseudos if pseudos is not None else {}
        self.alias_params = alias_params
        self.depth = depth
        self.stack: List[Atom] = []
        self.ambient: List[Atom] = []
        self.lit_alias: List[Tuple[Any, ast.AST]] = []
        self.outcomes: List[Outcome] = []
        self.attr_stores: List[Tuple[str, CondSet, Optional[ast.AST], ast.AST]] = []  # (self.X, conds, value(subst), stmt)
        self.attr_mutations: List[Tuple[str, ast.AST]] = []  # self.X[...] = / self.X.append(...)
        self.loop_pseudos: List[Set[str]] = []  # per enclosing for-loop: the canonical names of its loop variables
        self.overwrites: List[Tuple[ast.AST, str, str]] = []  # (stmt, path text, loop text): whole-dict store per iteration
        self.params = [a.arg for a in fn.node.args.posonlyargs + fn.node.args.args + fn.node.args.kwonlyargs]

    # ------------------------------------------------------------------ conditions in scope
    @property
    def conds(self) -> CondSet:
        return frozenset(self.stack)

    @property
    def all_conds(self) -> CondSet:
        """Conditions in scope including those established by guard clauses (`if not c: return` puts c in force for the rest)."""
        return frozenset(self.stack) | frozenset(self.ambient)

    def _push(self, c: CondSet) -> int:
        n = len(self.stack)
        for a in sorted(c):
            if a not in self.stack:
                self.stack.append(a)
        return n

    # ------------------------------------------------------------------ substitution
    def subst(self, e: ast.AST) -> ast.AST:
        b = self

        class T(ast.NodeTransformer):
            def visit_Name(self, n: ast.Name):
                if isinstance(n.ctx, ast.Load) and n.id in b.env and n.id not in b.trees:
                    return b.read_name(n.id)
                if isinstance(n.ctx, ast.Load) and n.id in b.env and n.id in b.trees and any(
                        not isinstance(x, ast.Dict) for _c, x in b.env[n.id]):
                    # a local that is a dict literal on one path and a state value on another (`t = d.get(k)` / `if t is None: t = {..}`):
                    # inside an expression it stands for both alternatives
                    return b.read_name(n.id)
                return n

            def visit_Lambda(self, n):
                return n

        return T().visit(copy.deepcopy(e))

    def read_name(self, name: str) -> ast.AST:
        cur = self.conds | frozenset(self.ambient)
        alts = [(c, x) for c, x in self.env[name] if _consistent(c | cur)]
        chain: Optional[ast.AST] = None
        # earliest definition innermost: later definitions take precedence
        for c, x in alts:
            extra = c - cur
            x = copy.deepcopy(x)
            if not extra:
                chain = x
            else:
                t = ast.Name(id="<if " + " and ".join(sorted(("" if p else "not ") + a for a, p in extra)) + ">", ctx=ast.Load())
                t._conds = extra  # type: ignore[attr-defined]
                chain = ast.IfExp(test=t, body=x, orelse=chain if chain is not None else ast.Name(id=UNDEF, ctx=ast.Load()))
        return chain if chain is not None else ast.Name(id=UNDEF, ctx=ast.Load())

    def bind(self, name: str, value: ast.AST) -> None:
        c = self.conds
        self.env[name] = [(c2, x) for c2, x in self.env.get(name, []) if not c2 >= c] + [(c, value)]

    def pseudo(self, role: str, source: ast.AST, how: str) -> ast.Name:
        pid = f"{_ROLE_WORD.get(role, 'item' + role[1:])}[{unparse(source)}]"
        self.pseudos.setdefault(pid, Pseudo(role, source, how, self.fn))
        return ast.Name(id=pid, ctx=ast.Load())

    def bind_loop(self, target: ast.AST, it: ast.AST) -> str:
        """Bind the loop target(s) to canonical pseudo-names; returns the normalised text of the iterable."""
        s = self.subst(it)
        how, src = "iter", s
        if isinstance(s, ast.Call) and isinstance(s.func, ast.Name) and s.func.id == "enumerate" and s.args:
            how, src = "enumerate", s.args[0]
        elif isinstance(s, ast.Call) and isinstance(s.func, ast.Name) and s.func.id == "range" and len(s.args) == 1:
            how, src = "range", s
        elif isinstance(s, ast.Call) and isinstance(s.func, ast.Attribute) and s.func.attr in ("items", "values", "keys") and not s.args:
            how, src = s.func.attr, s.func.value
            if how == "keys":
                how = "iter"
        if isinstance(src, ast.Call) and isinstance(src.func, ast.Name) and src.func.id in ("list", "sorted", "tuple") and len(src.args) == 1 and how != "range":
            src = src.args[0]
        names = [target] if isinstance(target, ast.Name) else list(getattr(target, "elts", []))
        if how in ("enumerate", "items") and len(names) == 2 and all(isinstance(n, ast.Name) for n in names):
            r0, r1 = ("i", "e") if how == "enumerate" else ("k", "v")
            self.bind(names[0].id, self.pseudo(r0, src, how))
            self.bind(names[1].id, self.pseudo(r1, src, how))
        elif len(names) == 1 and isinstance(names[0], ast.Name):
            role = {"range": "i", "values": "v"}.get(how, "e")
            self.bind(names[0].id, self.pseudo(role, src, how))
        else:
            for j, n in enumerate(names):
                if isinstance(n, ast.Name):
                    self.bind(n.id, self.pseudo(f"t{j}", s, "iter"))
                else:
                    raise AnalysisError(f"{self.fn.short}: loop target {unparse(target)} is not modelled")
        return f"for {unparse(s)}"

    # ------------------------------------------------------------------ keys
    def key_elem(self, k: ast.AST) -> KeyElem:
        s = self.subst(k)
        if isinstance(s, ast.BinOp) and isinstance(s.op, ast.Add) and isinstance(s.left, ast.Constant) and not isinstance(s.right, ast.Constant) \
                and isinstance(s.left.value, (int, float)):
            s = ast.BinOp(left=s.right, op=ast.Add(), right=s.left)  # 1 + i  ==  i + 1
        if isinstance(s, ast.Constant):
            for val, var in reversed(self.lit_alias):
                if val == s.value and type(val) is type(s.value):
                    return ("var", unparse(var))
            return ("lit", s.value)
        return ("var", unparse(s))

    # ------------------------------------------------------------------ values
    def _root_text(self, e: ast.AST) -> Optional[str]:
        if isinstance(e, ast.Name):
            return e.id
        if isinstance(e, ast.Attribute) and isinstance(e.value, ast.Name) and e.value.id == "self":
            return f"self.{e.attr}"
        return None

    def _tree_for(self, e: ast.AST) -> Optional[Tree]:
        r = self._root_text(e)
        if r is None:
            return None
        if r in self.trees:
            return self.trees[r]
        if r in self.attr_trees:
            return self.attr_trees[r]
        return None

    def eval_value(self, e: ast.AST) -> Val:
        if isinstance(e, ast.Dict):
            v = Val("dict", raw=e)
            for k, x in zip(e.keys, e.values):
                v.items.append((None if k is None else self.key_elem(k), EMPTY, self.eval_value(x)))
            return v
        if isinstance(e, ast.DictComp):
            if len(e.generators) != 1:
                raise AnalysisError(f"{self.fn.short}: nested dict comprehension {unparse(e)[:60]} is not modelled")
            g = e.generators[0]
            saved = {k: list(v) for k, v in self.env.items()}
            atom = (self.bind_loop(g.target, g.iter), True)
            extra = frozenset([atom])
            for cond in g.ifs:
                d = dnf(self.subst(cond))
                if len(d) != 1:
                    raise AnalysisError(f"{self.fn.short}: disjunctive comprehension filter {unparse(cond)} is not modelled")
                extra = extra | d[0]
            n = self._push(extra)
            try:
                v = Val("dict", raw=e)
                v.items.append((self.key_elem(e.key), extra, self.eval_value(e.value)))
            finally:
                del self.stack[n:]
                self.env = saved
            return v
        if isinstance(e, ast.Call):
            if _is_spaces_dict(e):
                if not e.args and not e.keywords:
                    return Val("dict", raw=e)
                if len(e.args) == 1 and not e.keywords:
                    inner = self.eval_value(e.args[0])
                    if inner.kind in ("dict", "tree"):
                        inner.raw = e
                        return inner
                raise AnalysisError(f"{self.fn.short}: cannot enumerate the keys of {unparse(e)[:70]}")
            if isinstance(e.func, ast.Name) and e.func.id == "dict" and not e.keywords:
                if not e.args:
                    return Val("dict", raw=e)
                inner = self.eval_value(e.args[0])
                if inner.kind in ("dict", "tree"):
                    return inner
            if self.call_resolver is not None and self.depth < self.MAX_DEPTH:
                r = self.call_resolver(e, self.subst(e), self)
                if r is not None:
                    return r
        t = self._tree_for(e)
        if t is not None:
            return Val("tree", tree=t, raw=e)
        s = self.subst(e)
        if isinstance(e, ast.Name) and isinstance(s, (ast.Dict, ast.DictComp)):
            return self.eval_value(s)
        return Val("leaf", expr=s, raw=e)

    def store(self, tree: Tree, path: Path, val: Val, conds: CondSet, *, merge: bool = False) -> None:
        if not merge:
            # `d[p] = {v: ...}` inside `for v in ...` where the target path does not depend on v: every iteration replaces the
            # whole dictionary, so of the keys that depend on v only the last one survives
            if val.kind == "dict" and self.loop_pseudos:
                ptxt = " ".join(str(k[1]) for k in path)
                for ids in self.loop_pseudos:
                    if ids and not any(i in ptxt for i in ids) and any(
                            k is not None and k[0] == "var" and any(i in str(k[1]) for i in ids) for k, _x, _v in val.items):
                        self.overwrites.append((val.raw, path_text(path), ", ".join(sorted(ids))))
            tree.kill(path, conds)
        self._store(tree, path, val, conds, merge)

    def _store(self, tree: Tree, path: Path, val: Val, conds: CondSet, merge: bool) -> None:
        if val.kind == "leaf":
            tree.add(Ev(path, conds, "leaf", val.expr, val.raw, self.fn, self.self_cls))
        elif val.kind == "tree":
            if merge:
                for e in val.tree.events:
                    if e.path:
                        c = e.conds | conds
                        if len(e.path) == 1:
                            tree.kill(path + e.path, c)
                for e in val.tree.events:
                    c = e.conds | conds
                    if e.path and _consistent(c):
                        tree.add(Ev(path + e.path, c, e.kind, e.expr, e.raw, e.fn, e.self_cls))
                if val.tree.opaque:
                    tree.opaque = tree.opaque or val.tree.opaque
            else:
                val.tree.copy_into(tree, path, conds)
                if not val.tree.at(()):
                    tree.add(Ev(path, conds, "dict", None, val.raw, self.fn, self.self_cls))
        else:
            if not merge:
                tree.add(Ev(path, conds, "dict", None, val.raw, self.fn, self.self_cls))
            for k, extra, sub in val.items:
                c = conds | extra
                if k is None:  # {**x}: the keys of x land here
                    if sub.kind == "leaf":
                        raise AnalysisError(f"{self.fn.short}: cannot enumerate the keys spread by {unparse(sub.raw)[:60]}")
                    self._store(tree, path, sub, c, True)
                else:
                    tree.kill(path + (k,), c)
                    self._store(tree, path + (k,), sub, c, False)

    # ------------------------------------------------------------------ statements
    def run(self) -> "DictBuilder":
        body = [s for s in self.fn.node.body if not _docstring(s)]
        self.exec_block(body)
        return self

    def exec_block(self, stmts: Sequence[ast.stmt]) -> bool:
        for s in stmts:
            if self.exec_stmt(s):
                return True
        return False

    def _note(self, raw: ast.AST, s: Optional[ast.AST] = None) -> None:
        if self.on_expr is not None:
            self.on_expr(raw, s if s is not None else self.subst(raw), self.conds | frozenset(self.ambient), self)

    def _subscript_target(self, t: ast.Subscript) -> Tuple[ast.AST, List[ast.AST]]:
        keys: List[ast.AST] = []
        cur: ast.AST = t
        while isinstance(cur, ast.Subscript):
            keys.append(cur.slice)
            cur = cur.value
        keys.reverse()
        return cur, keys

    def _assign(self, target: ast.AST, value: ast.AST, stmt: ast.stmt) -> None:
        if isinstance(target, (ast.Tuple, ast.List)):
            sv = self.subst(value)
            for j, t in enumerate(target.elts):
                if isinstance(t, ast.Name):
                    x = sv.elts[j] if isinstance(sv, (ast.Tuple, ast.List)) and len(sv.elts) == len(target.elts) else \
                        ast.Subscript(value=sv, slice=ast.Constant(value=j), ctx=ast.Load())
                    self.trees.pop(t.id, None)
                    self.bind(t.id, x)
            self._note(value)
            return
        if isinstance(target, ast.Subscript):
            root, keys = self._subscript_target(target)
            tree = self._tree_for(root)
            if tree is None:
                r = self._root_text(root)
                if r and r.startswith("self."):
                    self.attr_mutations.append((r, stmt))
                self._note(value)
                for k in keys:
                    self._note(k)
                return
            path = tuple(self.key_elem(k) for k in keys)
            v = self.eval_value(value)
            self._note_val(v)
            self.store(tree, path, v, self.all_conds)
            return
        v = self.eval_value(value)
        self._note_val(v)
        name = self._root_text(target)
        if name is None:
            return
        is_attr = name.startswith("self.")
        if v.kind in ("dict", "tree"):
            tree = Tree()
            if name in self.trees:  # rebinding under another condition: same logical result object
                tree = self.trees[name]
            self.trees[name] = tree
            self.store(tree, (), v, self.all_conds)
            if is_attr:
                self.attr_stores.append((name, self.all_conds, self.subst(value), stmt))
            elif isinstance(value, ast.Dict):
                # keep the literal as a value alternative too: `d = {...}` followed by a conditional `d = state[...]`
                self.bind(name, self.subst(value))
            else:
                self.env.pop(name, None)
            return
        if is_attr:
            self.attr_stores.append((name, self.all_conds, v.expr, stmt))
            if self.alias_params and isinstance(value, ast.Name) and value.id in self.params:
                self.bind(value.id, ast.Attribute(value=ast.Name(id="self", ctx=ast.Load()), attr=target.attr, ctx=ast.Load()))
            # `self.cached = self.default_observation`: the attribute shares the tracked tree
            t2 = self._tree_for(value)
            if t2 is not None:
                self.trees[name] = t2
            return
        self.trees.pop(name, None)
        self.bind(name, v.expr)

    def _note_val(self, v: Val) -> None:
        if self.on_expr is None:
            return
        if v.kind == "leaf":
            self._note(v.raw, v.expr)
        elif v.kind == "dict":
            for _, _, sub in v.items:
                self._note_val(sub)

    def exec_stmt(self, s: ast.stmt) -> bool:
        if _docstring(s) or isinstance(s, (ast.Pass, ast.Import, ast.ImportFrom, ast.Global, ast.Nonlocal)):
            return False
        if isinstance(s, ast.Assign):
            for t in s.targets:
                self._assign(t, s.value, s)
            return False
        if isinstance(s, ast.AnnAssign):
            if s.value is not None:
                self._assign(s.target, s.value, s)
            return False
        if isinstance(s, ast.AugAssign):
            self._note(s.value)
            r = self._root_text(s.target)
            if isinstance(s.target, ast.Name):
                old = self.read_name(s.target.id) if s.target.id in self.env else ast.Name(id=s.target.id, ctx=ast.Load())
                self.bind(s.target.id, ast.BinOp(left=old, op=s.op, right=self.subst(s.value)))
            elif r and r.startswith("self."):
                self.attr_stores.append((r, self.all_conds, None, s))
            elif isinstance(s.target, ast.Subscript):
                root, _ = self._subscript_target(s.target)
                if self._tree_for(root) is not None:
                    raise AnalysisError(f"{self.fn.short}: augmented store into a tracked dict ({unparse(s)[:60]}) is not modelled")
                rr = self._root_text(root)
                if rr and rr.startswith("self."):
                    self.attr_mutations.append((rr, s))
            return False
        if isinstance(s, ast.Expr):
            return self._expr_stmt(s)
        if isinstance(s, ast.If):
            return self._if(s)
        if isinstance(s, (ast.For, ast.While)):
            saved_amb = len(self.ambient)
            if isinstance(s, ast.For):
                atom = (self.bind_loop(s.target, s.iter), True)
                self._note(s.iter)
                ids = set()
                for tn in ast.walk(s.target):
                    if isinstance(tn, ast.Name) and tn.id in self.env and self.env[tn.id]:
                        last = self.env[tn.id][-1][1]
                        if isinstance(last, ast.Name) and is_pseudo(last.id):
                            ids.add(last.id)
                self.loop_pseudos.append(ids)
            else:
                atom = (f"while {unparse(self.subst(s.test))}", True)
                self._note(s.test)
                self.loop_pseudos.append(set())
            n = self._push(frozenset([atom]))
            na = len(self.lit_alias)
            self.exec_block(s.body)
            self.loop_pseudos.pop()
            del self.stack[n:]
            del self.lit_alias[na:]
            del self.ambient[saved_amb:]
            if s.orelse:
                self.exec_block(s.orelse)
            return False
        if isinstance(s, ast.Return):
            if s.value is None:
                v = Val("leaf", expr=ast.Constant(value=None), raw=s)
            else:
                v = self.eval_value(s.value)
                self._note_val(v)
            if v.kind == "tree":  # snapshot: later stores (other paths) must not leak into this outcome
                snap = Tree(v.tree.opaque)
                snap.events = list(v.tree.events)
                v = Val("tree", tree=snap, raw=v.raw)
            self.outcomes.append(Outcome(self.conds | frozenset(self.ambient), v, s))
            return True
        if isinstance(s, ast.Raise):
            return True
        if isinstance(s, (ast.FunctionDef, ast.AsyncFunctionDef, ast.ClassDef, ast.Assert, ast.Delete)):
            return False
        if isinstance(s, (ast.With, ast.Try)):
            for n in ast.walk(s):
                if isinstance(n, (ast.Subscript, ast.Name)) and isinstance(getattr(n, "ctx", None), ast.Store):
                    root = n
                    while isinstance(root, ast.Subscript):
                        root = root.value
                    if self._tree_for(root) is not None:
                        raise AnalysisError(f"{self.fn.short}: dict built inside a {type(s).__name__} block is not modelled")
            return False
        raise AnalysisError(f"{self.fn.short}: statement {type(s).__name__} at line {s.lineno} is not modelled by E6")

    def _expr_stmt(self, s: ast.Expr) -> bool:
        e = s.value
        if isinstance(e, ast.Call) and isinstance(e.func, ast.Attribute):
            recv, meth = e.func.value, e.func.attr
            root = recv
            keys: List[ast.AST] = []
            if isinstance(recv, ast.Subscript):
                root, keys = self._subscript_target(recv)
            tree = self._tree_for(root)
            if tree is not None and meth == "update" and len(e.args) == 1 and not e.keywords:
                v = self.eval_value(e.args[0])
                self._note_val(v)
                if v.kind == "leaf":
                    if isinstance(v.expr, ast.Dict) or isinstance(v.expr, ast.DictComp):
                        v = self.eval_value(v.expr)
                    else:
                        raise AnalysisError(f"{self.fn.short}: cannot enumerate the keys added by {unparse(e)[:70]}")
                self.store(tree, tuple(self.key_elem(k) for k in keys), v, self.all_conds, merge=True)
                return False
            if tree is not None and meth in ("pop", "clear", "setdefault", "popitem"):
                raise AnalysisError(f"{self.fn.short}: {unparse(e)[:60]} on a tracked dict is not modelled")
            r = self._root_text(root)
            if r and r.startswith("self.") and meth in ("append", "pop", "update", "clear", "remove", "extend", "insert",
                                                        "add", "discard", "setdefault"):
                self.attr_mutations.append((r, s))
        self._note(e)
        return False

    def _if(self, s: ast.If) -> bool:
        test = self.subst(s.test)
        self._note(s.test, test)
        t, f = dnf(test, True), dnf(test, False)
        if len(t) > 2:
            t = [frozenset([(unparse(test), True)])]
        if len(f) > 2:
            f = [frozenset([(unparse(test), False)])]
        alias: Optional[Tuple[Any, ast.AST]] = None
        alias_in_body = True  # the branch in which `<loop variable> == <literal>` holds
        core = test
        while isinstance(core, ast.UnaryOp) and isinstance(core.op, ast.Not):
            core, alias_in_body = core.operand, not alias_in_body
        if isinstance(core, ast.Compare) and len(core.ops) == 1 and isinstance(core.ops[0], (ast.Eq, ast.NotEq)):
            if isinstance(core.ops[0], ast.NotEq):
                alias_in_body = not alias_in_body
            l, r = core.left, core.comparators[0]
            if isinstance(l, ast.Constant):
                l, r = r, l
            if isinstance(r, ast.Constant) and any(isinstance(n, ast.Name) and is_pseudo(n.id) for n in ast.walk(l)):
                alias = (r.value, l)

        def branch(alts: DNF, body: Sequence[ast.stmt], with_alias: bool) -> bool:
            if not body:
                return False
            if not alts:  # statically false
                return False
            term = True
            for c in alts:
                if not _consistent(c | self.conds | frozenset(self.ambient)):
                    continue  # unreachable under the conditions already known
                n = self._push(c)
                na = len(self.lit_alias)
                if with_alias and alias is not None:
                    self.lit_alias.append(alias)
                amb = len(self.ambient)
                term = self.exec_block(body) and term
                del self.stack[n:]
                del self.lit_alias[na:]
                del self.ambient[amb:]
            return term

        bt = branch(t, s.body, alias_in_body)
        et = branch(f, s.orelse, not alias_in_body)
        if bt and et and s.orelse:
            return True

        def single(alts: DNF, pol: bool) -> List[Atom]:
            if len(alts) == 1:
                return sorted(alts[0])
            return [(unparse(test), pol)]

        if bt and s.body:
            self.ambient.extend(a for a in single(f, False) if a not in self.ambient)
        elif et and s.orelse:
            self.ambient.extend(a for a in single(t, True) if a not in self.ambient)
        return False


def merged_tree(outcomes: List[Outcome], fn: FuncInfo, builder: DictBuilder) -> Tree:
    """All returns of a dict-building function as one tree (each return's events under that return's condition)."""
    t = Tree()
    for o in outcomes:
        builder._store(t, (), o.val, o.conds, False)
    return t


# ===================================================================================================== typing
def is_pseudo(name: str) -> bool:
    """Canonical loop-variable names made by DictBuilder.pseudo: index[X], each[X], key[X], value[X], itemN[X]."""
    return name.endswith("]") and name.split("[", 1)[0] in ("index", "each", "key", "value") or \
        (name.startswith("item") and name.endswith("]") and name[4:name.find("[")].isdigit())


def _strip_optional(ann: Optional[ast.AST]) -> Optional[ast.AST]:
    if ann is None:
        return None
    if isinstance(ann, ast.Constant) and isinstance(ann.value, str):
        try:
            ann = ast.parse(ann.value, mode="eval").body
        except SyntaxError:
            return None
    if isinstance(ann, ast.Subscript) and unparse(ann.value).split(".")[-1] in ("Optional", "ClassVar", "Final"):
        return _strip_optional(ann.slice)
    if isinstance(ann, ast.BinOp) and isinstance(ann.op, ast.BitOr):
        for side in (ann.left, ann.right):
            if not (isinstance(side, ast.Constant) and side.value is None):
                return _strip_optional(side)
    return ann


class Typer:
    """Types of *substituted* expressions: receivers are `self`, pseudo loop names, attribute chains, class names."""

    def __init__(self, ix: Index, pseudos: Dict[str, Pseudo]):
        self.ix, self.pseudos = ix, pseudos

    def type_of(self, e: ast.AST, fn: FuncInfo, self_cls: Optional[ClassInfo], narrow: Optional[Dict[str, ClassInfo]] = None
                ) -> Tuple[Optional[ClassInfo], str]:
        ix = self.ix
        if narrow and unparse(e) in narrow:
            return narrow[unparse(e)], "scalar"
        if isinstance(e, ast.Name):
            if e.id == "self":
                return self_cls, "scalar"
            if is_pseudo(e.id):
                p = self.pseudos.get(e.id)
                if p is None:
                    return None, "unknown"
                c, sh = self.type_of(p.source, p.fn or fn, self_cls, narrow)
                if c is None:
                    return None, "unknown"
                if p.role == "e" and sh in ("list", "set", "values"):
                    return c, "scalar"
                if p.role == "v" and sh in ("dict", "values"):
                    return c, "scalar"
                return None, "unknown"
            c = ix._resolve_expr_to_class(e, fn.module, fn.cls)
            return (c, "class") if c is not None else (None, "unknown")
        if isinstance(e, ast.Attribute):
            c, sh = self.type_of(e.value, fn, self_cls, narrow)
            if c is None:
                return None, "unknown"
            if sh == "class":
                for k in ix.mro(c):
                    if e.attr in k.nested:
                        return k.nested[e.attr], "class"
                if ix.is_enum(c) and e.attr in ix.enum_members(c):
                    return c, "member"
                return ix.attr_type(c, e.attr)
            if sh in ("scalar", "member"):
                return ix.attr_type(c, e.attr)
            return None, "unknown"
        if isinstance(e, ast.Subscript):
            c, sh = self.type_of(e.value, fn, self_cls, narrow)
            return (c, "scalar") if c is not None and sh in ("dict", "list") else (None, "unknown")
        if isinstance(e, ast.Call):
            f = e.func
            if isinstance(f, ast.Attribute):
                c, sh = self.type_of(f.value, fn, self_cls, narrow)
                if c is not None and sh == "dict":
                    if f.attr in ("get", "pop"):
                        return c, "scalar"
                    if f.attr == "values":
                        return c, "values"
                if c is not None and sh in ("scalar", "class"):
                    m = ix.find_method(c, f.attr)
                    if m is not None and not isinstance(m.node, ast.Lambda):
                        t = ix.ann_class(m.node.returns, m.module, m.cls)
                        if t[0] is not None:
                            return t
                return None, "unknown"
            if isinstance(f, ast.Name) and f.id in ("list", "sorted", "tuple", "reversed") and e.args:
                c, sh = self.type_of(e.args[0], fn, self_cls, narrow)
                return (c, "list") if c is not None and sh in ("list", "set", "values") else (None, "unknown")
            c, sh = self.type_of(f, fn, self_cls, narrow)
            if c is not None and sh == "class":
                return c, "scalar"
            return None, "unknown"
        if isinstance(e, ast.IfExp):
            a = self.type_of(e.body, fn, self_cls, narrow)
            return a if a[0] is not None else self.type_of(e.orelse, fn, self_cls, narrow)
        return None, "unknown"

    def prim_of(self, e: ast.AST, fn: FuncInfo, self_cls: Optional[ClassInfo]) -> Optional[str]:
        """'bool' | 'int' | 'float' | 'str' for an attribute whose annotation is that builtin, else None."""
        if not isinstance(e, ast.Attribute):
            return None
        c, sh = self.type_of(e.value, fn, self_cls)
        if c is None or sh != "scalar":
            return None
        ann: Optional[ast.AST] = None
        for k in self.ix.mro(c):
            if e.attr in k.fields and k.fields[e.attr].ann is not None:
                ann = k.fields[e.attr].ann
                break
            if e.attr in k.methods and k.methods[e.attr].is_property:
                ann = getattr(k.methods[e.attr].node, "returns", None)
                break
        if ann is None:
            for k in self.ix.mro(c):
                init = k.methods.get("__init__")
                if init is None:
                    continue
                for n in ast.walk(init.node):
                    if isinstance(n, ast.AnnAssign) and isinstance(n.target, ast.Attribute) and n.target.attr == e.attr \
                            and isinstance(n.target.value, ast.Name) and n.target.value.id == "self":
                        ann = n.annotation
                if ann is not None:
                    break
        ann = _strip_optional(ann)
        t = unparse(ann) if ann is not None else ""
        return t if t in ("bool", "int", "float", "str") else None


# ===================================================================================================== abstract values
@dataclass(frozen=True)
class AV:
    kind: str  # enum | bool | count | real | str | const | ref | union | opaque
    cls: Optional[str] = None  # enum class short name / referenced class qualname
    lo: Any = None
    hi: Any = None
    parts: Tuple["AV", ...] = ()
    why: str = ""

    def text(self) -> str:
        if self.kind == "enum":
            return f"Enum({self.cls}, {self.lo}..{self.hi})"
        if self.kind == "const":
            return f"Const({self.lo!r})"
        if self.kind == "ref":
            return f"Ref({self.cls.rsplit('.', 1)[-1]})"
        if self.kind == "union":
            return "Union(" + ", ".join(p.text() for p in self.parts) + ")"
        if self.kind == "opaque":
            return f"Opaque({self.why})" if self.why else "Opaque"
        return self.kind.capitalize() + (f"({self.why})" if self.why else "")


def av_union(parts: Sequence[AV]) -> AV:
    flat: List[AV] = []
    for p in parts:
        for q in (p.parts if p.kind == "union" else (p,)):
            if q not in flat:
                flat.append(q)
    return flat[0] if len(flat) == 1 else AV("union", parts=tuple(flat))


class SchemaModel:
    """describe_state of every class as a Tree + abstract values of the leaf producers + a cursor over key paths."""

    def __init__(self, ix: Index):
        self.ix = ix
        self.pseudos: Dict[str, Pseudo] = {}
        self.typer = Typer(ix, self.pseudos)
        self._memo: Dict[Tuple[str, str], Tree] = {}
        self._busy: Set[Tuple[str, str]] = set()
        self.evaluated: Set[str] = set()  # qualnames of describe_state functions evaluated
        self._dead: Dict[str, bool] = {}
        self._defs: Dict[str, Set[str]] = {}

    # ------------------------------------------------------------------ trees
    def impls(self) -> List[FuncInfo]:
        return [f for f in self.ix.functions if f.name == "describe_state" and f.cls is not None and f.parent is None]

    def tree_of(self, cls: ClassInfo) -> Tree:
        m = self.ix.find_method(cls, "describe_state")
        if m is None:
            raise AnalysisError(f"class {cls.short} has no describe_state along its MRO")
        return self._fn_tree(m, cls)

    def _fn_tree(self, m: FuncInfo, self_cls: ClassInfo) -> Tree:
        key = (m.qualname, self_cls.qualname)
        if key in self._memo:
            return self._memo[key]
        if key in self._busy:
            raise AnalysisError(f"describe_state of {self_cls.short} is recursive through {m.short}")
        self._busy.add(key)
        try:
            b = DictBuilder(self.ix, m, self_cls, call_resolver=self._resolve, pseudos=self.pseudos).run()
            self.evaluated.add(m.qualname)
            if not b.outcomes:
                t = Tree(opaque="returns None")
            else:
                t = Tree()
                for o in b.outcomes:
                    if o.val.kind == "leaf":
                        x = o.val.expr
                        if isinstance(x, ast.Call) and call_name(x) == "model_dump":
                            t.opaque = "model_dump()"
                            continue
                        raise AnalysisError(f"{m.short}: returns {unparse(x)[:60]}, not a dict built in the recognised style")
                    b._store(t, (), o.val, o.conds, False)
        finally:
            self._busy.discard(key)
        self._memo[key] = t
        return t

    def _resolve(self, raw: ast.Call, sub: ast.Call, b: DictBuilder) -> Optional[Val]:
        f = raw.func
        if not (isinstance(f, ast.Attribute) and f.attr == "describe_state"):
            if isinstance(f, ast.Attribute) and f.attr == "model_dump" and unparse(f.value) == "self":
                return Val("tree", tree=Tree(opaque="model_dump()"), raw=raw)
            return None
        recv = f.value
        if isinstance(recv, ast.Call) and isinstance(recv.func, ast.Name) and recv.func.id == "super" and not raw.args:
            mro = self.ix.mro(b.self_cls)
            definer = b.fn.cls
            if definer not in mro:
                raise AnalysisError(f"{b.fn.short}: super() outside the MRO of {b.self_cls.short}")
            for k in mro[mro.index(definer) + 1:]:
                if "describe_state" in k.methods:
                    return Val("tree", tree=self._fn_tree(k.methods["describe_state"], b.self_cls), raw=raw)
            raise AnalysisError(f"{b.fn.short}: super().describe_state() has no target along the MRO of {b.self_cls.short}")
        if len(raw.args) == 1 and unparse(raw.args[0]) == "self":  # Base.describe_state(self)
            base = self.ix._resolve_expr_to_class(recv, b.fn.module, b.fn.cls)
            if base is None:
                raise AnalysisError(f"{b.fn.short}: cannot resolve the class in {unparse(raw)[:60]}")
            m = self.ix.find_method(base, "describe_state")
            if m is None:
                raise AnalysisError(f"{b.fn.short}: {base.short} has no describe_state")
            return Val("tree", tree=self._fn_tree(m, b.self_cls), raw=raw)
        return None  # component.describe_state(): a leaf whose abstract value is Ref(component class)

    # ------------------------------------------------------------------ abstract value of a producer expression
    def av_of(self, e: ast.AST, fn: FuncInfo, self_cls: Optional[ClassInfo], narrow: Optional[Dict[str, ClassInfo]] = None) -> AV:
        ix, ty = self.ix, self.typer
        if isinstance(e, ast.Constant):
            return AV("const", lo=e.value)
        if isinstance(e, ast.JoinedStr):
            return AV("str")
        if isinstance(e, ast.IfExp):
            nb = dict(narrow or {})
            t = e.test
            if isinstance(t, ast.Call) and isinstance(t.func, ast.Name) and t.func.id == "isinstance" and len(t.args) == 2:
                k = ix._resolve_expr_to_class(t.args[1], fn.module, fn.cls)
                if k is not None:
                    nb[unparse(t.args[0])] = k
            return av_union([self.av_of(e.body, fn, self_cls, nb), self.av_of(e.orelse, fn, self_cls, narrow)])
        if isinstance(e, ast.Attribute):
            if e.attr in ("value", "name"):
                c, sh = ty.type_of(e.value, fn, self_cls, narrow)
                if c is not None and ix.is_enum(c):
                    if e.attr == "name":
                        return AV("str", why=f"{c.name}.name")
                    mem = ix.enum_members(c)
                    if sh == "member" and isinstance(e.value, ast.Attribute):
                        v = mem.get(e.value.attr)
                        if isinstance(v, int) and not isinstance(v, bool):
                            return AV("enum", cls=c.name, lo=v, hi=v)
                    vals = list(mem.values())
                    if vals and all(isinstance(v, int) and not isinstance(v, bool) for v in vals):
                        return AV("enum", cls=c.name, lo=min(vals), hi=max(vals))
                    return AV("opaque", why=f"{c.name}.value is not an integer enumeration")
            p = ty.prim_of(e, fn, self_cls)
            src = unparse(e)
            if p == "bool":
                return AV("bool", why=src)
            if p == "int":
                return AV("count", why=src)
            if p == "float":
                return AV("real", why=src)
            if p == "str":
                return AV("str", why=src)
            return AV("opaque", why=src)
        if isinstance(e, ast.Call):
            f = e.func
            if isinstance(f, ast.Name) and f.id == "str":
                return AV("str")
            if isinstance(f, ast.Name) and f.id == "len":
                return AV("count", why=unparse(e))
            if isinstance(f, ast.Attribute) and f.attr == "describe_state" and not e.args:
                c, sh = ty.type_of(f.value, fn, self_cls, narrow)
                if c is not None and sh == "scalar":
                    return AV("ref", cls=c.qualname)
                return AV("opaque", why=f"receiver of {unparse(e)[:50]} has no resolvable type")
            return AV("opaque", why=unparse(e)[:50])
        if isinstance(e, ast.Name) and is_pseudo(e.id):
            p = self.pseudos.get(e.id)
            if p is not None and p.role == "i":
                return AV("count", why=e.id)
        return AV("opaque", why=unparse(e)[:50])

    # ------------------------------------------------------------------ class-hierarchy closure and cursor
    def cha(self, cls: ClassInfo) -> List[ClassInfo]:
        """Every class an instance typed `cls` may have (class-hierarchy analysis); unimportable modules excluded."""
        return [c for c in self.ix.subclasses(cls, include_self=True)
                if self.ix.find_method(c, "describe_state") is not None and not self._module_dead(c.path)]

    def _defined(self, modname: str) -> Set[str]:
        d = self._defs.get(modname)
        if d is None:
            tgt = self.ix.modules[modname]
            d = set(tgt.classes) | set(tgt.functions) | set(tgt.imports)
            for n in ast.walk(tgt.tree):
                if isinstance(n, (ast.Assign, ast.AnnAssign)):
                    for t in (n.targets if isinstance(n, ast.Assign) else [n.target]):
                        if isinstance(t, ast.Name):
                            d.add(t.id)
            self._defs[modname] = d
        return d

    def _module_dead(self, path: str) -> bool:
        """Same criterion as Index.dead_modules (a `from repo_module import name` of a name that module does not
        define, outside TYPE_CHECKING), evaluated for one module with the per-target name sets cached."""
        if path in self._dead:
            return self._dead[path]
        mi = self.ix.by_path[path]
        skip: Set[int] = set()
        for n in ast.walk(mi.tree):
            if isinstance(n, ast.If) and "TYPE_CHECKING" in unparse(n.test):
                for sub in ast.walk(n):
                    skip.add(id(sub))
        dead = False
        for n in ast.walk(mi.tree):
            if id(n) in skip or not isinstance(n, ast.ImportFrom):
                continue
            if n.module and n.level == 0 and n.module in self.ix.modules:
                defined = self._defined(n.module)
                for a in n.names:
                    if a.name != "*" and a.name not in defined and f"{n.module}.{a.name}" not in self.ix.modules:
                        dead = True
        self._dead[path] = dead
        return dead

    def _name_of(self, c: ClassInfo) -> Optional[str]:
        """The literal a class stores as `kwargs["name"]` in the first __init__ along its MRO that sets it."""
        for k in self.ix.mro(c):
            init = k.methods.get("__init__")
            if init is None:
                continue
            for n in ast.walk(init.node):
                if isinstance(n, ast.Assign) and len(n.targets) == 1 and isinstance(n.targets[0], ast.Subscript) \
                        and unparse(n.targets[0].value) == "kwargs" and isinstance(n.targets[0].slice, ast.Constant) \
                        and n.targets[0].slice.value == "name" and isinstance(n.value, ast.Constant):
                    return n.value.value
        return None

    def root_items(self, cls: ClassInfo) -> List["Item"]:
        return [Item(tree=self.tree_of(c), path=(), cls=c) for c in self.cha(cls)]

    def deref(self, it: "Item", pending: Optional[Tuple[str, Any]] = None) -> List["Item"]:
        """Turn a leaf item into the dict nodes it may denote (Ref -> every subclass; Union -> parts; None dropped)."""
        if it.tree is not None:
            return [it]
        av = it.av
        if av.kind == "union":
            out: List[Item] = []
            for p in av.parts:
                out.extend(self.deref(Item(av=p, ev=it.ev, presence=it.presence), pending))
            return out
        if av.kind == "const" and av.lo is None:
            return []
        if av.kind == "ref":
            classes = self.cha(self.ix.classes[av.cls])
            if pending is not None and pending[0] == "name":
                named = [c for c in classes if self._name_of(c) == pending[1]]
                if named:
                    classes = named
            return [Item(tree=self.tree_of(c), path=(), cls=c, presence=it.presence) for c in classes]
        return [it]

    def step(self, items: List["Item"], key: KeyElem) -> Tuple[List["Item"], List[str]]:
        """Follow one key (('lit', v) or ('wild', text)) from every candidate; returns (found, labels of candidates
        that cannot have the key)."""
        found: List[Item] = []
        missing: List[str] = []
        for it0 in items:
            for it in self.deref(it0):
                if it.tree is None:
                    if it.av.kind == "opaque":
                        found.append(it)
                    else:
                        missing.append(f"{it.av.text()} is not a mapping")
                    continue
                kids = it.tree.children(it.path)
                target: Optional[KeyElem] = None
                pending = None
                if key[0] == "lit" and key in kids:
                    target = key
                else:
                    vars_ = [k for k in kids if k[0] == "var"]
                    if vars_:
                        target = vars_[0]
                        if len(vars_) > 1:
                            raise AnalysisError(f"describe_state of {it.cls.short}: several key families at {path_text(it.path)}")
                        if key[0] == "lit" and target[1].endswith(".name"):
                            pending = ("name", key[1])
                if target is None:
                    if it.tree.opaque:
                        found.append(Item(av=AV("opaque", why=it.tree.opaque)))
                    else:
                        missing.append(f"{it.cls.short}.describe_state() has no key {key[1]!r} at {path_text(it.path)}"
                                       if key[0] == "lit" else f"{it.cls.short}.describe_state() has fixed keys at {path_text(it.path)}")
                    continue
                q = it.path + (target,)
                evs = it.tree.at(q)
                # presence of the key inside its own record: loop membership ("the component exists") is not a condition
                pres = [frozenset(a for a in e.conds if not a[0].startswith("for ")) for e in evs]
                for e in evs:
                    if e.kind == "dict":
                        x = Item(tree=it.tree, path=q, cls=it.cls, presence=pres)
                        if not any(y.tree is x.tree and y.path == x.path for y in found):
                            found.append(x)
                    else:
                        av = self.av_of(e.expr, e.fn, e.self_cls)
                        leaf = Item(av=av, ev=e, presence=pres, owner=it.cls)
                        for d in (self.deref(leaf, pending) if pending else [leaf]):
                            found.append(d)
        return found, missing


@dataclass
class Item:
    tree: Optional[Tree] = None
    path: Path = ()
    cls: Optional[ClassInfo] = None
    av: Optional[AV] = None
    ev: Optional[Ev] = None
    presence: List[CondSet] = field(default_factory=list)
    owner: Optional[ClassInfo] = None

    def label(self) -> str:
        if self.tree is not None:
            return f"{self.cls.short}:{path_text(self.path)}"
        return self.av.text()


# ===================================================================================================== where templates
Seg = Tuple[str, Any]  # ('lit', value) | ('wild', expression text)
Template = Tuple[Seg, ...]

OBS_PKG = "primaite.game.agent.observations"
ROOT_CALL = "access_from_nested_dict"


def template_text(t: Optional[Template]) -> str:
    if t is None:
        return "None"
    return "[" + ", ".join(repr(v) if k == "lit" else f"<{v}>" for k, v in t) + "]"


class WhereModel:
    """`where` templates of every observation class, derived from the constructor call sites.

    A call `cls(where=E, ...)` inside `K.from_config` (or `K2(where=E)` anywhere in the observations package) gives K a
    template: the literal segments of the list expression E, with non-literal elements as wildcards.  `parent_where`
    is bound to each template the *caller's* parent passes (`X.from_config(..., parent_where=E2)`), and to `[]` for a
    top-level component; `if parent_where == []` / `if not parent_where` are decided for the concrete binding.
    """

    def __init__(self, ix: Index, obs_classes: List[ClassInfo]):
        self.ix = ix
        self.classes = {c.qualname: c for c in obs_classes}
        self.contexts: Dict[str, Set[Template]] = {q: {()} for q in self.classes}  # parent_where bindings
        self.templates: Dict[str, Set[Optional[Template]]] = {q: set() for q in self.classes}
        self.origin: Dict[Tuple[str, Optional[Template]], str] = {}
        for _ in range(8):
            before = (sum(len(v) for v in self.contexts.values()), sum(len(v) for v in self.templates.values()))
            for c in obs_classes:
                self._scan_class(c)
            after = (sum(len(v) for v in self.contexts.values()), sum(len(v) for v in self.templates.values()))
            if after == before:
                break
        else:
            raise AnalysisError("where templates of the observation classes do not reach a fixed point")

    # ---- list expressions
    def _seg(self, e: ast.AST) -> Seg:
        if isinstance(e, ast.Constant) and isinstance(e.value, (str, int)):
            return ("lit", e.value)
        return ("wild", unparse(e))

    def _ev(self, e: ast.AST, names: Dict[str, Set[Optional[Template]]], fn: FuncInfo) -> Set[Optional[Template]]:
        if isinstance(e, ast.Constant) and e.value is None:
            return {None}
        if isinstance(e, ast.List):
            return {tuple(self._seg(x) for x in e.elts)}
        if isinstance(e, ast.BinOp) and isinstance(e.op, ast.Add):
            ls, rs = self._ev(e.left, names, fn), self._ev(e.right, names, fn)
            return {a + b for a in ls for b in rs if a is not None and b is not None}
        t = unparse(e)
        if t in names:
            return set(names[t])
        raise AnalysisError(f"{fn.short}: where expression {t[:60]} is not a list built from literals, parent_where and self.where")

    def _empty_test(self, test: ast.AST, names: Dict[str, Set[Optional[Template]]]) -> Optional[bool]:
        """Value of a test on the emptiness of a bound list name, when every binding agrees."""
        pol = True
        while isinstance(test, ast.UnaryOp) and isinstance(test.op, ast.Not):
            test, pol = test.operand, not pol
        subj: Optional[str] = None
        truth_when_empty: Optional[bool] = None
        if isinstance(test, ast.Name) and test.id in names:
            subj, truth_when_empty = test.id, False
        elif isinstance(test, ast.Compare) and len(test.ops) == 1 and isinstance(test.left, ast.Name) and test.left.id in names:
            r = test.comparators[0]
            if isinstance(r, ast.List) and not r.elts and isinstance(test.ops[0], (ast.Eq, ast.NotEq)):
                subj, truth_when_empty = test.left.id, isinstance(test.ops[0], ast.Eq)
        if subj is None:
            return None
        vals = {(b is not None and len(b) == 0) for b in names[subj]}
        if len(vals) != 1:
            return None
        empty = vals.pop()
        res = truth_when_empty if empty else (not truth_when_empty)
        return res if pol else (not res)

    # ---- one function under one binding
    def _scan_fn(self, fn: FuncInfo, owner: ClassInfo, names: Dict[str, Set[Optional[Template]]]) -> None:
        def calls_of(node: ast.AST) -> None:
            for n in ast.walk(node):
                if not isinstance(n, ast.Call):
                    continue
                f = n.func
                target: Optional[ClassInfo] = None
                if isinstance(f, ast.Name) and f.id == "cls" and fn.name == "from_config":
                    target = owner
                elif isinstance(f, (ast.Name, ast.Attribute)) and not (isinstance(f, ast.Attribute) and f.attr == "from_config"):
                    k = self.ix._resolve_expr_to_class(f, fn.module, fn.cls)
                    if k is not None and k.qualname in self.classes:
                        target = k
                if target is not None:
                    init = self.ix.find_method(target, "__init__")
                    params = [a.arg for a in init.node.args.args[1:]] if init is not None else []
                    if "where" not in params:
                        continue
                    we = next((kw.value for kw in n.keywords if kw.arg == "where"), None)
                    if we is None and len(n.args) > params.index("where"):
                        we = n.args[params.index("where")]
                    if we is None:
                        raise AnalysisError(f"{fn.short}: {unparse(n)[:60]} constructs {target.short} without a where path")
                    for t in self._ev(we, names, fn):
                        targets = [target] if f is not None and not (isinstance(f, ast.Name) and f.id == "cls") else \
                            [c for c in self.ix.subclasses(owner, include_self=True) if c.qualname in self.classes
                             and self.ix.find_method(c, "from_config") is fn]
                        for tc in targets:
                            self.templates[tc.qualname].add(t)
                            self.origin.setdefault((tc.qualname, t), fn.short)
                    continue
                if isinstance(f, ast.Attribute) and f.attr == "from_config":
                    k = self.ix._resolve_expr_to_class(f.value, fn.module, fn.cls)
                    if k is None or k.qualname not in self.classes:
                        continue  # registry dispatch (obs_class.from_config(config=...)): top-level, parent_where = []
                    fc = self.ix.find_method(k, "from_config")
                    fparams = [a.arg for a in fc.node.args.args[1:]] if fc is not None else []
                    pe = next((kw.value for kw in n.keywords if kw.arg == "parent_where"), None)
                    if pe is None and "parent_where" in fparams and len(n.args) > fparams.index("parent_where"):
                        pe = n.args[fparams.index("parent_where")]
                    if pe is None:
                        continue
                    for t in self._ev(pe, names, fn):
                        if t is not None:
                            self.contexts[k.qualname].add(t)

        def block(stmts: Sequence[ast.stmt]) -> None:
            for s in stmts:
                if isinstance(s, ast.If):
                    v = self._empty_test(s.test, names)
                    calls_of(s.test)
                    if v is True:
                        block(s.body)
                    elif v is False:
                        block(s.orelse)
                    else:
                        snap = {k: set(x) for k, x in names.items()}
                        block(s.body)
                        after_body = {k: set(x) for k, x in names.items()}
                        names.clear()
                        names.update(snap)
                        block(s.orelse)
                        for k, x in after_body.items():
                            names.setdefault(k, set()).update(x)
                    continue
                if isinstance(s, (ast.For, ast.While)):
                    calls_of(s.iter if isinstance(s, ast.For) else s.test)
                    block(s.body)
                    block(s.orelse)
                    continue
                if isinstance(s, (ast.Assign, ast.AnnAssign)) and s.value is not None:
                    tgts = s.targets if isinstance(s, ast.Assign) else [s.target]
                    calls_of(s.value)
                    for t in tgts:
                        tt = unparse(t)
                        if isinstance(t, ast.Name) or tt == "self.where":
                            try:
                                names[tt] = self._ev(s.value, names, fn)
                            except AnalysisError:
                                names.pop(tt, None)
                    continue
                if isinstance(s, (ast.FunctionDef, ast.AsyncFunctionDef, ast.ClassDef)):
                    continue
                calls_of(s)

        block(fn.node.body)

    def _scan_class(self, c: ClassInfo) -> None:
        fc = c.methods.get("from_config")
        if fc is not None:
            users = [k for k in self.classes.values() if self.ix.find_method(k, "from_config") is fc]
            for u in users:
                for p in sorted(self.contexts[u.qualname], key=repr):
                    self._scan_fn(fc, u, {"parent_where": {p}})
        init = c.methods.get("__init__")
        if init is not None and "where" in [a.arg for a in init.node.args.args]:
            own = {t for t in self.templates[c.qualname] if t is not None}
            if own:
                self._scan_fn(init, c, {"where": set(own), "self.where": set(own)})
        elif init is not None:
            self._scan_fn(init, c, {})


# ===================================================================================================== intervals
Bound = Tuple[Optional[str], float]  # symbol (a non-negative configured size) + constant
INF = math.inf


def b_add(a: Bound, b: Bound) -> Optional[Bound]:
    if a[0] and b[0]:
        return None
    if math.isinf(a[1]) or math.isinf(b[1]):
        return (None, a[1] + b[1])
    return (a[0] or b[0], a[1] + b[1])


def b_le(a: Bound, b: Bound) -> Optional[bool]:
    """a <= b for every value >= 0 of the symbols: True / False (for the same symbol) / None (not comparable)."""
    if b[1] == INF or a[1] == -INF:
        return True
    if a[0] == b[0]:
        return a[1] <= b[1]
    if a[0] is None and b[0] is not None:
        return True if a[1] <= b[1] else None
    if a[1] == INF or b[1] == -INF:
        return False
    return None


def b_text(b: Bound) -> str:
    if b[0] is None:
        return "inf" if b[1] == INF else "-inf" if b[1] == -INF else f"{b[1]:g}"
    return b[0] if b[1] == 0 else f"{b[0]}{b[1]:+g}"


@dataclass
class Num:
    lo: Bound
    hi: Bound
    why: Tuple[str, ...] = ()  # what makes a bound infinite / where the value comes from
    unknown: Tuple[str, ...] = ()  # sub-expressions that could not be evaluated (the result is then not trustworthy)

    def text(self) -> str:
        return f"[{b_text(self.lo)}, {b_text(self.hi)}]"


def n_const(v: float) -> Num:
    return Num((None, float(v)), (None, float(v)))


def n_top(reason: str, unknown: bool = True) -> Num:
    return Num((None, -INF), (None, INF), (reason,), (reason,) if unknown else ())


def _bmin(a: Bound, b: Bound) -> Bound:
    if b_le(a, b):
        return a
    if b_le(b, a):
        return b
    return (None, min(a[1], b[1]) if a[0] is None and b[0] is None else -INF)


def _bmax(a: Bound, b: Bound) -> Bound:
    if b_le(a, b):
        return b
    if b_le(b, a):
        return a
    return (None, INF)


def n_hull(xs: Sequence[Num]) -> Optional[Num]:
    xs = [x for x in xs if x is not None]
    if not xs:
        return None
    lo, hi = xs[0].lo, xs[0].hi
    for x in xs[1:]:
        lo, hi = _bmin(lo, x.lo), _bmax(hi, x.hi)
    why = tuple(dict.fromkeys(w for x in xs for w in x.why))
    unk = tuple(dict.fromkeys(w for x in xs for w in x.unknown))
    return Num(lo, hi, why, unk)


def av_num(av: AV) -> Optional[Num]:
    """Interval of an abstract state value; None for a value that contributes nothing (None)."""
    if av.kind == "enum":
        return Num((None, float(av.lo)), (None, float(av.hi)), (f"{av.cls} {av.lo}..{av.hi}",))
    if av.kind == "bool":
        return Num((None, 0.0), (None, 1.0))
    if av.kind == "count":
        return Num((None, 0.0), (None, INF), (f"unbounded counter {av.why}",))
    if av.kind == "real":
        return Num((None, 0.0), (None, INF), (f"unbounded real {av.why}",))
    if av.kind == "const":
        if av.lo is None:
            return None
        if isinstance(av.lo, (int, float)):
            return n_const(av.lo)
        return n_top(f"non-numeric constant {av.lo!r}")
    if av.kind == "union":
        return n_hull([av_num(p) for p in av.parts])
    if av.kind == "str":
        return Num((None, -INF), (None, INF), (f"string {av.why}",), ())
    return n_top(f"opaque state value {av.why}")


# ===================================================================================================== observation model
@dataclass
class Read:
    steps: Tuple[Tuple[str, Any, bool], ...]  # (lit|wild, key, has_default)
    conds: CondSet
    fn: FuncInfo
    lineno: int
    text: str

    def key_text(self) -> str:
        return "".join(f"[{k!r}]" if t == "lit" else "[*]" for t, k, _ in self.steps)


class ObsClassModel:
    def __init__(self, om: "ObsModel", cls: ClassInfo):
        self.om, self.ix, self.cls = om, om.ix, cls
        self.pseudos: Dict[str, Pseudo] = om.pseudos
        self.init_fn = self.ix.find_method(cls, "__init__")
        self.space_fn = cls.methods.get("space")
        self.observe_fn = cls.methods.get("observe")
        self.attr_trees: Dict[str, Tree] = {}
        self.attr_values: Dict[str, List[Tuple[CondSet, Optional[ast.AST], FuncInfo]]] = {}
        self.len_alias: Dict[str, str] = {}
        self.reads: List[Read] = []
        self._read_keys: Set[Tuple] = set()
        self.init_b = self._run(self.init_fn, alias_params=True) if self.init_fn is not None and self.init_fn.cls is not None \
            and self.init_fn.cls.qualname.startswith(OBS_PKG) else None
        if self.init_b is not None:
            for name, t in self.init_b.trees.items():
                if name.startswith("self."):
                    self.attr_trees[name] = t
            for name, conds, val, stmt in self.init_b.attr_stores:
                self.attr_values.setdefault(name, []).append((conds, val, self.init_fn))
                if isinstance(val, ast.DictComp) and len(val.generators) == 1:
                    it = val.generators[0].iter
                    if isinstance(it, ast.Call) and isinstance(it.func, ast.Name) and it.func.id == "enumerate" and it.args:
                        it = it.args[0]
                    self.len_alias[f"len({unparse(it)})"] = f"len({name})"
        self.default_tree = self.attr_trees.get("self.default_observation")
        self.default_leaf: Optional[ast.AST] = None
        if self.default_tree is None:
            for conds, val, _ in self.attr_values.get("self.default_observation", []):
                self.default_leaf = val
        self.space_b = self._run(self.space_fn) if self.space_fn is not None and not self.space_fn.is_abstract else None
        self.observe_b = self._run(self.observe_fn, collect_reads=True) if self.observe_fn is not None and not self.observe_fn.is_abstract else None
        if self.observe_b is not None:
            for name, conds, val, stmt in self.observe_b.attr_stores:
                self.attr_values.setdefault(name, []).append((conds, val, self.observe_fn))

    # ---- running the builder on a method of the class
    def _run(self, fn: FuncInfo, alias_params: bool = False, collect_reads: bool = False, env: Optional[Dict[str, ast.AST]] = None,
             depth: int = 0) -> DictBuilder:
        b = DictBuilder(self.ix, fn, self.cls, attr_trees=self.attr_trees, call_resolver=self._resolve,
                        on_expr=self._on_expr if collect_reads else None, pseudos=self.pseudos, alias_params=alias_params, depth=depth)
        for k, v in (env or {}).items():
            b.env[k] = [(EMPTY, v)]
        return b.run()

    def helper(self, call: ast.Call) -> Optional[FuncInfo]:
        f = call.func
        if isinstance(f, ast.Attribute) and isinstance(f.value, ast.Name) and f.value.id == "self":
            m = self.ix.find_method(self.cls, f.attr)
            if m is not None and not m.is_property and m.name not in ("observe", "__init__", "from_config"):
                return m
        return None

    def bind_args(self, m: FuncInfo, sub: ast.Call) -> Dict[str, ast.AST]:
        params = [a.arg for a in m.node.args.args[1:]]
        env: Dict[str, ast.AST] = {}
        for p, a in zip(params, sub.args):
            env[p] = a
        for kw in sub.keywords:
            if kw.arg in params:
                env[kw.arg] = kw.value
        defaults = m.node.args.defaults
        for p, d in zip(params[len(params) - len(defaults):], defaults):
            env.setdefault(p, d)
        return env

    def _resolve(self, raw: ast.Call, sub: ast.Call, b: DictBuilder) -> Optional[Val]:
        m = self.helper(raw)
        if m is None or m is b.fn:
            return None
        hb = self._run(m, env=self.bind_args(m, sub), depth=b.depth + 1)
        if hb.outcomes and all(o.val.kind in ("dict", "tree") for o in hb.outcomes):
            return Val("tree", tree=merged_tree(hb.outcomes, m, hb), raw=raw)
        return None

    # ---- state reads
    def _on_expr(self, raw: ast.AST, sub: ast.AST, conds: CondSet, b: DictBuilder) -> None:
        self._collect(sub, conds, b, getattr(raw, "lineno", 0))

    def _chain(self, e: ast.AST) -> List[Optional[Tuple[Tuple[str, Any, bool], ...]]]:
        """Alternatives of `e` as key chains rooted at the component state (None: not a state value)."""
        if isinstance(e, ast.Call):
            if call_name(e) == ROOT_CALL:
                return [()]
            f = e.func
            if isinstance(f, ast.Name) and f.id == "dict" and len(e.args) == 1 and not e.keywords:
                x = e.args[0]
                if isinstance(x, ast.Call) and isinstance(x.func, ast.Attribute) and x.func.attr == "items" and not x.args:
                    x = x.func.value
                return self._chain(x)
            if isinstance(f, ast.Attribute) and f.attr == "get" and 1 <= len(e.args) <= 2:
                out = []
                for c in self._chain(f.value):
                    out.append(None if c is None else c + (self._key(e.args[0], True),))
                if len(e.args) == 2:
                    out.extend(self._chain(e.args[1]))
                return out
            return [None]
        if isinstance(e, ast.Subscript):
            return [None if c is None else c + (self._key(e.slice, False),) for c in self._chain(e.value)]
        if isinstance(e, ast.IfExp):
            return self._chain(e.body) + self._chain(e.orelse)
        if isinstance(e, ast.Name) and e.id == UNDEF:
            return []
        return [None]

    @staticmethod
    def _key(k: ast.AST, dflt: bool) -> Tuple[str, Any, bool]:
        if isinstance(k, ast.Constant):
            return ("lit", k.value, dflt)
        return ("wild", unparse(k), dflt)

    def _collect(self, e: ast.AST, conds: CondSet, b: DictBuilder, lineno: int) -> None:
        if isinstance(e, (ast.Subscript, ast.Call)):
            chains = [c for c in self._chain(e) if c]
            if chains:
                for c in chains:
                    k = (c, b.fn.qualname)
                    if k not in self._read_keys:
                        self._read_keys.add(k)
                        self.reads.append(Read(c, conds, b.fn, lineno, unparse(e)[:90]))
                # keys, defaults and non-state alternatives may contain further reads
                self._collect_keys(e, conds, b, lineno)
                return
            if isinstance(e, ast.Call):
                m = self.helper(e)
                if m is not None and m is not b.fn and b.depth < DictBuilder.MAX_DEPTH:
                    hk = ("helper", m.qualname, unparse(e))
                    if hk not in self._read_keys:
                        self._read_keys.add(hk)
                        self._run(m, collect_reads=True, env=self.bind_args(m, e), depth=b.depth + 1)
        if isinstance(e, ast.IfExp) and getattr(e.test, "_conds", None) is not None:
            self._collect(e.body, conds | e.test._conds, b, lineno)
            self._collect(e.orelse, conds, b, lineno)
            return
        for ch in ast.iter_child_nodes(e):
            if isinstance(ch, ast.Lambda):
                continue
            self._collect(ch, conds, b, lineno)

    def _collect_keys(self, e: ast.AST, conds: CondSet, b: DictBuilder, lineno: int) -> None:
        if isinstance(e, ast.Subscript):
            self._collect(e.slice, conds, b, lineno)
            self._collect_keys(e.value, conds, b, lineno)
        elif isinstance(e, ast.Call) and isinstance(e.func, ast.Attribute) and e.func.attr == "get":
            for a in e.args:
                if not [c for c in self._chain(a) if c]:
                    self._collect(a, conds, b, lineno)
            self._collect_keys(e.func.value, conds, b, lineno)
        elif isinstance(e, ast.IfExp):
            self._collect_keys(e.body, conds, b, lineno)
            self._collect_keys(e.orelse, conds, b, lineno)
        elif isinstance(e, ast.Call) and isinstance(e.func, ast.Name) and e.func.id == "dict":
            for a in e.args:
                self._collect_keys(a, conds, b, lineno)

    # ---- views
    def space_tree(self) -> Optional[Tree]:
        if self.space_b is None:
            return None
        return merged_tree(self.space_b.outcomes, self.space_fn, self.space_b)

    def observe_outcomes(self) -> List[Tuple[Outcome, Tree, bool]]:
        """(outcome, tree of the returned value, is it the stored default returned as it is)."""
        out = []
        if self.observe_b is None:
            return out
        for o in self.observe_b.outcomes:
            is_default = isinstance(o.stmt, ast.Return) and o.stmt.value is not None and unparse(o.stmt.value) == "self.default_observation"
            t = Tree()
            self.observe_b._store(t, (), o.val, EMPTY, False)
            # conditions under which this very return executes hold for everything it returns: an `else:` arm and a guard
            # clause followed by the same statements are the same view
            if o.conds:
                t.events = [dataclasses.replace(e, conds=frozenset(e.conds - o.conds)) if (e.conds & o.conds) else e for e in t.events]
            out.append((o, t, is_default))
        return out

    def default_view(self) -> Optional[Tree]:
        if self.default_tree is not None:
            return self.default_tree
        if self.default_leaf is not None:
            t = Tree()
            t.add(Ev((), EMPTY, "leaf", self.default_leaf, self.default_leaf, self.init_fn, self.cls))
            return t
        return None


class ObsModel:
    """All observation classes against the state schema."""

    def __init__(self, ix: Index):
        self.ix = ix
        self.schema = SchemaModel(ix)
        self.pseudos: Dict[str, Pseudo] = {}
        self.base = ix.cls("AbstractObservation")
        self.classes = [c for c in ix.subclasses(self.base) if c.module.name.startswith(OBS_PKG)]
        self.models: Dict[str, ObsClassModel] = {c.qualname: ObsClassModel(self, c) for c in self.classes}
        self.where = WhereModel(ix, self.classes)
        self.root_cls = self._root_class()
        self._comp: Dict[str, "Component"] = {}

    def model(self, name: str) -> ObsClassModel:
        return self.models[self.ix.cls(name).qualname]

    def _root_class(self) -> ClassInfo:
        """The class whose describe_state() is handed to observe(): the type of what PrimaiteGame.get_sim_state returns."""
        fn = self.ix.method("PrimaiteGame.get_sim_state")
        for n in ast.walk(fn.node):
            if isinstance(n, ast.Return) and isinstance(n.value, ast.Call) and call_name(n.value) == "describe_state":
                recv = n.value.func.value
                if isinstance(recv, ast.Attribute) and unparse(recv.value) == "self":
                    c, sh = self.ix.attr_type(fn.cls, recv.attr)
                    if c is not None and sh == "scalar":
                        return c
        raise AnalysisError("PrimaiteGame.get_sim_state does not return <typed attribute>.describe_state()")

    def resolve_template(self, t: Template) -> Tuple[List[Item], List[str]]:
        items = self.schema.root_items(self.root_cls)
        for k, v in t:
            items, missing = self.schema.step(items, (k, v))
            if not items:
                return [], missing
        out: List[Item] = []
        for it in items:
            out.extend(self.schema.deref(it))
        return out, []

    def component(self, cls: ClassInfo) -> "Component":
        q = cls.qualname
        if q in self._comp:
            return self._comp[q]
        comp = Component(cls)
        for t in sorted(self.where.templates[q], key=repr):
            if t is None:
                comp.absent_sites += 1
                continue
            items, missing = self.resolve_template(t)
            if items:
                comp.resolved.append((t, items))
            else:
                comp.unresolved.append((t, missing))
        self._comp[q] = comp
        return comp


@dataclass
class Component:
    cls: ClassInfo
    resolved: List[Tuple[Template, List[Item]]] = field(default_factory=list)
    unresolved: List[Tuple[Template, List[str]]] = field(default_factory=list)
    absent_sites: int = 0

    def items(self) -> List[Item]:
        out: List[Item] = []
        for _, its in self.resolved:
            for it in its:
                if not any(it.tree is o.tree and it.path == o.path and it.av == o.av for o in out):
                    out.append(it)
        return out

    def classes(self) -> List[str]:
        return sorted({it.cls.short for it in self.items() if it.cls is not None})


# ===================================================================================================== leaf evaluation
class Interp:
    """Interval evaluation of a (substituted) leaf expression of one observation class."""

    def __init__(self, om: ObsModel, m: ObsClassModel):
        self.om, self.m, self.ix, self.schema = om, m, om.ix, om.schema
        self.comp_items = om.component(m.cls).items()
        self._attr_busy: Set[str] = set()
        self.depth = 0
        self.init_only = False

    # value atoms: ('num', Num) | ('state', [Item]) | ('tree', Tree, Path) | ('dict', ast.Dict) | ('none',) | ('str',)
    def ev(self, e: ast.AST, env: Optional[Dict[str, List[tuple]]] = None) -> List[tuple]:
        env = env or {}
        if isinstance(e, ast.Constant):
            if e.value is None:
                return [("none",)]
            if isinstance(e.value, (bool, int, float)):
                return [("num", n_const(float(e.value)))]
            return [("str",)]
        if isinstance(e, ast.Name):
            if e.id == UNDEF:
                return []
            if e.id in env:
                return env[e.id]
            if e.id.startswith("<ann:"):
                return [("num", Num((None, 0.0), (None, INF), (f"parameter annotated {e.id[5:-1]}",)))]
            if is_pseudo(e.id):
                p = self.m.pseudos.get(e.id)
                if p is not None and p.role == "i":
                    if p.how == "range" and isinstance(p.source, ast.Call) and p.source.args:
                        n = self.num(p.source.args[0], env)
                        hi = b_add(n.hi, (None, -1.0)) if n is not None else None
                        return [("num", Num((None, 0.0), hi if hi is not None else (None, INF), (), n.unknown if n else ("range",)))]
                    sym = f"len({unparse(p.source)})"
                    sym = self.m.len_alias.get(sym, sym)
                    return [("num", Num((None, 0.0), (sym, -1.0)))]
            return [("num", n_top(f"name {e.id}"))]
        if isinstance(e, ast.IfExp):
            return self.ev(e.body, env) + self.ev(e.orelse, env)
        if isinstance(e, ast.Dict):
            return [("dict", e)]
        if isinstance(e, (ast.Compare, ast.BoolOp)) or (isinstance(e, ast.UnaryOp) and isinstance(e.op, ast.Not)):
            return [("num", Num((None, 0.0), (None, 1.0)))]
        if isinstance(e, ast.JoinedStr):
            return [("str",)]
        if isinstance(e, ast.UnaryOp) and isinstance(e.op, ast.USub):
            n = self.num(e.operand, env)
            if n is None or n.lo[0] or n.hi[0]:
                return [("num", n_top(unparse(e)[:40]))]
            return [("num", Num((None, -n.hi[1]), (None, -n.lo[1]), n.why, n.unknown))]
        if isinstance(e, ast.BinOp):
            return [("num", self._binop(e, env))]
        if isinstance(e, ast.Subscript):
            return self._subscript(self.ev(e.value, env), e.slice, env)
        if isinstance(e, ast.Attribute):
            return self._attribute(e, env)
        if isinstance(e, ast.Call):
            return self._call(e, env)
        return [("num", n_top(unparse(e)[:40]))]

    def num(self, e: ast.AST, env=None) -> Optional[Num]:
        return self.to_num(self.ev(e, env))

    def to_num(self, atoms: List[tuple]) -> Optional[Num]:
        nums: List[Optional[Num]] = []
        for a in atoms:
            if a[0] == "num":
                nums.append(a[1])
            elif a[0] == "state":
                for it in a[1]:
                    if it.tree is not None:
                        nums.append(n_top(f"mapping {it.label()} used as a number"))
                    else:
                        nums.append(av_num(it.av))
            elif a[0] == "tree":
                t, p = a[1], a[2]
                evs = t.at(p)
                for ev in evs:
                    if ev.kind == "leaf":
                        nums.append(self.num(ev.expr))
                    else:
                        nums.append(n_top("dict used as a number"))
            elif a[0] == "none":
                continue
            elif a[0] == "str":
                nums.append(Num((None, -INF), (None, INF), ("string",), ()))
            else:
                nums.append(n_top("dict used as a number"))
        return n_hull(nums)

    def _binop(self, e: ast.BinOp, env) -> Num:
        a, b = self.num(e.left, env), self.num(e.right, env)
        if a is None or b is None:
            return n_top(unparse(e)[:40])
        why = tuple(dict.fromkeys(a.why + b.why))
        unk = tuple(dict.fromkeys(a.unknown + b.unknown))
        if isinstance(e.op, ast.Add):
            lo, hi = b_add(a.lo, b.lo), b_add(a.hi, b.hi)
        elif isinstance(e.op, ast.Sub):
            nb_lo, nb_hi = (b.hi[0], -b.hi[1]), (b.lo[0], -b.lo[1])
            if b.lo[0] or b.hi[0]:
                return Num((None, -INF), (None, INF), why, unk + (unparse(e)[:40],))
            lo, hi = b_add(a.lo, nb_lo), b_add(a.hi, nb_hi)
        elif isinstance(e.op, ast.Mult):
            if any(x[0] for x in (a.lo, a.hi, b.lo, b.hi)):
                return Num((None, -INF), (None, INF), why, unk + (unparse(e)[:40],))
            ps = []
            for x in (a.lo[1], a.hi[1]):
                for y in (b.lo[1], b.hi[1]):
                    ps.append(0.0 if (x == 0 or y == 0) else x * y)
            lo, hi = (None, min(ps)), (None, max(ps))
        elif isinstance(e.op, (ast.Div, ast.FloorDiv)):
            if any(x[0] for x in (a.lo, a.hi, b.lo, b.hi)):
                return Num((None, -INF), (None, INF), why, unk + (unparse(e)[:40],))
            if a.lo[1] >= 0 and b.lo[1] >= 0:
                hi_v = INF if (b.lo[1] == 0 or a.hi[1] == INF) else a.hi[1] / b.lo[1]
                lo_v = 0.0 if b.hi[1] == INF else a.lo[1] / b.hi[1]
                lo, hi = (None, lo_v), (None, hi_v)
            else:
                lo, hi = (None, -INF), (None, INF)
        else:
            return n_top(unparse(e)[:40])
        return Num(lo if lo is not None else (None, -INF), hi if hi is not None else (None, INF), why, unk)

    def _subscript(self, atoms: List[tuple], k: ast.AST, env) -> List[tuple]:
        out: List[tuple] = []
        key: KeyElem = ("lit", k.value) if isinstance(k, ast.Constant) else ("wild", unparse(k))
        for a in atoms:
            if a[0] == "state":
                found, _ = self.schema.step(a[1], key)
                out.append(("state", found) if found else ("num", n_top(f"state key {key[1]!r} not in the schema")))
            elif a[0] == "dict":
                d: ast.Dict = a[1]
                hit = False
                for dk, dv in zip(d.keys, d.values):
                    if dk is None:
                        continue
                    if key[0] == "wild" or (isinstance(dk, ast.Constant) and dk.value == key[1]):
                        out.extend(self.ev(dv, env))
                        hit = True
                if not hit:
                    out.append(("num", n_top(f"key {key[1]!r} not in dict literal")))
            elif a[0] == "tree":
                t, p = a[1], a[2]
                kids = t.children(p)
                sel = [c for c in kids if c == key] if key[0] == "lit" and key in kids else [c for c in kids if c[0] == "var" or key[0] == "wild"]
                if not sel:
                    out.append(("num", n_top(f"key {key[1]!r} not in {path_text(p)}")))
                for c in sel:
                    out.append(("tree", t, p + (c,)))
            elif a[0] == "none":
                continue
            else:
                out.append(("num", n_top(f"subscript of a non-mapping ({unparse(k)[:30]})")))
        return out

    def _attribute(self, e: ast.Attribute, env) -> List[tuple]:
        name = unparse(e)
        if isinstance(e.value, ast.Name) and e.value.id == "self":
            if name in self.m.attr_trees:
                return [("tree", self.m.attr_trees[name], ())]
            vals = self.m.attr_values.get(name)
            if vals and self.init_only:  # sizes of the declared space: what __init__ fixed (R2.4 checks nobody else writes)
                vals = [v for v in vals if v[2] is self.m.init_fn] or vals
            if vals and name not in self._attr_busy:
                self._attr_busy.add(name)
                try:
                    ns = []
                    for conds, v, fn in vals:
                        if v is None:
                            ns.append(n_top(f"{name} is accumulated"))
                            continue
                        if fn is self.m.init_fn and isinstance(v, ast.Name) and not is_pseudo(v.id):
                            ns.append(Num((name, 0.0), (name, 0.0)))  # a constructor parameter: a configured size
                            continue
                        n = self.num(v)
                        ns.append(n if n is not None else None)
                    h = n_hull(ns)
                    if h is not None and not h.unknown:
                        return [("num", h)]
                    return [("num", Num((name, 0.0), (name, 0.0)))] if len(vals) == 1 else [("num", n_top(name))]
                finally:
                    self._attr_busy.discard(name)
            fld = self.ix.find_field(self.m.cls, e.attr)
            if fld is not None and fld[1].default is not None and isinstance(fld[1].default, ast.Constant):
                return self.ev(fld[1].default)
            return [("num", Num((name, 0.0), (name, 0.0)))]
        return [("num", n_top(name[:40]))]

    def _call(self, e: ast.Call, env) -> List[tuple]:
        f = e.func
        nm = call_name(e)
        if nm == ROOT_CALL:
            return [("state", self.comp_items)]
        if isinstance(f, ast.Name):
            if f.id == "dict" and len(e.args) == 1:
                x = e.args[0]
                if isinstance(x, ast.Call) and isinstance(x.func, ast.Attribute) and x.func.attr == "items":
                    x = x.func.value
                return self.ev(x, env)
            if f.id in ("min", "max") and len(e.args) >= 2 and not e.keywords:
                ns = [self.num(a, env) for a in e.args]
                if any(n is None for n in ns):
                    return [("num", n_top(unparse(e)[:40]))]
                lo, hi = ns[0].lo, ns[0].hi
                for n in ns[1:]:
                    if f.id == "min":
                        lo, hi = _bmin(lo, n.lo), (_bmin(hi, n.hi) if (b_le(hi, n.hi) is not None or b_le(n.hi, hi) is not None) else
                                                   (hi if hi[1] != INF else n.hi))
                    else:
                        lo, hi = _bmax(lo, n.lo), _bmax(hi, n.hi)
                why = tuple(dict.fromkeys(w for n in ns for w in n.why)) if hi[1] == INF or lo[1] == -INF else ()
                unk = tuple(dict.fromkeys(w for n in ns for w in n.unknown)) if hi[1] == INF or lo[1] == -INF else ()
                return [("num", Num(lo, hi, why, unk))]
            if f.id == "len" and len(e.args) == 1:
                sym = f"len({unparse(e.args[0])})"
                atoms = self.ev(e.args[0], env)
                if any(a[0] == "state" for a in atoms):
                    return [("num", Num((None, 0.0), (None, INF), (f"length of state value {unparse(e.args[0])[:40]}",)))]
                sym = self.m.len_alias.get(sym, sym)
                return [("num", Num((sym, 0.0), (sym, 0.0)))]
            if f.id in ("int", "float", "round", "abs") and len(e.args) == 1:
                n = self.num(e.args[0], env)
                if n is None:
                    return [("num", n_top(unparse(e)[:40]))]
                if f.id == "abs":
                    return [("num", Num((None, 0.0), (None, INF) if n.lo[1] == -INF else n.hi, n.why, n.unknown))]
                if f.id == "int":
                    lo = n.lo if n.lo[0] or math.isinf(n.lo[1]) else (None, float(math.floor(n.lo[1])) if n.lo[1] >= 0 else float(math.ceil(n.lo[1])))
                    hi = n.hi if n.hi[0] or math.isinf(n.hi[1]) else (None, float(math.floor(n.hi[1])) if n.hi[1] >= 0 else float(math.ceil(n.hi[1])))
                    return [("num", Num(lo, hi, n.why, n.unknown))]
                return [("num", n)]
            if f.id == "bool":
                return [("num", Num((None, 0.0), (None, 1.0)))]
            if f.id == "str":
                return [("str",)]
        if isinstance(f, ast.Attribute) and f.attr in ("ceil", "floor", "trunc") and isinstance(f.value, ast.Name) \
                and f.value.id in ("math", "np", "numpy") and len(e.args) == 1:
            n = self.num(e.args[0], env)
            if n is None:
                return [("num", n_top(unparse(e)[:40]))]
            rnd = {"ceil": math.ceil, "floor": math.floor, "trunc": math.trunc}[f.attr]
            lo = n.lo if n.lo[0] or math.isinf(n.lo[1]) else (None, float(rnd(n.lo[1])))
            hi = n.hi if n.hi[0] or math.isinf(n.hi[1]) else (None, float(rnd(n.hi[1])))
            return [("num", Num(lo, hi, n.why, n.unknown))]
        if isinstance(f, ast.Attribute) and f.attr == "get" and 1 <= len(e.args) <= 2:
            out = self._subscript(self.ev(f.value, env), e.args[0], env)
            out = [a for a in out if not (a[0] == "num" and a[1].unknown and "not in" in a[1].unknown[0])] or out
            out.extend(self.ev(e.args[1], env) if len(e.args) == 2 else [("none",)])
            return out
        m = self.m.helper(e)
        if m is not None and self.depth < 4:
            return [("num", self._helper(m, e, env))]
        return [("num", n_top(unparse(e)[:50]))]

    def _helper(self, m: FuncInfo, call: ast.Call, env) -> Num:
        """Hull of what a helper method can return, with its parameters bound to the (substituted) arguments."""
        bound = self.m.bind_args(m, call)
        anns = {a.arg: a.annotation for a in m.node.args.args}
        for p, a in list(bound.items()):
            n = self.num(a, env)
            ann = unparse(_strip_optional(anns.get(p))) if anns.get(p) is not None else ""
            if (n is None or n.unknown) and ann in ("int", "float") and not any(x[0] in ("state", "tree", "dict") and
                                                                               self._is_mapping(x) for x in self.ev(a, env)):
                # an opaque state value handed to a parameter annotated int/float is taken at the annotation's word
                bound[p] = ast.Name(id=f"<ann:{ann}>", ctx=ast.Load())
        hb = self.m._run(m, env=bound, depth=1)
        self.depth += 1
        try:
            outs = []
            for o in hb.outcomes:
                if o.val.kind != "leaf":
                    outs.append(n_top(f"{m.name} returns a dict"))
                else:
                    n = self.num(o.val.expr, env)
                    if n is not None:
                        outs.append(n)
            if not hb.outcomes:
                outs.append(n_top(f"{m.name} has no return"))
        finally:
            self.depth -= 1
        h = n_hull(outs)
        return h if h is not None else n_top(m.name)

    @staticmethod
    def _is_mapping(atom: tuple) -> bool:
        if atom[0] == "state":
            return any(it.tree is not None for it in atom[1])
        return atom[0] in ("dict",)


def discrete_n(e: ast.AST) -> Optional[ast.AST]:
    """`spaces.Discrete(n)` -> n."""
    if isinstance(e, ast.Call) and call_name(e) == "Discrete" and len(e.args) == 1 and not e.keywords:
        return e.args[0]
    return None


# ===================================================================================================== C09 helpers
def alternatives(e: ast.AST, base: CondSet = EMPTY) -> List[Tuple[CondSet, ast.AST]]:
    """Top-level selection structure of a (substituted) expression: [(condition, atomic expression)]."""
    if isinstance(e, ast.IfExp):
        out: List[Tuple[CondSet, ast.AST]] = []
        for c in dnf(e.test, True):
            if _consistent(base | c):
                out.extend(alternatives(e.body, base | c))
        for c in dnf(e.test, False):
            if _consistent(base | c):
                out.extend(alternatives(e.orelse, base | c))
        return out
    if isinstance(e, ast.Name) and e.id == UNDEF:
        return []
    return [(base, e)]


def chains_in(m: ObsClassModel, e: ast.AST, depth: int = 0) -> List[Tuple[Tuple[str, Any, bool], ...]]:
    """Every maximal state-read chain inside `e`, following self.helper(...) calls into the helper's returns."""
    out: List[Tuple[Tuple[str, Any, bool], ...]] = []

    def visit(x: ast.AST) -> None:
        if isinstance(x, (ast.Subscript, ast.Call)):
            cs = [c for c in m._chain(x) if c]
            if cs:
                for c in cs:
                    if c not in out:
                        out.append(c)
                # keys / defaults
                y = x
                while True:
                    if isinstance(y, ast.Subscript):
                        visit(y.slice)
                        y = y.value
                    elif isinstance(y, ast.Call) and isinstance(y.func, ast.Attribute) and y.func.attr == "get":
                        for a in y.args:
                            if not [c for c in m._chain(a) if c]:
                                visit(a)
                        y = y.func.value
                    elif isinstance(y, ast.IfExp):
                        visit(y.body)
                        visit(y.orelse)
                        break
                    else:
                        break
                return
            if isinstance(x, ast.Call):
                h = m.helper(x)
                if h is not None and depth < 3:
                    hb = m._run(h, env=m.bind_args(h, x), depth=1)
                    for o in hb.outcomes:
                        if o.val.kind == "leaf":
                            for c in chains_in(m, o.val.expr, depth + 1):
                                if c not in out:
                                    out.append(c)
        for ch in ast.iter_child_nodes(x):
            if not isinstance(ch, ast.Lambda):
                visit(ch)

    visit(e)
    return out


def walk_chain(om: ObsModel, items: List[Item], chain: Sequence[Tuple[str, Any, bool]]
               ) -> Tuple[List[Item], Optional[Tuple[int, List[str]]], bool, List[Tuple[int, DNF]]]:
    """Follow a read chain through the schema: (items reached, (failing step index, reasons) or None, went opaque,
    [(step index, presence condition) for keys that describe_state emits only conditionally])."""
    cur = items
    opaque = False
    conditional: List[Tuple[int, DNF]] = []
    for idx, (kind, key, dflt) in enumerate(chain):
        found, missing = om.schema.step(cur, ("lit", key) if kind == "lit" else ("wild", key))
        if any(it.tree is None and it.av.kind == "opaque" for it in found):
            opaque = True
        if kind == "lit" and ((missing and not dflt) or (not found)):
            if not (opaque and found):
                return found, (idx, missing or [f"no candidate produces key {key!r}"]), opaque, conditional
        if not found:
            return [], (idx, missing or [f"nothing to index with {key!r}"]), opaque, conditional
        if kind == "lit" and not dflt:
            pres = [c for it in found for c in it.presence]
            if pres and EMPTY not in pres and not any(it.presence == [] for it in found if it.tree is None and it.av.kind == "opaque" and it.ev is None):
                conditional.append((idx, pres))
        cur = found
    return cur, None, opaque, conditional


def producer_fields(om: ObsModel, it: Item) -> List[Tuple[str, str]]:
    """(declaring class, attribute) pairs a schema leaf is computed from (`self.<attr>...` in the producer expression)."""
    out: List[Tuple[str, str]] = []
    if it.ev is None or it.ev.expr is None:
        return out
    for n in ast.walk(it.ev.expr):
        if isinstance(n, ast.Attribute) and isinstance(n.value, ast.Name) and n.value.id == "self":
            cls = it.ev.self_cls
            decl = None
            if cls is not None:
                f = om.ix.find_field(cls, n.attr)
                if f is not None:
                    decl = f[0].short
                else:
                    for k in om.ix.mro(cls):
                        if n.attr in k.methods:
                            decl = k.short
                            break
                        init = k.methods.get("__init__")
                        if init is not None and any(isinstance(s, ast.Attribute) and s.attr == n.attr and isinstance(s.ctx, ast.Store)
                                                    and isinstance(s.value, ast.Name) and s.value.id == "self" for s in ast.walk(init.node)):
                            decl = k.short
                            break
            pair = (decl or (it.ev.fn.cls.short if it.ev.fn and it.ev.fn.cls else "?"), n.attr)
            if pair not in out:
                out.append(pair)
    return out
