"""E3 - whole-repo inventories: stores to a named attribute, call sites of a named method."""
from __future__ import annotations

import ast
from dataclasses import dataclass
from typing import Dict, Iterable, Iterator, List, Optional, Tuple

from .astutil import FUNC_NODES, MUTATING_METHODS, SCOPE_NODES, attr_chain, call_name, store_targets, unparse
from .index import ClassInfo, FuncInfo, Index
from .types import func_types


@dataclass
class StoreSite:
    fn: Optional[FuncInfo]  # None for module/class level
    path: str
    node: ast.AST  # statement or call
    recv: Optional[ast.AST]  # receiver expression x in x.attr = ...
    attr: str
    kind: str  # assign | aug | ann | del | item | itemdel | mutcall:<m>
    value: Optional[ast.AST]
    in_lambda: bool = False

    @property
    def lineno(self) -> int:
        return getattr(self.node, "lineno", 0)

    @property
    def where(self) -> str:
        return f"{self.path}:{self.lineno}"

    @property
    def owner(self) -> str:
        return self.fn.short if self.fn else "<module>"


@dataclass
class CallSite:
    fn: Optional[FuncInfo]
    path: str
    call: ast.Call
    in_lambda: bool
    lam: Optional[ast.Lambda] = None

    @property
    def where(self) -> str:
        return f"{self.path}:{self.call.lineno}"

    @property
    def owner(self) -> str:
        return self.fn.short if self.fn else "<module>"


def own_nodes(fn_node: ast.AST) -> Iterator[Tuple[ast.AST, Optional[ast.Lambda]]]:
    """Nodes belonging to a function: its body without nested defs/classes, but *including* lambda bodies.

    Yields (node, enclosing lambda or None).
    """
    stack: List[Tuple[ast.AST, Optional[ast.Lambda]]] = [(c, None) for c in ast.iter_child_nodes(fn_node)]
    while stack:
        n, lam = stack.pop()
        if isinstance(n, (ast.FunctionDef, ast.AsyncFunctionDef, ast.ClassDef)):
            continue
        yield n, lam
        nl = n if isinstance(n, ast.Lambda) else lam
        for c in ast.iter_child_nodes(n):
            stack.append((c, nl))


def _scopes(ix: Index) -> Iterator[Tuple[Optional[FuncInfo], str, ast.AST]]:
    for f in ix.functions:
        yield f, f.path, f.node
    for mi in ix.modules.values():
        yield None, mi.path, mi.tree


def _module_level_nodes(tree: ast.AST) -> Iterator[Tuple[ast.AST, Optional[ast.Lambda]]]:
    """Module- and class-level statements (not inside any def)."""
    stack: List[Tuple[ast.AST, Optional[ast.Lambda]]] = [(c, None) for c in ast.iter_child_nodes(tree)]
    while stack:
        n, lam = stack.pop()
        if isinstance(n, (ast.FunctionDef, ast.AsyncFunctionDef)):
            continue
        yield n, lam
        nl = n if isinstance(n, ast.Lambda) else lam
        for c in ast.iter_child_nodes(n):
            stack.append((c, nl))


def scope_nodes(fn: Optional[FuncInfo], root: ast.AST):
    return own_nodes(root) if fn is not None else _module_level_nodes(root)


def stores_to_attr(ix: Index, attrs: Iterable[str]) -> List[StoreSite]:
    """Every syntactic store to `<expr>.<attr>` for attr in attrs: assignment, augmented assignment, deletion,
    item store `x.attr[k] = v`, item deletion, and mutating method calls `x.attr.append(...)`."""
    want = set(attrs)
    out: List[StoreSite] = []
    for fn, path, root in _scopes(ix):
        for n, lam in scope_nodes(fn, root):
            if isinstance(n, (ast.Assign, ast.AugAssign, ast.AnnAssign, ast.Delete, ast.For, ast.With, ast.NamedExpr)):
                for tgt, val, kind in store_targets(n):
                    if isinstance(tgt, ast.Attribute) and tgt.attr in want:
                        out.append(StoreSite(fn, path, n, tgt.value, tgt.attr, kind, val, lam is not None))
                    elif isinstance(tgt, ast.Subscript):
                        base = tgt.value
                        while isinstance(base, ast.Subscript):
                            base = base.value
                        if isinstance(base, ast.Attribute) and base.attr in want:
                            out.append(StoreSite(fn, path, n, base.value, base.attr,
                                                 "itemdel" if kind == "del" else "item", val, lam is not None))
            elif isinstance(n, ast.Call) and isinstance(n.func, ast.Attribute) and n.func.attr in MUTATING_METHODS:
                base = n.func.value
                while isinstance(base, ast.Subscript):
                    base = base.value
                if isinstance(base, ast.Attribute) and base.attr in want:
                    out.append(StoreSite(fn, path, n, base.value, base.attr, f"mutcall:{n.func.attr}", None, lam is not None))
    out.sort(key=lambda s: (s.path, s.lineno))
    return out


def call_sites(ix: Index, names: Iterable[str]) -> List[CallSite]:
    want = set(names)
    out: List[CallSite] = []
    for fn, path, root in _scopes(ix):
        for n, lam in scope_nodes(fn, root):
            if isinstance(n, ast.Call) and call_name(n) in want:
                out.append(CallSite(fn, path, n, lam is not None, lam))
    out.sort(key=lambda s: (s.path, s.call.lineno, s.call.col_offset))
    return out


def recv_class(ix: Index, fn: Optional[FuncInfo], recv: Optional[ast.AST]) -> Optional[ClassInfo]:
    """Static class of a receiver expression inside fn, or None."""
    if fn is None or recv is None:
        return None
    c, sh = func_types(ix, fn).expr_type(recv)
    if c is not None and sh in ("scalar", "class"):
        return c
    return None


def dynamic_feature_census(ix: Index) -> List[Tuple[str, int, str]]:
    """setattr / delattr / __dict__ / exec / eval / globals() sites: the constructs that can write attributes behind the
    back of the who-may-write inventories (dynamic *reads* such as getattr are harmless and not listed)."""
    out = []
    for mi in ix.modules.values():
        for n in ast.walk(mi.tree):
            if isinstance(n, ast.Call) and isinstance(n.func, ast.Name):
                if n.func.id in ("setattr", "exec", "eval", "globals", "delattr"):
                    out.append((mi.path, n.lineno, unparse(n)[:80]))
            elif isinstance(n, ast.Attribute) and n.attr == "__dict__":
                out.append((mi.path, n.lineno, unparse(n)[:80]))
    return sorted(out)


def only_called_from(ix: Index, fn: Optional[FuncInfo], allowed: Iterable[str], depth: int = 3) -> Optional[List[str]]:
    """Extract-method tolerance for who-may-write / who-may-call tables.

    If `fn` is a helper whose *every* call site lies in a function listed in `allowed` (or in another helper for which
    the same holds, up to `depth`), return the chain of callers that justifies it; otherwise None.  A helper with no
    call site at all is not justified (dead writers are still writers).
    """
    allowed = set(allowed)
    if fn is None or isinstance(fn.node, ast.Lambda):
        return None
    if fn.short in allowed:
        return [fn.short]
    if depth <= 0 or fn.name.startswith("__"):
        return None
    sites = [cs for cs in call_sites(ix, [fn.name]) if cs.fn is not None and cs.fn is not fn]
    if not sites:
        return None
    # only call sites that can denote this function: same class hierarchy via self/typed receiver, or a module function
    relevant = []
    for cs in sites:
        f = cs.call.func
        if fn.cls is None:
            if isinstance(f, ast.Name):
                relevant.append(cs)
            continue
        if isinstance(f, ast.Attribute):
            rc = recv_class(ix, cs.fn, f.value)
            if rc is None or ix.is_subclass(rc, fn.cls) or ix.is_subclass(fn.cls, rc):
                relevant.append(cs)
    if not relevant:
        return None
    chain: List[str] = []
    for cs in relevant:
        sub = only_called_from(ix, cs.fn if cs.fn.parent is None else cs.fn, allowed, depth - 1)
        if sub is None:
            return None
        chain.extend(sub)
    return sorted(set(chain))
