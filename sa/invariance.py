"""Verdict invariance under whole-repository behaviour-preserving rewrites (thorough tier, DESIGN section 6).

Each transformation rewrites every module of src/primaite *in memory*; the property's rules are run on the rewritten program and
must give the same verdicts as on the real tree (no new failing instance, no analysis error).  Nothing is written, nothing of
PrimAITE is executed.  A deviation is a weakness of the checker (it would alarm on - or go blind to - a harmless refactoring); it is
reported as SELFTEST-FAILURE and recorded in the evidence, it does not change the verdict on the tree."""
from __future__ import annotations

import ast
import copy
import importlib
import os
from collections import Counter
from typing import Any, Callable, Dict, List, Tuple

from .index import AnalysisError, Index
from .report import Ctx, load_known

SUF = "_zq"
TERM = (ast.Return, ast.Raise, ast.Continue, ast.Break)


# ------------------------------------------------------------------------------------------------------------------ transformations
def t_roundtrip(tree: ast.AST) -> int:
    return 1


def _local_names(fn: ast.AST) -> set:
    params, excl, stores = set(), set(), set()
    for f in ast.walk(fn):
        if isinstance(f, (ast.FunctionDef, ast.AsyncFunctionDef, ast.Lambda)):
            a = f.args
            for x in a.posonlyargs + a.args + a.kwonlyargs + ([a.vararg] if a.vararg else []) + ([a.kwarg] if a.kwarg else []):
                params.add(x.arg)
    excl |= params
    for n in ast.walk(fn):
        if isinstance(n, (ast.Global, ast.Nonlocal)):
            excl |= set(n.names)
        elif isinstance(n, ast.ExceptHandler) and n.name:
            excl.add(n.name)
        elif isinstance(n, (ast.Import, ast.ImportFrom)):
            for al in n.names:
                excl.add((al.asname or al.name).split(".")[0])
        elif isinstance(n, (ast.FunctionDef, ast.AsyncFunctionDef, ast.ClassDef)) and n is not fn:
            excl.add(n.name)
        elif isinstance(n, ast.Name) and isinstance(n.ctx, ast.Store):
            stores.add(n.id)
        elif isinstance(n, ast.MatchAs) and n.name:
            excl.add(n.name)
    return {s for s in stores - excl if not s.startswith("__")}


def t_rename(tree: ast.AST) -> int:
    count = [0]

    class Ren(ast.NodeTransformer):
        def __init__(self, names):
            self.names = names

        def visit_Name(self, node):
            if node.id in self.names:
                count[0] += 1
                return ast.copy_location(ast.Name(id=node.id + SUF, ctx=node.ctx), node)
            return node

    def visit(body):
        for i, st in enumerate(body):
            if isinstance(st, (ast.FunctionDef, ast.AsyncFunctionDef)):
                names = _local_names(st)
                if names:
                    body[i] = Ren(names).visit(st)
            elif isinstance(st, ast.ClassDef):
                visit(st.body)

    visit(tree.body)
    return count[0]


def t_ifswap(tree: ast.AST) -> int:
    count = [0]

    class Swap(ast.NodeTransformer):
        def visit_If(self, node):
            self.generic_visit(node)
            if node.orelse and not (len(node.orelse) == 1 and isinstance(node.orelse[0], ast.If)):
                count[0] += 1
                return ast.copy_location(ast.If(test=ast.UnaryOp(op=ast.Not(), operand=node.test), body=node.orelse, orelse=node.body), node)
            return node

    Swap().visit(tree)
    return count[0]


def t_guardelse(tree: ast.AST) -> int:
    count = [0]

    def fold(body):
        out = []
        i = 0
        while i < len(body):
            st = body[i]
            for fld in ("body", "orelse", "finalbody"):
                v = getattr(st, fld, None)
                if isinstance(v, list) and v and isinstance(v[0], ast.stmt):
                    setattr(st, fld, fold(v))
            if isinstance(st, ast.Try):
                for h in st.handlers:
                    h.body = fold(h.body)
            if isinstance(st, ast.If) and not st.orelse and st.body and isinstance(st.body[-1], TERM) and i + 1 < len(body):
                st.orelse = fold(body[i + 1:])
                count[0] += 1
                out.append(st)
                return out
            out.append(st)
            i += 1
        return out

    for n in ast.walk(tree):
        if isinstance(n, (ast.FunctionDef, ast.AsyncFunctionDef)):
            n.body = fold(n.body)
    return count[0]


def t_condlocal(tree: ast.AST) -> int:
    count = [0]

    def bind(body):
        out = []
        for st in body:
            for fld in ("body", "orelse", "finalbody"):
                v = getattr(st, fld, None)
                if isinstance(v, list) and v and isinstance(v[0], ast.stmt):
                    setattr(st, fld, bind(v))
            if isinstance(st, ast.Try):
                for h in st.handlers:
                    h.body = bind(h.body)
            if isinstance(st, ast.If) and not isinstance(st.test, ast.Name) and not any(
                    isinstance(x, (ast.NamedExpr, ast.Await, ast.Yield)) for x in ast.walk(st.test)):
                count[0] += 1
                nm = f"_c{count[0]}"
                out.append(ast.copy_location(ast.Assign(targets=[ast.Name(id=nm, ctx=ast.Store())], value=st.test), st))
                st.test = ast.copy_location(ast.Name(id=nm, ctx=ast.Load()), st.test)
            out.append(st)
        return out

    for n in ast.walk(tree):
        if isinstance(n, (ast.FunctionDef, ast.AsyncFunctionDef)):
            n.body = bind(n.body)
    return count[0]


def t_inline(tree: ast.AST) -> int:
    count = [0]

    class Sub(ast.NodeTransformer):
        def __init__(self, name, value):
            self.name, self.value, self.done = name, value, 0

        def visit_Name(self, node):
            if node.id == self.name and isinstance(node.ctx, ast.Load):
                self.done += 1
                return copy.deepcopy(self.value)
            return node

        def visit_Lambda(self, node):
            return node

        def visit_FunctionDef(self, node):
            return node

    def process(fn):
        loads = Counter(n.id for n in ast.walk(fn) if isinstance(n, ast.Name) and isinstance(n.ctx, ast.Load))
        stores = Counter(n.id for n in ast.walk(fn) if isinstance(n, ast.Name) and isinstance(n.ctx, ast.Store))

        def block(body):
            i = 0
            while i + 1 < len(body):
                a, b = body[i], body[i + 1]
                if isinstance(a, ast.Assign) and len(a.targets) == 1 and isinstance(a.targets[0], ast.Name):
                    nm = a.targets[0].id
                    head = b.test if isinstance(b, (ast.If, ast.While)) else (b.iter if isinstance(b, ast.For) else b)
                    if loads[nm] == 1 and stores[nm] == 1 and not isinstance(b, (ast.FunctionDef, ast.ClassDef, ast.Try, ast.With)) \
                            and sum(1 for x in ast.walk(head) if isinstance(x, ast.Name) and x.id == nm and isinstance(x.ctx, ast.Load)) == 1 \
                            and not isinstance(a.value, (ast.Yield, ast.Await, ast.Lambda)) \
                            and not any(isinstance(x, (ast.ListComp, ast.GeneratorExp, ast.DictComp, ast.SetComp, ast.Lambda)) and any(
                                isinstance(y, ast.Name) and y.id == nm for y in ast.walk(x)) for x in ast.walk(head)):
                        s = Sub(nm, a.value)
                        if isinstance(b, (ast.If, ast.While)):
                            b.test = s.visit(b.test)
                        elif isinstance(b, ast.For):
                            b.iter = s.visit(b.iter)
                        else:
                            body[i + 1] = s.visit(b)
                        if s.done == 1:
                            del body[i]
                            count[0] += 1
                            continue
                i += 1
            for st in body:
                for fld in ("body", "orelse", "finalbody"):
                    v = getattr(st, fld, None)
                    if isinstance(v, list) and v and isinstance(v[0], ast.stmt) and not isinstance(st, (ast.FunctionDef, ast.ClassDef)):
                        block(v)
                if isinstance(st, ast.Try):
                    for h in st.handlers:
                        block(h.body)

        block(fn.body)

    for n in ast.walk(tree):
        if isinstance(n, (ast.FunctionDef, ast.AsyncFunctionDef)) and not any(
                isinstance(x, (ast.FunctionDef, ast.Lambda)) and x is not n for x in ast.walk(n)):
            process(n)
    return count[0]


_FLIP = {ast.Lt: ast.Gt, ast.Gt: ast.Lt, ast.LtE: ast.GtE, ast.GtE: ast.LtE, ast.Eq: ast.Eq, ast.NotEq: ast.NotEq}


def t_cmpflip(tree: ast.AST) -> int:
    """`a < b` -> `b > a`, `a == b` -> `b == a` (single-operator comparisons; `x == <constant>` is left alone - nobody writes
    `None == x` - but ordering tests against constants are flipped: `0 < x` is ordinary style)."""
    count = [0]

    class Flip(ast.NodeTransformer):
        def visit_Compare(self, node):
            self.generic_visit(node)
            if len(node.ops) != 1 or type(node.ops[0]) not in _FLIP:
                return node
            right = node.comparators[0]
            if isinstance(node.ops[0], (ast.Eq, ast.NotEq)) and (isinstance(right, ast.Constant) or isinstance(node.left, ast.Constant)):
                return node
            count[0] += 1
            return ast.copy_location(ast.Compare(left=right, ops=[_FLIP[type(node.ops[0])]()], comparators=[node.left]), node)

    Flip().visit(tree)
    return count[0]


def t_retlocal(tree: ast.AST) -> int:
    """`return <expression>` -> `_rN = <expression>; return _rN` (names, constants and bare tuples of them are left alone)."""
    count = [0]

    def simple(e: ast.AST) -> bool:
        return isinstance(e, (ast.Name, ast.Constant)) or (isinstance(e, ast.Tuple) and all(simple(x) for x in e.elts))

    def bind(body):
        out = []
        for st in body:
            for fld in ("body", "orelse", "finalbody"):
                v = getattr(st, fld, None)
                if isinstance(v, list) and v and isinstance(v[0], ast.stmt) and not isinstance(st, (ast.FunctionDef, ast.AsyncFunctionDef, ast.ClassDef)):
                    setattr(st, fld, bind(v))
            if isinstance(st, ast.Try):
                for h in st.handlers:
                    h.body = bind(h.body)
            if isinstance(st, ast.With):
                pass
            if isinstance(st, ast.Return) and st.value is not None and not simple(st.value) and not any(
                    isinstance(x, (ast.Await, ast.Yield, ast.YieldFrom, ast.NamedExpr)) for x in ast.walk(st.value)):
                count[0] += 1
                nm = f"_r{count[0]}"
                out.append(ast.copy_location(ast.Assign(targets=[ast.Name(id=nm, ctx=ast.Store())], value=st.value), st))
                st.value = ast.copy_location(ast.Name(id=nm, ctx=ast.Load()), st.value)
            out.append(st)
        return out

    for n in ast.walk(tree):
        if isinstance(n, (ast.FunctionDef, ast.AsyncFunctionDef)):
            n.body = bind(n.body)
    return count[0]


def _blocks(tree: ast.AST, rewrite: Callable[[list], list]) -> None:
    """Apply `rewrite` to every statement list of every function, innermost first."""
    def go(body):
        for st in body:
            if isinstance(st, (ast.ClassDef,)):
                continue
            for fld in ("body", "orelse", "finalbody"):
                v = getattr(st, fld, None)
                if isinstance(v, list) and v and isinstance(v[0], ast.stmt):
                    setattr(st, fld, go(v))
            if isinstance(st, ast.Try):
                for h in st.handlers:
                    h.body = go(h.body)
        return rewrite(body)

    for n in ast.walk(tree):
        if isinstance(n, (ast.FunctionDef, ast.AsyncFunctionDef)):
            n.body = go(n.body)


def t_noelse(tree: ast.AST) -> int:
    """`if c: ...; return/raise/continue/break` + `else: B` -> the else arm moved after the if (no-else-return style)."""
    count = [0]

    def rw(body):
        out = []
        for st in body:
            if isinstance(st, ast.If) and st.orelse and st.body and isinstance(st.body[-1], TERM):
                rest, st.orelse = st.orelse, []
                count[0] += 1
                out.append(st)
                out.extend(rest)
            else:
                out.append(st)
        return out

    _blocks(tree, rw)
    return count[0]


def t_augexpand(tree: ast.AST) -> int:
    """`x += e` -> `x = x + e` for name / attribute targets (subscript targets would evaluate the index twice)."""
    count = [0]

    class Aug(ast.NodeTransformer):
        def visit_AugAssign(self, node):
            if isinstance(node.target, (ast.Name, ast.Attribute)) and isinstance(node.op, (ast.Add, ast.Sub)):
                count[0] += 1
                load = copy.deepcopy(node.target)
                for x in ast.walk(load):
                    if hasattr(x, "ctx"):
                        x.ctx = ast.Load()
                return ast.copy_location(ast.Assign(targets=[node.target], value=ast.BinOp(left=load, op=node.op, right=node.value)), node)
            return node

    Aug().visit(tree)
    return count[0]


def t_ternary(tree: ast.AST) -> int:
    """`x = a if c else b` -> `if c: x = a` / `else: x = b` (single name / attribute target)."""
    count = [0]

    def rw(body):
        out = []
        for st in body:
            if isinstance(st, ast.Assign) and len(st.targets) == 1 and isinstance(st.targets[0], (ast.Name, ast.Attribute)) \
                    and isinstance(st.value, ast.IfExp):
                count[0] += 1
                t2 = copy.deepcopy(st.targets[0])
                out.append(ast.copy_location(ast.If(
                    test=st.value.test,
                    body=[ast.copy_location(ast.Assign(targets=[st.targets[0]], value=st.value.body), st)],
                    orelse=[ast.copy_location(ast.Assign(targets=[t2], value=st.value.orelse), st)]), st))
            else:
                out.append(st)
        return out

    _blocks(tree, rw)
    return count[0]


def t_earlyret(tree: ast.AST) -> int:
    """a function body ending in `if c: A` (no else) -> `if not c: return` followed by A (functions that return nothing there)."""
    count = [0]
    for fn in ast.walk(tree):
        if not isinstance(fn, (ast.FunctionDef, ast.AsyncFunctionDef)) or not fn.body:
            continue
        if any(isinstance(x, (ast.Yield, ast.YieldFrom)) for x in ast.walk(fn)):
            continue
        last = fn.body[-1]
        if isinstance(last, ast.If) and not last.orelse and not any(isinstance(x, ast.NamedExpr) for x in ast.walk(last.test)):
            count[0] += 1
            guard = ast.copy_location(ast.If(test=ast.copy_location(ast.UnaryOp(op=ast.Not(), operand=last.test), last.test),
                                             body=[ast.copy_location(ast.Return(value=None), last)], orelse=[]), last)
            fn.body = fn.body[:-1] + [guard] + last.body
    return count[0]


def t_itemsloop(tree: ast.AST) -> int:
    """`for k, v in d.items(): B` -> `for k in d: v = d[k]; B` (d a name or attribute chain, k and v plain names)."""
    count = [0]
    for lp in ast.walk(tree):
        if isinstance(lp, ast.For) and isinstance(lp.target, ast.Tuple) and len(lp.target.elts) == 2 and all(
                isinstance(e, ast.Name) for e in lp.target.elts) and isinstance(lp.iter, ast.Call) and not lp.iter.args \
                and isinstance(lp.iter.func, ast.Attribute) and lp.iter.func.attr == "items" \
                and all(isinstance(x, (ast.Name, ast.Attribute, ast.Load)) for x in ast.walk(lp.iter.func.value)):
            d = lp.iter.func.value
            k, v = lp.target.elts
            count[0] += 1
            lp.target = k
            lp.iter = d
            get = ast.Assign(targets=[v], value=ast.Subscript(value=copy.deepcopy(d), slice=ast.Name(id=k.id, ctx=ast.Load()), ctx=ast.Load()))
            lp.body.insert(0, ast.copy_location(get, lp))
    return count[0]


def t_extractpred(tree: ast.AST) -> int:
    """every compound `if` test of a method (and/or/not/comparison over self and locals) extracted into a private predicate method
    `_pred_N(self, <locals>)` of the same class and called in place."""
    count = [0]
    for cls in ast.walk(tree):
        if not isinstance(cls, ast.ClassDef):
            continue
        new_methods = []
        for fn in cls.body:
            if not isinstance(fn, (ast.FunctionDef,)) or not fn.args.args or fn.args.args[0].arg != "self":
                continue
            if any(isinstance(d, ast.Name) and d.id in ("staticmethod", "classmethod") for d in fn.decorator_list):
                continue
            bound = {a.arg for a in fn.args.args + fn.args.kwonlyargs} | {x.id for x in ast.walk(fn) if isinstance(x, ast.Name) and isinstance(x.ctx, ast.Store)}
            if fn.args.vararg:
                bound.add(fn.args.vararg.arg)
            if fn.args.kwarg:
                bound.add(fn.args.kwarg.arg)
            for node in ast.walk(fn):
                if not isinstance(node, ast.If) or not isinstance(node.test, (ast.BoolOp, ast.Compare)):
                    continue
                t = node.test
                if any(isinstance(x, (ast.NamedExpr, ast.Await, ast.Yield, ast.Lambda, ast.ListComp, ast.GeneratorExp, ast.DictComp, ast.SetComp)) for x in ast.walk(t)):
                    continue
                free = sorted({x.id for x in ast.walk(t) if isinstance(x, ast.Name) and x.id in bound and x.id != "self"})
                count[0] += 1
                nm = f"_pred_{cls.name}_{count[0]}"
                m = ast.FunctionDef(name=nm, args=ast.arguments(posonlyargs=[], args=[ast.arg(arg="self")] + [ast.arg(arg=a) for a in free],
                                                                 kwonlyargs=[], kw_defaults=[], defaults=[]),
                                    body=[ast.Return(value=t)], decorator_list=[], type_params=[])
                new_methods.append(ast.copy_location(m, node))
                node.test = ast.copy_location(ast.Call(func=ast.Attribute(value=ast.Name(id="self", ctx=ast.Load()), attr=nm, ctx=ast.Load()),
                                                        args=[ast.Name(id=a, ctx=ast.Load()) for a in free], keywords=[]), t)
        cls.body.extend(new_methods)
    return count[0]


def t_extracttail(tree: ast.AST) -> int:
    """the second half of every method body (3+ statements) extracted into a new private method `_tail_N(self, <locals it reads>)` of
    the same class, called as `return self._tail_N(...)` - the extract-method refactoring, applied everywhere."""
    count = [0]
    for cls in ast.walk(tree):
        if not isinstance(cls, ast.ClassDef):
            continue
        new_methods = []
        for fn in cls.body:
            if not isinstance(fn, ast.FunctionDef) or not fn.args.args or fn.args.args[0].arg != "self" or fn.decorator_list:
                continue
            if fn.args.vararg or fn.args.kwarg or any(isinstance(x, (ast.Yield, ast.YieldFrom, ast.Await, ast.Global, ast.Nonlocal)) for x in ast.walk(fn)):
                continue
            body = fn.body
            start = 1 if body and isinstance(body[0], ast.Expr) and isinstance(body[0].value, ast.Constant) else 0
            if len(body) - start < 3:
                continue
            if any(isinstance(x, ast.Call) and isinstance(x.func, ast.Name) and x.func.id == "super" and not x.args for x in ast.walk(fn)):
                continue  # zero-argument super() needs the defining method
            k = start + (len(body) - start + 1) // 2
            head, tail = body[:k], body[k:]
            if any(isinstance(x, (ast.FunctionDef, ast.Lambda, ast.ClassDef)) for st in head for x in ast.walk(st)):
                continue  # closures defined in the head may capture names rebound in the tail
            bound_head = {a.arg for a in fn.args.args[1:] + fn.args.kwonlyargs} | {
                x.id for st in head for x in ast.walk(st) if isinstance(x, ast.Name) and not isinstance(x.ctx, ast.Load)}
            reads = sorted({x.id for st in tail for x in ast.walk(st) if isinstance(x, ast.Name) and x.id in bound_head})
            count[0] += 1
            nm = f"_tail_{cls.name}_{count[0]}"
            m = ast.FunctionDef(name=nm, args=ast.arguments(posonlyargs=[], args=[ast.arg(arg="self")] + [ast.arg(arg=a) for a in reads],
                                                             kwonlyargs=[], kw_defaults=[], defaults=[]),
                                body=tail, decorator_list=[], type_params=[])
            new_methods.append(ast.copy_location(m, tail[0]))
            call = ast.Call(func=ast.Attribute(value=ast.Name(id="self", ctx=ast.Load()), attr=nm, ctx=ast.Load()),
                            args=[ast.Name(id=a, ctx=ast.Load()) for a in reads], keywords=[])
            fn.body = head + [ast.copy_location(ast.Return(value=call), tail[0])]
        cls.body.extend(new_methods)
    return count[0]


TRANSFORMS: List[Tuple[str, str, Callable[[ast.AST], int]]] = [
    ("roundtrip", "every module replaced by ast.unparse(ast.parse(src)) (comments, layout, quoting gone)", t_roundtrip),
    ("rename", "every purely local variable of every function renamed", t_rename),
    ("ifswap", "every `if c: A else: B` turned into `if not c: B else: A`", t_ifswap),
    ("guardelse", "every guard clause followed by more statements turned into if/else", t_guardelse),
    ("condlocal", "every branch condition bound to a fresh local before it is tested", t_condlocal),
    ("inline", "every single-use local inlined into the next statement", t_inline),
    ("cmpflip", "operands of every ordering comparison (and of ==/!= between non-constants) swapped, operator mirrored", t_cmpflip),
    ("retlocal", "every `return <expression>` turned into `_r = <expression>; return _r`", t_retlocal),
    ("noelse", "every `else:` after an arm that ends in return/raise/continue/break removed (no-else-return style)", t_noelse),
    ("augexpand", "every `x += e` / `x -= e` on a name or attribute written as `x = x + e` / `x = x - e`", t_augexpand),
    ("ternary", "every `x = a if c else b` turned into an if/else statement", t_ternary),
    ("earlyret", "every function body ending in `if c: A` turned into `if not c: return` + A", t_earlyret),
    ("itemsloop", "every `for k, v in d.items():` turned into `for k in d: v = d[k]`", t_itemsloop),
    ("extracttail", "the second half of every method body extracted into a new private method and called in place", t_extracttail),
    ("extractpred", "every compound `if` test of a method extracted into a new private predicate method and called in place", t_extractpred),
]


def build_overlay(repo: str, fn: Callable[[ast.AST], int]) -> Tuple[Dict[str, str], int]:
    overlay: Dict[str, str] = {}
    n = 0
    for d, _, fs in os.walk(os.path.join(repo, "src/primaite")):
        for f in fs:
            if f.endswith(".py"):
                p = os.path.join(d, f)
                rel = os.path.relpath(p, repo)
                src = open(p, encoding="utf-8").read()
                try:
                    tree = ast.parse(src)
                    n += fn(tree)
                    ast.fix_missing_locations(tree)
                    out = ast.unparse(tree)
                    compile(out, rel, "exec")
                    overlay[rel] = out
                except Exception:  # noqa: BLE001 - a module the rewrite cannot handle stays as it is
                    continue
    return overlay, n


def _one(args) -> Dict[str, Any]:
    prop, repo, name = args
    what, fn = next((w, f) for n, w, f in TRANSFORMS if n == name)
    res: Dict[str, Any] = {"transformation": name, "what": what}
    try:
        overlay, n = build_overlay(repo, fn)
        res["rewrites"] = n
        mod = importlib.import_module(f"sa.rules.{prop.lower()}")
        known = {(f["property"], f["rule"], f["key"].replace(SUF, "")) for f in load_known()["findings"] if f.get("status") == "known"}
        ctx0 = Ctx(prop, "inv", Index(repo))
        mod.check(ctx0)
        base_fail = {(i.rule, i.key) for i in ctx0.instances if not i.ok}
        ctx = Ctx(prop, "inv", Index(repo, overlay=overlay))
        mod.check(ctx)
        new = [i for i in ctx.instances if not i.ok and (prop, i.rule, i.key.replace(SUF, "")) not in known
               and (i.rule, i.key.replace(SUF, "")) not in {(r, k.replace(SUF, "")) for r, k in base_fail}]
        res.update(instances=len(ctx.instances), instances_real=len(ctx0.instances), new_failing=len(new),
                   first=[f"{i.rule} {i.key.split('::', 1)[-1][:90]}" for i in new[:3]], outcome="same" if not new else "differs")
    except AnalysisError as e:
        res.update(outcome="analysis-error", detail=str(e)[:200])
    except Exception as e:  # noqa: BLE001
        res.update(outcome="error", detail=f"{type(e).__name__}: {e}"[:200])
    return res


def run_for(prop: str, repo: str) -> Dict[str, Any]:
    from concurrent.futures import ProcessPoolExecutor
    jobs = [(prop, repo, n) for n, _, _ in TRANSFORMS]
    with ProcessPoolExecutor(max_workers=min(len(jobs), os.cpu_count() or 2)) as ex:
        rows = list(ex.map(_one, jobs))
    fails = [f"invariance under `{r['transformation']}` ({r['what']}): {r['outcome']} {r.get('first') or r.get('detail') or ''}"
             for r in rows if r["outcome"] != "same"]
    return {"transformations": rows, "failures": fails, "passed": len(rows) - len(fails), "total": len(rows)}
