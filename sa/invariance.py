"""Verdict invariance under whole-repository behaviour-preserving rewrites (thorough tier, DESIGN section 6).

Each transformation rewrites every module of src/primaite *in memory*; the property's rules are run on the rewritten program and
must give the same verdicts as on the real tree (no new failing instance, no analysis error).  Nothing is written, nothing of
PrimAITE is executed.  A deviation is a weakness of the checker (it would alarm on - or go blind to - a harmless refactoring); it is
reported as SELFTEST-FAILURE and recorded in the evidence, it does not change the verdict on the tree."""
from __future__ import annotations

import ast
import copy
import importlib
import os
from collections import Counter
from typing import Any, Callable, Dict, List, Tuple

from .index import AnalysisError, Index
from .report import Ctx, load_known

SUF = "_zq"
TERM = (ast.Return, ast.Raise, ast.Continue, ast.Break)


# ------------------------------------------------------------------------------------------------------------------ transformations
def t_roundtrip(tree: ast.AST) -> int:
    return 1


def _local_names(fn: ast.AST) -> set:
    params, excl, stores = set(), set(), set()
    for f in ast.walk(fn):
        if isinstance(f, (ast.FunctionDef, ast.AsyncFunctionDef, ast.Lambda)):
            a = f.args
            for x in a.posonlyargs + a.args + a.kwonlyargs + ([a.vararg] if a.vararg else []) + ([a.kwarg] if a.kwarg else []):
                params.add(x.arg)
    excl |= params
    for n in ast.walk(fn):
        if isinstance(n, (ast.Global, ast.Nonlocal)):
            excl |= set(n.names)
        elif isinstance(n, ast.ExceptHandler) and n.name:
            excl.add(n.name)
        elif isinstance(n, (ast.Import, ast.ImportFrom)):
            for al in n.names:
                excl.add((al.asname or al.name).split(".")[0])
        elif isinstance(n, (ast.FunctionDef, ast.AsyncFunctionDef, ast.ClassDef)) and n is not fn:
            excl.add(n.name)
        elif isinstance(n, ast.Name) and isinstance(n.ctx, ast.Store):
            stores.add(n.id)
        elif isinstance(n, ast.MatchAs) and n.name:
            excl.add(n.name)
    return {s for s in stores - excl if not s.startswith("__")}


def t_rename(tree: ast.AST) -> int:
    count = [0]

    class Ren(ast.NodeTransformer):
        def __init__(self, names):
            self.names = names

        def visit_Name(self, node):
            if node.id in self.names:
                count[0] += 1
                return ast.copy_location(ast.Name(id=node.id + SUF, ctx=node.ctx), node)
            return node

    def visit(body):
        for i, st in enumerate(body):
            if isinstance(st, (ast.FunctionDef, ast.AsyncFunctionDef)):
                names = _local_names(st)
                if names:
                    body[i] = Ren(names).visit(st)
            elif isinstance(st, ast.ClassDef):
                visit(st.body)

    visit(tree.body)
    return count[0]


def t_ifswap(tree: ast.AST) -> int:
    count = [0]

    class Swap(ast.NodeTransformer):
        def visit_If(self, node):
            self.generic_visit(node)
            if node.orelse and not (len(node.orelse) == 1 and isinstance(node.orelse[0], ast.If)):
                count[0] += 1
                return ast.copy_location(ast.If(test=ast.UnaryOp(op=ast.Not(), operand=node.test), body=node.orelse, orelse=node.body), node)
            return node

    Swap().visit(tree)
    return count[0]


def t_guardelse(tree: ast.AST) -> int:
    count = [0]

    def fold(body):
        out = []
        i = 0
        while i < len(body):
            st = body[i]
            for fld in ("body", "orelse", "finalbody"):
                v = getattr(st, fld, None)
                if isinstance(v, list) and v and isinstance(v[0], ast.stmt):
                    setattr(st, fld, fold(v))
            if isinstance(st, ast.Try):
                for h in st.handlers:
                    h.body = fold(h.body)
            if isinstance(st, ast.If) and not st.orelse and st.body and isinstance(st.body[-1], TERM) and i + 1 < len(body):
                st.orelse = fold(body[i + 1:])
                count[0] += 1
                out.append(st)
                return out
            out.append(st)
            i += 1
        return out

    for n in ast.walk(tree):
        if isinstance(n, (ast.FunctionDef, ast.AsyncFunctionDef)):
            n.body = fold(n.body)
    return count[0]


def t_condlocal(tree: ast.AST) -> int:
    count = [0]

    def bind(body):
        out = []
        for st in body:
            for fld in ("body", "orelse", "finalbody"):
                v = getattr(st, fld, None)
                if isinstance(v, list) and v and isinstance(v[0], ast.stmt):
                    setattr(st, fld, bind(v))
            if isinstance(st, ast.Try):
                for h in st.handlers:
                    h.body = bind(h.body)
            if isinstance(st, ast.If) and not isinstance(st.test, ast.Name) and not any(
                    isinstance(x, (ast.NamedExpr, ast.Await, ast.Yield)) for x in ast.walk(st.test)):
                count[0] += 1
                nm = f"_c{count[0]}"
                out.append(ast.copy_location(ast.Assign(targets=[ast.Name(id=nm, ctx=ast.Store())], value=st.test), st))
                st.test = ast.copy_location(ast.Name(id=nm, ctx=ast.Load()), st.test)
            out.append(st)
        return out

    for n in ast.walk(tree):
        if isinstance(n, (ast.FunctionDef, ast.AsyncFunctionDef)):
            n.body = bind(n.body)
    return count[0]


def t_inline(tree: ast.AST) -> int:
    count = [0]

    class Sub(ast.NodeTransformer):
        def __init__(self, name, value):
            self.name, self.value, self.done = name, value, 0

        def visit_Name(self, node):
            if node.id == self.name and isinstance(node.ctx, ast.Load):
                self.done += 1
                return copy.deepcopy(self.value)
            return node

        def visit_Lambda(self, node):
            return node

        def visit_FunctionDef(self, node):
            return node

    def process(fn):
        loads = Counter(n.id for n in ast.walk(fn) if isinstance(n, ast.Name) and isinstance(n.ctx, ast.Load))
        stores = Counter(n.id for n in ast.walk(fn) if isinstance(n, ast.Name) and isinstance(n.ctx, ast.Store))

        def block(body):
            i = 0
            while i + 1 < len(body):
                a, b = body[i], body[i + 1]
                if isinstance(a, ast.Assign) and len(a.targets) == 1 and isinstance(a.targets[0], ast.Name):
                    nm = a.targets[0].id
                    head = b.test if isinstance(b, (ast.If, ast.While)) else (b.iter if isinstance(b, ast.For) else b)
                    if loads[nm] == 1 and stores[nm] == 1 and not isinstance(b, (ast.FunctionDef, ast.ClassDef, ast.Try, ast.With)) \
                            and sum(1 for x in ast.walk(head) if isinstance(x, ast.Name) and x.id == nm and isinstance(x.ctx, ast.Load)) == 1 \
                            and not isinstance(a.value, (ast.Yield, ast.Await, ast.Lambda)) \
                            and not any(isinstance(x, (ast.ListComp, ast.GeneratorExp, ast.DictComp, ast.SetComp, ast.Lambda)) and any(
                                isinstance(y, ast.Name) and y.id == nm for y in ast.walk(x)) for x in ast.walk(head)):
                        s = Sub(nm, a.value)
                        if isinstance(b, (ast.If, ast.While)):
                            b.test = s.visit(b.test)
                        elif isinstance(b, ast.For):
                            b.iter = s.visit(b.iter)
                        else:
                            body[i + 1] = s.visit(b)
                        if s.done == 1:
                            del body[i]
                            count[0] += 1
                            continue
                i += 1
            for st in body:
                for fld in ("body", "orelse", "finalbody"):
                    v = getattr(st, fld, None)
                    if isinstance(v, list) and v and isinstance(v[0], ast.stmt) and not isinstance(st, (ast.FunctionDef, ast.ClassDef)):
                        block(v)
                if isinstance(st, ast.Try):
                    for h in st.handlers:
                        block(h.body)

        block(fn.body)

    for n in ast.walk(tree):
        if isinstance(n, (ast.FunctionDef, ast.AsyncFunctionDef)) and not any(
                isinstance(x, (ast.FunctionDef, ast.Lambda)) and x is not n for x in ast.walk(n)):
            process(n)
    return count[0]


TRANSFORMS: List[Tuple[str, str, Callable[[ast.AST], int]]] = [
    ("roundtrip", "every module replaced by ast.unparse(ast.parse(src)) (comments, layout, quoting gone)", t_roundtrip),
    ("rename", "every purely local variable of every function renamed", t_rename),
    ("ifswap", "every `if c: A else: B` turned into `if not c: B else: A`", t_ifswap),
    ("guardelse", "every guard clause followed by more statements turned into if/else", t_guardelse),
    ("condlocal", "every branch condition bound to a fresh local before it is tested", t_condlocal),
    ("inline", "every single-use local inlined into the next statement", t_inline),
]


def build_overlay(repo: str, fn: Callable[[ast.AST], int]) -> Tuple[Dict[str, str], int]:
    overlay: Dict[str, str] = {}
    n = 0
    for d, _, fs in os.walk(os.path.join(repo, "src/primaite")):
        for f in fs:
            if f.endswith(".py"):
                p = os.path.join(d, f)
                rel = os.path.relpath(p, repo)
                src = open(p, encoding="utf-8").read()
                try:
                    tree = ast.parse(src)
                    n += fn(tree)
                    ast.fix_missing_locations(tree)
                    out = ast.unparse(tree)
                    compile(out, rel, "exec")
                    overlay[rel] = out
                except Exception:  # noqa: BLE001 - a module the rewrite cannot handle stays as it is
                    continue
    return overlay, n


def _one(args) -> Dict[str, Any]:
    prop, repo, name = args
    what, fn = next((w, f) for n, w, f in TRANSFORMS if n == name)
    res: Dict[str, Any] = {"transformation": name, "what": what}
    try:
        overlay, n = build_overlay(repo, fn)
        res["rewrites"] = n
        mod = importlib.import_module(f"sa.rules.{prop.lower()}")
        known = {(f["property"], f["rule"], f["key"].replace(SUF, "")) for f in load_known()["findings"] if f.get("status") == "known"}
        ctx0 = Ctx(prop, "inv", Index(repo))
        mod.check(ctx0)
        base_fail = {(i.rule, i.key) for i in ctx0.instances if not i.ok}
        ctx = Ctx(prop, "inv", Index(repo, overlay=overlay))
        mod.check(ctx)
        new = [i for i in ctx.instances if not i.ok and (prop, i.rule, i.key.replace(SUF, "")) not in known
               and (i.rule, i.key.replace(SUF, "")) not in {(r, k.replace(SUF, "")) for r, k in base_fail}]
        res.update(instances=len(ctx.instances), instances_real=len(ctx0.instances), new_failing=len(new),
                   first=[f"{i.rule} {i.key.split('::', 1)[-1][:90]}" for i in new[:3]], outcome="same" if not new else "differs")
    except AnalysisError as e:
        res.update(outcome="analysis-error", detail=str(e)[:200])
    except Exception as e:  # noqa: BLE001
        res.update(outcome="error", detail=f"{type(e).__name__}: {e}"[:200])
    return res


def run_for(prop: str, repo: str) -> Dict[str, Any]:
    from concurrent.futures import ProcessPoolExecutor
    jobs = [(prop, repo, n) for n, _, _ in TRANSFORMS]
    with ProcessPoolExecutor(max_workers=min(6, os.cpu_count() or 2)) as ex:
        rows = list(ex.map(_one, jobs))
    fails = [f"invariance under `{r['transformation']}` ({r['what']}): {r['outcome']} {r.get('first') or r.get('detail') or ''}"
             for r in rows if r["outcome"] != "same"]
    return {"transformations": rows, "failures": fails, "passed": len(rows) - len(fails), "total": len(rows)}
