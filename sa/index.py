"""E1 - program index: modules, classes (with C3 MRO), functions, enums, annotations, simple type resolution.

Built from the source text of /repo's working tree on every run; an *overlay* (relative path -> source text) lets the
self-test analyse mutated variants in memory without writing a scratch copy.
"""
from __future__ import annotations

import ast
import os
from dataclasses import dataclass, field
from typing import Dict, Iterable, Iterator, List, Optional, Sequence, Set, Tuple

from .astutil import FUNC_NODES, attr_chain, unparse

REPO = os.environ.get("PRIMAITE_REPO", "/repo")
PKG_ROOT = "src/primaite"


class AnalysisError(Exception):
    """An anchor vanished or a construct could not be normalised: exit 2, never a VIOLATION."""


@dataclass
class ModuleInfo:
    name: str
    path: str  # relative to repo root
    tree: ast.Module
    source: str
    imports: Dict[str, str] = field(default_factory=dict)  # local name -> dotted target
    classes: Dict[str, "ClassInfo"] = field(default_factory=dict)  # top-level classes by simple name
    functions: Dict[str, "FuncInfo"] = field(default_factory=dict)  # top-level functions

    def line(self, lineno: int) -> str:
        lines = self.source.splitlines()
        return lines[lineno - 1] if 0 < lineno <= len(lines) else ""


@dataclass
class FieldInfo:
    name: str
    ann: Optional[ast.AST]
    default: Optional[ast.AST]
    node: ast.AST
    classvar: bool


@dataclass(eq=False)
class FuncInfo:
    qualname: str  # module.Class.method or module.func or ...<locals>.name
    name: str
    node: ast.AST  # FunctionDef / Lambda
    module: ModuleInfo
    cls: Optional["ClassInfo"]
    parent: Optional["FuncInfo"] = None
    decorators: List[str] = field(default_factory=list)

    @property
    def short(self) -> str:
        if self.parent is not None:
            return f"{self.parent.short}.<locals>.{self.name}"
        return f"{self.cls.short}.{self.name}" if self.cls else self.name

    @property
    def path(self) -> str:
        return self.module.path

    @property
    def lineno(self) -> int:
        return getattr(self.node, "lineno", 0)

    @property
    def is_property(self) -> bool:
        return any(d == "property" or d.endswith(".setter") or d.endswith("cached_property") for d in self.decorators)

    @property
    def is_abstract(self) -> bool:
        return any(d.endswith("abstractmethod") for d in self.decorators)

    def loc(self, node: Optional[ast.AST] = None) -> str:
        ln = (getattr(node, "src_lineno", None) or getattr(node, "lineno", None)) if node is not None else self.lineno
        return f"{self.path}:{ln}"


@dataclass(eq=False)
class ClassInfo:
    qualname: str
    name: str
    node: ast.ClassDef
    module: ModuleInfo
    outer: Optional["ClassInfo"]
    base_exprs: List[ast.AST] = field(default_factory=list)
    bases: List["ClassInfo"] = field(default_factory=list)
    unknown_bases: List[str] = field(default_factory=list)
    methods: Dict[str, FuncInfo] = field(default_factory=dict)
    fields: Dict[str, FieldInfo] = field(default_factory=dict)
    nested: Dict[str, "ClassInfo"] = field(default_factory=dict)
    keywords: Dict[str, ast.AST] = field(default_factory=dict)
    _mro: Optional[List["ClassInfo"]] = None

    @property
    def short(self) -> str:
        return f"{self.outer.short}.{self.name}" if self.outer else self.name

    @property
    def path(self) -> str:
        return self.module.path

    @property
    def discriminator(self) -> Optional[str]:
        kw = self.keywords.get("discriminator")
        if isinstance(kw, ast.Constant) and isinstance(kw.value, str):
            return kw.value
        return None

    def __repr__(self) -> str:
        return f"<class {self.qualname}>"


def _canon_returns(tree: ast.AST) -> int:
    """Normal form: `x = <e>` immediately followed by `return x`, with x bound once and read once in the function, is presented
    to the rules as `return <e>` - the two spellings are the same program, and most rules read what a function returns."""
    from collections import Counter
    n = 0
    for fn in ast.walk(tree):
        if not isinstance(fn, (ast.FunctionDef, ast.AsyncFunctionDef)):
            continue
        loads = Counter(x.id for x in ast.walk(fn) if isinstance(x, ast.Name) and isinstance(x.ctx, ast.Load))
        stores = Counter(x.id for x in ast.walk(fn) if isinstance(x, ast.Name) and not isinstance(x.ctx, ast.Load))
        stack = [fn.body]
        while stack:
            body = stack.pop()
            i = 0
            while i + 1 < len(body):
                a, b = body[i], body[i + 1]
                tgt = a.targets[0] if isinstance(a, ast.Assign) and len(a.targets) == 1 else (
                    a.target if isinstance(a, ast.AnnAssign) and a.value is not None else None)
                if isinstance(tgt, ast.Name) and isinstance(b, ast.Return) and isinstance(b.value, ast.Name) and b.value.id == tgt.id \
                        and loads[tgt.id] == 1 and stores[tgt.id] == 1 and not isinstance(a.value, (ast.Yield, ast.YieldFrom, ast.Await)):
                    b.value = a.value
                    del body[i]
                    n += 1
                    continue
                i += 1
            for st in body:
                if isinstance(st, (ast.FunctionDef, ast.AsyncFunctionDef, ast.ClassDef)):
                    continue
                for fld in ("body", "orelse", "finalbody"):
                    v = getattr(st, fld, None)
                    if isinstance(v, list) and v and isinstance(v[0], ast.stmt):
                        stack.append(v)
                if isinstance(st, ast.Try):
                    for h in st.handlers:
                        stack.append(h.body)
                if isinstance(st, ast.Match):
                    for c in st.cases:
                        stack.append(c.body)
    return n


def _canon_augassign(tree: ast.AST) -> int:
    """Normal form: `t = t + e` / `t = t - e` (t a name or attribute, the same text on both sides) is presented to the rules as
    `t += e` / `t -= e`, marked `from_binop` - for a container the two differ (`+=` extends in place, `t = t + e` rebinds), and the
    aliasing rules read the mark."""
    n = 0

    class Aug(ast.NodeTransformer):
        def visit_Assign(self, node):
            nonlocal n
            if len(node.targets) == 1 and isinstance(node.targets[0], (ast.Name, ast.Attribute)) and isinstance(node.value, ast.BinOp) \
                    and isinstance(node.value.op, (ast.Add, ast.Sub)) and ast.dump(node.value.left).replace("Load()", "") == \
                    ast.dump(node.targets[0]).replace("Store()", "").replace("Load()", ""):
                n += 1
                new = ast.copy_location(ast.AugAssign(target=node.targets[0], op=node.value.op, value=node.value.right), node)
                new.from_binop = True
                return new
            return node

    Aug().visit(tree)
    return n


def _canon_allany(tree: ast.AST) -> int:
    """Normal form: the search loop `for x in it: if [not] p(x): return <const>` followed by `return <other const>` is presented as
    `return all(p(x) for x in it)` / `return any(...)` (and the negated variants)."""
    n = 0
    for fn in ast.walk(tree):
        if not isinstance(fn, (ast.FunctionDef, ast.AsyncFunctionDef)):
            continue
        stack = [fn.body]
        while stack:
            body = stack.pop()
            i = 0
            while i + 1 < len(body):
                a, b = body[i], body[i + 1]
                if isinstance(a, ast.For) and not a.orelse and len(a.body) == 1 and isinstance(a.body[0], ast.If) and not a.body[0].orelse \
                        and len(a.body[0].body) == 1 and isinstance(a.body[0].body[0], ast.Return) \
                        and isinstance(a.body[0].body[0].value, ast.Constant) and isinstance(a.body[0].body[0].value.value, bool) \
                        and isinstance(b, ast.Return) and isinstance(b.value, ast.Constant) and isinstance(b.value.value, bool) \
                        and b.value.value != a.body[0].body[0].value.value \
                        and not any(isinstance(x, (ast.NamedExpr, ast.Await, ast.Yield)) for x in ast.walk(a.body[0].test)):
                    found = a.body[0].body[0].value.value  # value returned when the test holds for some element
                    test = a.body[0].test
                    if found:   # some element passes -> True, else False : any(test)
                        fname, elt = "any", test
                    else:       # some element passes the test -> False, else True : all(not test)
                        fname = "all"
                        elt = test.operand if isinstance(test, ast.UnaryOp) and isinstance(test.op, ast.Not) else ast.UnaryOp(op=ast.Not(), operand=test)
                    gen = ast.GeneratorExp(elt=elt, generators=[ast.comprehension(target=a.target, iter=a.iter, ifs=[], is_async=0)])
                    b.value = ast.copy_location(ast.Call(func=ast.Name(id=fname, ctx=ast.Load()), args=[gen], keywords=[]), a)
                    ast.fix_missing_locations(b)
                    del body[i]
                    n += 1
                    continue
                i += 1
            for st in body:
                if isinstance(st, (ast.FunctionDef, ast.AsyncFunctionDef, ast.ClassDef)):
                    continue
                for fld in ("body", "orelse", "finalbody"):
                    v = getattr(st, fld, None)
                    if isinstance(v, list) and v and isinstance(v[0], ast.stmt):
                        stack.append(v)
                if isinstance(st, ast.Try):
                    for h in st.handlers:
                        stack.append(h.body)
    return n


def _canon_tuple_assign(tree: ast.AST) -> int:
    """Normal form: `a, b = e1, e2` (plain name targets, none of them read by e1/e2) is presented as `a = e1` followed by `b = e2`."""
    n = 0
    for parent in ast.walk(tree):
        for fld in ("body", "orelse", "finalbody"):
            lst = getattr(parent, fld, None)
            if not (isinstance(lst, list) and lst and isinstance(lst[0], ast.stmt)):
                continue
            i = 0
            while i < len(lst):
                st = lst[i]
                if isinstance(st, ast.Assign) and len(st.targets) == 1 and isinstance(st.targets[0], ast.Tuple) and isinstance(st.value, ast.Tuple) \
                        and len(st.targets[0].elts) == len(st.value.elts) and all(isinstance(t, ast.Name) for t in st.targets[0].elts) \
                        and not any(isinstance(v, ast.Starred) for v in st.value.elts):
                    tn = {t.id for t in st.targets[0].elts}
                    if len(tn) == len(st.targets[0].elts) and not any(isinstance(x, ast.Name) and x.id in tn for v in st.value.elts for x in ast.walk(v)):
                        lst[i:i + 1] = [ast.copy_location(ast.Assign(targets=[t], value=v), st) for t, v in zip(st.targets[0].elts, st.value.elts)]
                        n += 1
                        continue
                i += 1
        if isinstance(parent, ast.Try):
            pass
    return n


def _canon_membership(tree: ast.AST) -> int:
    """Normal form: `x in frozenset({a, b})` / `tuple([...])` / `set((...))` / `list(...)` around a collection literal is presented as
    membership in the literal itself."""
    n = 0
    for c in ast.walk(tree):
        if isinstance(c, ast.Compare) and len(c.ops) == 1 and isinstance(c.ops[0], (ast.In, ast.NotIn)):
            r = c.comparators[0]
            if isinstance(r, ast.Call) and isinstance(r.func, ast.Name) and r.func.id in ("frozenset", "set", "tuple", "list") \
                    and len(r.args) == 1 and not r.keywords and isinstance(r.args[0], (ast.Tuple, ast.List, ast.Set)):
                c.comparators[0] = r.args[0]
                n += 1
    return n


def _canon_extend(tree: ast.AST) -> int:
    """Normal form: the statement `xs.extend(<elt> for v in it if c)` is presented as the loop it abbreviates:
    `for v in it:` / `if c:` / `xs.append(<elt>)`."""
    n = 0
    for parent in ast.walk(tree):
        for fld in ("body", "orelse", "finalbody"):
            lst = getattr(parent, fld, None)
            if not (isinstance(lst, list) and lst and isinstance(lst[0], ast.stmt)):
                continue
            for i, st in enumerate(lst):
                c = st.value if isinstance(st, ast.Expr) else None
                if isinstance(c, ast.Call) and isinstance(c.func, ast.Attribute) and c.func.attr == "extend" and len(c.args) == 1 and not c.keywords \
                        and isinstance(c.args[0], (ast.GeneratorExp, ast.ListComp)) and len(c.args[0].generators) == 1 \
                        and not c.args[0].generators[0].is_async and all(isinstance(x, (ast.Name, ast.Attribute, ast.Load)) for x in ast.walk(c.func.value)):
                    gen = c.args[0].generators[0]
                    inner: ast.stmt = ast.Expr(value=ast.Call(func=ast.Attribute(value=c.func.value, attr="append", ctx=ast.Load()),
                                                              args=[c.args[0].elt], keywords=[]))
                    for cond in reversed(gen.ifs):
                        inner = ast.If(test=cond, body=[inner], orelse=[])
                    loop = ast.For(target=gen.target, iter=gen.iter, body=[inner], orelse=[])
                    lst[i] = ast.fix_missing_locations(ast.copy_location(loop, st))
                    for x in ast.walk(lst[i]):
                        if not hasattr(x, "lineno") and isinstance(x, (ast.stmt, ast.expr)):
                            ast.copy_location(x, st)
                    n += 1
    return n


def _canon_enumerate(tree: ast.AST) -> int:
    """Normal form: `for i, v in enumerate(xs, start=k)` (comprehension or loop, i not rebound) is presented as `enumerate(xs)` with
    `i + k` wherever i is read; `dict(m)` of a plain name / attribute chain as `{**m}`."""
    n = 0

    def start_of(call: ast.AST):
        if not (isinstance(call, ast.Call) and isinstance(call.func, ast.Name) and call.func.id == "enumerate" and call.args):
            return None
        k = None
        if len(call.args) == 2 and not call.keywords:
            k = call.args[1]
        elif len(call.args) == 1 and len(call.keywords) == 1 and call.keywords[0].arg == "start":
            k = call.keywords[0].value
        if isinstance(k, ast.Constant) and isinstance(k.value, int) and not isinstance(k.value, bool) and k.value != 0:
            return k.value
        return None

    def shift(nodes, name: str, k: int) -> None:
        class S(ast.NodeTransformer):
            def visit_Name(self, node):
                if node.id == name and isinstance(node.ctx, ast.Load):
                    return ast.copy_location(ast.BinOp(left=node, op=ast.Add(), right=ast.Constant(value=k)), node)
                return node
        for holder, fld in nodes:
            v = getattr(holder, fld)
            if isinstance(v, list):
                setattr(holder, fld, [S().visit(x) for x in v])
            elif v is not None:
                setattr(holder, fld, S().visit(v))

    for node in ast.walk(tree):
        if isinstance(node, (ast.ListComp, ast.SetComp, ast.GeneratorExp, ast.DictComp)) and len(node.generators) == 1:
            g = node.generators[0]
            k = start_of(g.iter)
            if k is not None and isinstance(g.target, ast.Tuple) and len(g.target.elts) == 2 and isinstance(g.target.elts[0], ast.Name):
                g.iter = ast.copy_location(ast.Call(func=g.iter.func, args=[g.iter.args[0]], keywords=[]), g.iter)
                flds = [(node, "key"), (node, "value")] if isinstance(node, ast.DictComp) else [(node, "elt")]
                shift(flds + [(g, "ifs")], g.target.elts[0].id, k)
                ast.fix_missing_locations(node)
                n += 1
        elif isinstance(node, ast.For):
            k = start_of(node.iter)
            if k is not None and isinstance(node.target, ast.Tuple) and len(node.target.elts) == 2 and isinstance(node.target.elts[0], ast.Name) \
                    and not any(isinstance(x, ast.Name) and x.id == node.target.elts[0].id and not isinstance(x.ctx, ast.Load)
                                for st in node.body for x in ast.walk(st)):
                node.iter = ast.copy_location(ast.Call(func=node.iter.func, args=[node.iter.args[0]], keywords=[]), node.iter)
                shift([(node, "body")], node.target.elts[0].id, k)
                ast.fix_missing_locations(node)
                n += 1
    class D(ast.NodeTransformer):
        def visit_Call(self, node):
            nonlocal n
            self.generic_visit(node)
            if isinstance(node.func, ast.Name) and node.func.id == "dict" and len(node.args) == 1 and not node.keywords \
                    and isinstance(node.args[0], (ast.Name, ast.Attribute)) and all(isinstance(x, (ast.Name, ast.Attribute, ast.Load)) for x in ast.walk(node.args[0])):
                n += 1
                return ast.copy_location(ast.Dict(keys=[None], values=[node.args[0]]), node)
            return node
    D().visit(tree)
    return n


def _stmt_lists_of(tree: ast.AST):
    for parent in ast.walk(tree):
        for fld in ("body", "orelse", "finalbody"):
            lst = getattr(parent, fld, None)
            if isinstance(lst, list) and lst and isinstance(lst[0], ast.stmt):
                yield lst
        if isinstance(parent, ast.Try):
            for h in parent.handlers:
                yield h.body


def _canon_setdefault(tree: ast.AST) -> int:
    """Normal form: `x = d.setdefault(k, c)` (d, k plain chains, c a constant) is presented as `if k not in d: d[k] = c` followed by
    `x = d[k]`; the bare statement `d.setdefault(k, c)` as the `if` alone."""
    n = 0
    for lst in _stmt_lists_of(tree):
        i = 0
        while i < len(lst):
            st = lst[i]
            call = st.value if isinstance(st, (ast.Assign, ast.Expr)) else None
            if isinstance(call, ast.Call) and isinstance(call.func, ast.Attribute) and call.func.attr == "setdefault" and len(call.args) == 2 \
                    and not call.keywords and isinstance(call.args[1], ast.Constant) \
                    and all(isinstance(x, (ast.Name, ast.Attribute, ast.Load)) for a in (call.func.value, call.args[0]) for x in ast.walk(a)) \
                    and (isinstance(st, ast.Expr) or (len(st.targets) == 1 and isinstance(st.targets[0], ast.Name))):
                d, k, c = call.func.value, call.args[0], call.args[1]
                import copy as _copy
                guard = ast.If(test=ast.Compare(left=_copy.deepcopy(k), ops=[ast.NotIn()], comparators=[_copy.deepcopy(d)]),
                               body=[ast.Assign(targets=[ast.Subscript(value=_copy.deepcopy(d), slice=_copy.deepcopy(k), ctx=ast.Store())], value=c)],
                               orelse=[])
                new = [guard]
                if isinstance(st, ast.Assign):
                    new.append(ast.Assign(targets=st.targets, value=ast.Subscript(value=d, slice=k, ctx=ast.Load())))
                for x in new:
                    ast.copy_location(x, st)
                    ast.fix_missing_locations(x)
                lst[i:i + 1] = new
                n += 1
                i += len(new)
                continue
            i += 1
    return n


def _canon_append_loop(tree: ast.AST) -> int:
    """Normal form: `xs = []` immediately followed by `for v in it:` whose body only appends to xs (possibly under `if`s without else)
    is presented as `xs = [<elt> for v in it if ...]`."""
    n = 0
    for lst in _stmt_lists_of(tree):
        i = 0
        while i + 1 < len(lst):
            a, b = lst[i], lst[i + 1]
            tgt = a.targets[0] if isinstance(a, ast.Assign) and len(a.targets) == 1 else (a.target if isinstance(a, ast.AnnAssign) and a.value is not None else None)
            if isinstance(tgt, ast.Name) and isinstance(a.value, ast.List) and not a.value.elts and isinstance(b, ast.For) and not b.orelse \
                    and len(b.body) == 1:
                conds = []
                inner = b.body[0]
                while isinstance(inner, ast.If) and not inner.orelse and len(inner.body) == 1:
                    conds.append(inner.test)
                    inner = inner.body[0]
                c = inner.value if isinstance(inner, ast.Expr) else None
                if isinstance(c, ast.Call) and isinstance(c.func, ast.Attribute) and c.func.attr == "append" and isinstance(c.func.value, ast.Name) \
                        and c.func.value.id == tgt.id and len(c.args) == 1 and not c.keywords \
                        and not any(isinstance(x, ast.Name) and x.id == tgt.id for e in [c.args[0], b.iter] + conds for x in ast.walk(e)) \
                        and not any(isinstance(x, (ast.Await, ast.Yield, ast.NamedExpr)) for x in ast.walk(b)):
                    comp = ast.ListComp(elt=c.args[0], generators=[ast.comprehension(target=b.target, iter=b.iter, ifs=conds, is_async=0)])
                    a.value = ast.copy_location(comp, b)
                    ast.fix_missing_locations(a)
                    del lst[i + 1]
                    n += 1
                    continue
            i += 1
    return n


def _canon_arg_local(tree: ast.AST) -> int:
    """Normal form: `x = <expr>` immediately followed by a statement that consists of one call taking `x` directly as an argument -
    x bound once and read once in the function, nothing else in that call being a call itself (so the order of evaluation is the
    same) - is presented with the expression in place of x (`item = Item(..)` / `self.history.append(item)`)."""
    from collections import Counter
    n = 0
    for fn in ast.walk(tree):
        if not isinstance(fn, (ast.FunctionDef, ast.AsyncFunctionDef)):
            continue
        loads = Counter(x.id for x in ast.walk(fn) if isinstance(x, ast.Name) and isinstance(x.ctx, ast.Load))
        stores = Counter(x.id for x in ast.walk(fn) if isinstance(x, ast.Name) and not isinstance(x.ctx, ast.Load))
        for lst in _stmt_lists_of(fn):
            i = 0
            while i + 1 < len(lst):
                a, b = lst[i], lst[i + 1]
                tgt = a.targets[0] if isinstance(a, ast.Assign) and len(a.targets) == 1 else (
                    a.target if isinstance(a, ast.AnnAssign) and a.value is not None else None)
                call = b.value if isinstance(b, (ast.Expr, ast.Return, ast.Assign)) else None
                if isinstance(tgt, ast.Name) and isinstance(call, ast.Call) and loads[tgt.id] == 1 and stores[tgt.id] == 1 \
                        and isinstance(a.value, ast.Call) and not any(isinstance(x, (ast.Await, ast.Yield, ast.YieldFrom, ast.NamedExpr)) for x in ast.walk(a.value)):
                    slots = [(call.args, j) for j, x in enumerate(call.args) if isinstance(x, ast.Name) and x.id == tgt.id] + \
                            [(k, None) for k in call.keywords if isinstance(k.value, ast.Name) and k.value.id == tgt.id]
                    others = [x for x in call.args if not (isinstance(x, ast.Name) and x.id == tgt.id)] + \
                             [k.value for k in call.keywords if not (isinstance(k.value, ast.Name) and k.value.id == tgt.id)] + [call.func]
                    if len(slots) == 1 and not any(isinstance(y, ast.Call) for x in others for y in ast.walk(x)):
                        holder, j = slots[0]
                        if j is None:
                            holder.value = a.value
                        else:
                            holder[j] = a.value
                        del lst[i]
                        n += 1
                        continue
                i += 1
    return n


def _canon_items(tree: ast.AST) -> int:
    """Normal form: `for k in d:` whose first statement is `v = d[k]` (d a name or attribute chain, v bound nowhere else in the
    loop) is presented to the rules as `for k, v in d.items():`."""
    n = 0
    for lp in ast.walk(tree):
        if not (isinstance(lp, ast.For) and isinstance(lp.target, ast.Name) and lp.body and isinstance(lp.body[0], ast.Assign)):
            continue
        a = lp.body[0]
        if len(a.targets) != 1 or not isinstance(a.targets[0], ast.Name):
            continue
        if isinstance(a.value, ast.Call) and isinstance(a.value.func, ast.Attribute) and a.value.func.attr == "get" and len(a.value.args) == 1 \
                and not a.value.keywords:
            # `v = d.get(k)` for a key k taken from d itself is `v = d[k]`
            a_val = ast.Subscript(value=a.value.func.value, slice=a.value.args[0], ctx=ast.Load())
        else:
            a_val = a.value
        if not isinstance(a_val, ast.Subscript):
            continue
        d = lp.iter
        if isinstance(d, ast.Call) and isinstance(d.func, ast.Attribute) and d.func.attr == "keys" and not d.args:
            d = d.func.value
        if not all(isinstance(x, (ast.Name, ast.Attribute, ast.Load)) for x in ast.walk(d)):
            continue
        if ast.dump(a_val.value) != ast.dump(d) or not (isinstance(a_val.slice, ast.Name) and a_val.slice.id == lp.target.id):
            continue
        v = a.targets[0]
        if v.id == lp.target.id or sum(1 for x in ast.walk(lp) if isinstance(x, ast.Name) and x.id == v.id and not isinstance(x.ctx, ast.Load)) != 1:
            continue
        lp.target = ast.copy_location(ast.Tuple(elts=[ast.Name(id=lp.target.id, ctx=ast.Store()), v], ctx=ast.Store()), lp.target)
        lp.iter = ast.copy_location(ast.Call(func=ast.Attribute(value=d, attr="items", ctx=ast.Load()), args=[], keywords=[]), lp.iter)
        del lp.body[0]
        if not lp.body:
            lp.body.append(ast.copy_location(ast.Pass(), a))
        ast.fix_missing_locations(lp)
        n += 1
    return n


class Index:
    def __init__(self, repo: str = REPO, overlay: Optional[Dict[str, str]] = None):
        self.repo = repo
        self.overlay = overlay or {}
        self.canonicalised = 0  # `x = e; return x` pairs presented to the rules as `return e`
        self.modules: Dict[str, ModuleInfo] = {}
        self.by_path: Dict[str, ModuleInfo] = {}
        self.classes: Dict[str, ClassInfo] = {}
        self.functions: List[FuncInfo] = []
        self._by_simple: Dict[str, List[ClassInfo]] = {}
        self._subs: Dict[str, List[ClassInfo]] = {}
        self._load()
        self._resolve_bases()

    # ---------------------------------------------------------------- loading
    def _load(self) -> None:
        root = os.path.join(self.repo, PKG_ROOT)
        if not os.path.isdir(root):
            raise AnalysisError(f"package root {root} not found")
        paths: List[str] = []
        for d, dirs, files in os.walk(root):
            dirs[:] = sorted(x for x in dirs if x != "__pycache__")
            for f in sorted(files):
                if f.endswith(".py"):
                    paths.append(os.path.join(d, f))
        for p in paths:
            rel = os.path.relpath(p, self.repo)
            if rel in self.overlay:
                src = self.overlay[rel]
            else:
                with open(p, encoding="utf-8") as fh:
                    src = fh.read()
            try:
                tree = ast.parse(src, filename=rel)
            except SyntaxError as e:
                raise AnalysisError(f"cannot parse {rel}: {e}")
            modname = rel[len("src/") : -3].replace("/", ".")
            if modname.endswith(".__init__"):
                modname = modname[: -len(".__init__")]
            mi = ModuleInfo(modname, rel, tree, src)
            self.modules[modname] = mi
            self.by_path[rel] = mi
        # normal form (DESIGN section 10): private helpers no rule anchors on are spliced into their callers, then the
        # spelling-level normal forms are applied; real tree and overlays alike
        from .normalform import inline_private_helpers, undo_method_renames
        self.renamed_back = undo_method_renames({mi.path: mi.tree for mi in self.modules.values()})
        self.inlined = inline_private_helpers({mi.path: mi.tree for mi in self.modules.values()})
        from .normalform import inline_new_constants
        self.inlined += inline_new_constants({mi.path: mi.tree for mi in self.modules.values()})
        from .normalform import dehoist_chains, unalias_fresh_containers
        self.dehoisted = 0
        for mi in self.modules.values():
            self.canonicalised += unalias_fresh_containers(mi.tree)
            self.canonicalised += _canon_setdefault(mi.tree) + _canon_extend(mi.tree) + _canon_append_loop(mi.tree) + _canon_enumerate(mi.tree)
            self.canonicalised += _canon_items(mi.tree)  # before de-hoisting: `v = d[k]` in a key loop is the loop's value, not a hoisted chain
            self.dehoisted += dehoist_chains(mi.tree)
            self.canonicalised += _canon_arg_local(mi.tree) + _canon_returns(mi.tree) + _canon_augassign(mi.tree) + _canon_items(mi.tree) + _canon_allany(mi.tree) + _canon_tuple_assign(mi.tree) + _canon_membership(mi.tree)
        for mi in self.modules.values():
            self._scan_module(mi)
        self._publish_predicates()

    def _publish_predicates(self) -> None:
        """Single-expression predicate methods (plain or static, body = `return <boolean expression over self and the parameters>`),
        unique by name in the repository, are handed to the flow-graph builder: a branch on `self.pred(x)` is a branch on the
        predicate's expression."""
        from . import cfg as _cfg
        by_name: Dict[str, List[ast.FunctionDef]] = {}
        for mi in self.modules.values():
            for c in ast.walk(mi.tree):
                if isinstance(c, ast.ClassDef):
                    for m in c.body:
                        if isinstance(m, ast.FunctionDef):
                            by_name.setdefault(m.name, []).append(m)
        for mi in self.modules.values():
            for m in mi.tree.body:
                if isinstance(m, ast.FunctionDef):
                    m._module_level = True  # type: ignore[attr-defined]
                    by_name.setdefault(m.name, []).append(m)
        preds: Dict[str, ast.FunctionDef] = {}
        from .normalform import rule_names
        known = rule_names()
        for nm, defs in by_name.items():
            if len(defs) != 1 or nm.startswith("__") or nm in known:
                continue  # a predicate a rule names is an anchor of that rule and is analysed as a function of its own
            m = defs[0]
            decos = [ast.unparse(d) for d in m.decorator_list]
            if any(d != "staticmethod" for d in decos):
                continue
            body = [st for st in m.body if not (isinstance(st, ast.Expr) and isinstance(st.value, ast.Constant))]
            if len(body) == 1 and isinstance(body[0], ast.Return) and isinstance(body[0].value, (ast.BoolOp, ast.Compare, ast.UnaryOp)) \
                    and not any(isinstance(x, (ast.Lambda, ast.NamedExpr, ast.Await, ast.Yield)) for x in ast.walk(body[0].value)) \
                    and not (getattr(m, "_module_level", False) and any(isinstance(x, ast.Call) for x in ast.walk(body[0].value))):
                preds[nm] = m
        _cfg.set_predicates(preds)
        self.predicates = sorted(preds)

    def _scan_imports(self, mi: ModuleInfo) -> None:
        pkg = mi.name if mi.path.endswith("__init__.py") else mi.name.rsplit(".", 1)[0]
        for node in ast.walk(mi.tree):
            if isinstance(node, ast.Import):
                for a in node.names:
                    mi.imports[a.asname or a.name.split(".")[0]] = a.name if a.asname else a.name.split(".")[0]
            elif isinstance(node, ast.ImportFrom):
                base = node.module or ""
                if node.level:
                    parts = pkg.split(".")
                    parts = parts[: len(parts) - (node.level - 1)]
                    base = ".".join(parts + ([node.module] if node.module else []))
                for a in node.names:
                    mi.imports[a.asname or a.name] = f"{base}.{a.name}"

    def _scan_module(self, mi: ModuleInfo) -> None:
        self._scan_imports(mi)
        for stmt in mi.tree.body:
            self._scan_stmt(stmt, mi, None, None)
        # statements nested in module-level if/try (e.g. TYPE_CHECKING) may define classes too
        for stmt in mi.tree.body:
            if isinstance(stmt, (ast.If, ast.Try)):
                for sub in ast.walk(stmt):
                    if isinstance(sub, (ast.ClassDef, ast.FunctionDef)) and sub is not stmt:
                        if isinstance(sub, ast.ClassDef) and sub.name not in mi.classes:
                            self._scan_stmt(sub, mi, None, None)

    def _scan_stmt(self, stmt: ast.AST, mi: ModuleInfo, cls: Optional[ClassInfo], fn: Optional[FuncInfo]) -> None:
        if isinstance(stmt, ast.ClassDef):
            prefix = cls.qualname if cls else (fn.qualname + ".<locals>" if fn else mi.name)
            ci = ClassInfo(f"{prefix}.{stmt.name}", stmt.name, stmt, mi, cls)
            ci.base_exprs = list(stmt.bases)
            ci.keywords = {k.arg: k.value for k in stmt.keywords if k.arg}
            self.classes[ci.qualname] = ci
            self._by_simple.setdefault(ci.name, []).append(ci)
            if cls:
                cls.nested[ci.name] = ci
            elif fn is None:
                mi.classes[ci.name] = ci
            for s in stmt.body:
                if isinstance(s, ast.AnnAssign) and isinstance(s.target, ast.Name):
                    ann_txt = unparse(s.annotation)
                    ci.fields[s.target.id] = FieldInfo(
                        s.target.id, s.annotation, s.value, s, ann_txt.startswith("ClassVar") or "ClassVar[" in ann_txt
                    )
                elif isinstance(s, ast.Assign):
                    for t in s.targets:
                        if isinstance(t, ast.Name):
                            ci.fields[t.id] = FieldInfo(t.id, None, s.value, s, True)
                self._scan_stmt(s, mi, ci, None)
        elif isinstance(stmt, (ast.FunctionDef, ast.AsyncFunctionDef)):
            if fn is not None:
                q = f"{fn.qualname}.<locals>.{stmt.name}"
            elif cls is not None:
                q = f"{cls.qualname}.{stmt.name}"
            else:
                q = f"{mi.name}.{stmt.name}"
            fi = FuncInfo(q, stmt.name, stmt, mi, cls if fn is None else None, fn, [unparse(d) for d in stmt.decorator_list])
            self.functions.append(fi)
            if fn is None and cls is not None:
                # property setter shares the name with the getter: keep the getter under the name, setter under name.setter
                if any(d.endswith(".setter") for d in fi.decorators) and stmt.name in cls.methods:
                    cls.methods[stmt.name + ".setter"] = fi
                else:
                    cls.methods[stmt.name] = fi
            elif fn is None and cls is None:
                mi.functions[stmt.name] = fi
            for s in ast.walk(stmt):
                if s is stmt:
                    continue
            self._scan_nested(stmt, mi, fi)

    def _scan_nested(self, fnode: ast.AST, mi: ModuleInfo, fi: FuncInfo) -> None:
        """Register nested defs / classes (one level at a time) inside a function body."""
        stack = list(ast.iter_child_nodes(fnode))
        while stack:
            n = stack.pop()
            if isinstance(n, (ast.FunctionDef, ast.AsyncFunctionDef, ast.ClassDef)):
                self._scan_stmt(n, mi, None, fi)
                continue
            if isinstance(n, ast.Lambda):
                continue
            stack.extend(ast.iter_child_nodes(n))

    # ---------------------------------------------------------------- class hierarchy
    def _resolve_expr_to_class(self, expr: ast.AST, mi: ModuleInfo, scope: Optional[ClassInfo]) -> Optional[ClassInfo]:
        if isinstance(expr, ast.Constant) and isinstance(expr.value, str):
            try:
                expr = ast.parse(expr.value, mode="eval").body
            except SyntaxError:
                return None
        if isinstance(expr, ast.Subscript):  # Generic[T] etc.
            expr = expr.value
        ch = attr_chain(expr)
        if not ch or "()" in ch or "[]" in ch:
            return None
        head, rest = ch[0], ch[1:]
        cur: Optional[ClassInfo] = None
        # lexical: nested classes of enclosing classes
        s = scope
        while s is not None and cur is None:
            if head in s.nested:
                cur = s.nested[head]
            elif head == s.name:
                cur = s
            s = s.outer
        if cur is None and head in mi.classes:
            cur = mi.classes[head]
        if cur is None and head in mi.imports:
            tgt = mi.imports[head]
            cur = self.classes.get(tgt)
            if cur is None:
                # re-exported through a package __init__
                modname, _, nm = tgt.rpartition(".")
                m2 = self.modules.get(modname)
                seen = set()
                while m2 is not None and cur is None and (m2.name, nm) not in seen:
                    seen.add((m2.name, nm))
                    if nm in m2.classes:
                        cur = m2.classes[nm]
                    elif nm in m2.imports:
                        t2 = m2.imports[nm]
                        cur = self.classes.get(t2)
                        modname, _, nm = t2.rpartition(".")
                        m2 = self.modules.get(modname)
                    else:
                        break
        if cur is None:
            return None
        for r in rest:
            nxt = None
            for c in self.mro(cur) if cur.bases or cur._mro else [cur]:
                if r in c.nested:
                    nxt = c.nested[r]
                    break
            if nxt is None:
                return None
            cur = nxt
        return cur

    def _resolve_bases(self) -> None:
        # two passes so that bases referring to nested classes of bases resolve
        for _ in range(2):
            for ci in self.classes.values():
                ci.bases, ci.unknown_bases, ci._mro = [], [], None
                for b in ci.base_exprs:
                    r = self._resolve_expr_to_class(b, ci.module, ci.outer)
                    if r is not None and r is not ci:
                        ci.bases.append(r)
                    else:
                        ci.unknown_bases.append(unparse(b))
        self._subs = {}
        for ci in self.classes.values():
            for b in ci.bases:
                self._subs.setdefault(b.qualname, []).append(ci)

    def mro(self, ci: ClassInfo) -> List[ClassInfo]:
        if ci._mro is not None:
            return ci._mro
        ci._mro = [ci]  # recursion guard
        seqs = [list(self.mro(b)) for b in ci.bases] + [list(ci.bases)]
        res = [ci]
        while True:
            seqs = [s for s in seqs if s]
            if not seqs:
                break
            cand = None
            for s in seqs:
                c = s[0]
                if not any(c in o[1:] for o in seqs):
                    cand = c
                    break
            if cand is None:  # inconsistent hierarchy: fall back to DFS order
                cand = seqs[0][0]
            res.append(cand)
            for s in seqs:
                if s and s[0] is cand:
                    del s[0]
        ci._mro = res
        return res

    def subclasses(self, ci: ClassInfo, include_self: bool = False) -> List[ClassInfo]:
        out: List[ClassInfo] = [ci] if include_self else []
        seen = {ci.qualname}
        stack = list(self._subs.get(ci.qualname, []))
        while stack:
            c = stack.pop()
            if c.qualname in seen:
                continue
            seen.add(c.qualname)
            out.append(c)
            stack.extend(self._subs.get(c.qualname, []))
        out.sort(key=lambda c: c.qualname)
        return out

    def is_subclass(self, ci: ClassInfo, base: ClassInfo) -> bool:
        return base in self.mro(ci)

    # ---------------------------------------------------------------- lookup
    def cls(self, name: str) -> ClassInfo:
        """Look a class up by qualname, by 'Outer.Inner' short name or by unique simple name."""
        if name in self.classes:
            return self.classes[name]
        cands = [c for c in self.classes.values() if c.short == name]
        if not cands and "." not in name:
            cands = self._by_simple.get(name, [])
        if len(cands) == 1:
            return cands[0]
        if not cands:
            raise AnalysisError(f"anchor class {name!r} not found in the working tree")
        raise AnalysisError(f"class name {name!r} is ambiguous: {[c.qualname for c in cands]}")

    def cls_opt(self, name: str) -> Optional[ClassInfo]:
        try:
            return self.cls(name)
        except AnalysisError:
            return None

    def find_method(self, ci: ClassInfo, name: str) -> Optional[FuncInfo]:
        for c in self.mro(ci):
            if name in c.methods:
                return c.methods[name]
        return None

    def method(self, spec: str) -> FuncInfo:
        """'Class.method' -> the method defined *in that class* (anchor lookup; AnalysisError if missing)."""
        cname, _, m = spec.rpartition(".")
        ci = self.cls(cname)
        if m not in ci.methods:
            raise AnalysisError(f"anchor method {spec!r} not found (class {ci.qualname} has no own '{m}')")
        return ci.methods[m]

    def method_mro(self, spec: str) -> FuncInfo:
        cname, _, m = spec.rpartition(".")
        f = self.find_method(self.cls(cname), m)
        if f is None:
            raise AnalysisError(f"anchor method {spec!r} not found along the MRO")
        return f

    def module_func(self, modname: str, fname: str) -> FuncInfo:
        mi = self.modules.get(modname)
        if mi is None or fname not in mi.functions:
            raise AnalysisError(f"anchor function {modname}.{fname} not found")
        return mi.functions[fname]

    def overrides(self, ci: ClassInfo, name: str) -> List[FuncInfo]:
        """Every definition of `name` in ci or any subclass (class-hierarchy analysis targets)."""
        out = []
        for c in self.subclasses(ci, include_self=True):
            if name in c.methods:
                out.append(c.methods[name])
        return out

    def nested_funcs(self, fi: FuncInfo) -> List[FuncInfo]:
        return [f for f in self.functions if f.parent is fi]

    def find_field(self, ci: ClassInfo, name: str) -> Optional[Tuple[ClassInfo, FieldInfo]]:
        for c in self.mro(ci):
            if name in c.fields:
                return c, c.fields[name]
        return None

    # ---------------------------------------------------------------- enums
    def is_enum(self, ci: ClassInfo) -> bool:
        for c in self.mro(ci):
            for u in c.unknown_bases:
                if u.split(".")[-1] in ("Enum", "IntEnum", "StrEnum", "Flag", "IntFlag"):
                    return True
        return False

    def enum_members(self, ci: ClassInfo) -> Dict[str, object]:
        out: Dict[str, object] = {}
        for s in ci.node.body:
            if isinstance(s, ast.Assign) and len(s.targets) == 1 and isinstance(s.targets[0], ast.Name):
                nm = s.targets[0].id
                if nm.startswith("_"):
                    continue
                try:
                    out[nm] = ast.literal_eval(s.value)
                except Exception:
                    out[nm] = unparse(s.value)
        return out

    # ---------------------------------------------------------------- annotation-based typing
    def ann_class(self, ann: Optional[ast.AST], mi: ModuleInfo, scope: Optional[ClassInfo]) -> Tuple[Optional[ClassInfo], str]:
        """Resolve an annotation to (class, shape) with shape in scalar/dict/list/set/unknown.

        Optional[X] / Union[X, None] / "X" are unwrapped; Dict[K, V] -> (V, 'dict'); List[V] -> (V, 'list').
        """
        if ann is None:
            return None, "unknown"
        if isinstance(ann, ast.Constant) and isinstance(ann.value, str):
            try:
                ann = ast.parse(ann.value, mode="eval").body
            except SyntaxError:
                return None, "unknown"
        if isinstance(ann, ast.BinOp) and isinstance(ann.op, ast.BitOr):  # X | None
            for side in (ann.left, ann.right):
                if not (isinstance(side, ast.Constant) and side.value is None):
                    return self.ann_class(side, mi, scope)
        if isinstance(ann, ast.Subscript):
            head = unparse(ann.value).split(".")[-1]
            sl = ann.slice
            elts = list(sl.elts) if isinstance(sl, ast.Tuple) else [sl]
            if head in ("Optional", "ClassVar", "Final", "Annotated", "Type", "type"):
                return self.ann_class(elts[0], mi, scope)
            if head == "Union":
                for e in elts:
                    if not (isinstance(e, ast.Constant) and e.value is None):
                        c, sh = self.ann_class(e, mi, scope)
                        if c is not None:
                            return c, sh
                return None, "unknown"
            if head in ("Dict", "dict", "Mapping", "OrderedDict", "DefaultDict"):
                c, _ = self.ann_class(elts[-1], mi, scope) if len(elts) == 2 else (None, "")
                return c, "dict"
            if head in ("List", "list", "Sequence", "Iterable", "Tuple", "tuple"):
                c, _ = self.ann_class(elts[0], mi, scope)
                return c, "list"
            if head in ("Set", "set", "FrozenSet", "frozenset"):
                c, _ = self.ann_class(elts[0], mi, scope)
                return c, "set"
            return None, "unknown"
        c = self._resolve_expr_to_class(ann, mi, scope)
        return c, "scalar" if c is not None else "unknown"

    def attr_type(self, ci: ClassInfo, attr: str) -> Tuple[Optional[ClassInfo], str]:
        """Type of `instance_of_ci.attr` from a field annotation or a property's return annotation."""
        for c in self.mro(ci):
            if attr in c.fields and c.fields[attr].ann is not None:
                return self.ann_class(c.fields[attr].ann, c.module, c)
            if attr in c.methods and c.methods[attr].is_property:
                fn = c.methods[attr].node
                return self.ann_class(getattr(fn, "returns", None), c.module, c)
        # attributes of plain classes: `self.attr: T = ...` or `self.attr = <annotated parameter>` in __init__
        for c in self.mro(ci):
            init = c.methods.get("__init__")
            if init is None:
                continue
            pann = {a.arg: a.annotation for a in init.node.args.args + init.node.args.kwonlyargs if a.annotation is not None}
            for n in ast.walk(init.node):
                tgt = val = ann = None
                if isinstance(n, ast.AnnAssign):
                    tgt, val, ann = n.target, n.value, n.annotation
                elif isinstance(n, ast.Assign) and len(n.targets) == 1:
                    tgt, val = n.targets[0], n.value
                if (isinstance(tgt, ast.Attribute) and tgt.attr == attr and isinstance(tgt.value, ast.Name)
                        and tgt.value.id == "self"):
                    if ann is not None:
                        r = self.ann_class(ann, c.module, c)
                        if r[0] is not None:
                            return r
                    if isinstance(val, ast.Name) and val.id in pann:
                        r = self.ann_class(pann[val.id], c.module, c)
                        if r[0] is not None:
                            return r
                    if isinstance(val, ast.Call):
                        k = self._resolve_expr_to_class(val.func, c.module, c)
                        if k is not None:
                            return k, "scalar"
        return None, "unknown"

    def dead_modules(self) -> Set[str]:
        """Modules that cannot be imported: they import a name from a repo module that does not define it."""
        dead: Set[str] = set()
        for mi in self.modules.values():
            skip: Set[int] = set()
            for n in ast.walk(mi.tree):
                if isinstance(n, ast.If) and "TYPE_CHECKING" in unparse(n.test):
                    for sub in ast.walk(n):
                        skip.add(id(sub))
            for n in ast.walk(mi.tree):
                if id(n) in skip:
                    continue
                if isinstance(n, ast.ImportFrom) and n.module and n.level == 0 and n.module in self.modules:
                    tgt = self.modules[n.module]
                    defined = set(tgt.classes) | set(tgt.functions) | set(tgt.imports)
                    for s in ast.walk(tgt.tree):
                        if isinstance(s, (ast.Assign, ast.AnnAssign)):
                            for t in (s.targets if isinstance(s, ast.Assign) else [s.target]):
                                if isinstance(t, ast.Name):
                                    defined.add(t.id)
                    for a in n.names:
                        if a.name != "*" and a.name not in defined and f"{n.module}.{a.name}" not in self.modules:
                            dead.add(mi.path)
        return dead

    def all_functions(self) -> Iterator[FuncInfo]:
        return iter(self.functions)

    def funcs_in_module(self, path: str) -> List[FuncInfo]:
        return [f for f in self.functions if f.path == path]


def lambdas_in(node: ast.AST) -> List[ast.Lambda]:
    return [n for n in ast.walk(node) if isinstance(n, ast.Lambda)]
