"""Small AST helpers shared by all engines."""
from __future__ import annotations

import ast
from typing import Set, Iterable, Iterator, List, Optional, Sequence, Tuple

FUNC_NODES = (ast.FunctionDef, ast.AsyncFunctionDef, ast.Lambda)
SCOPE_NODES = FUNC_NODES + (ast.ClassDef,)


def unparse(node: Optional[ast.AST]) -> str:
    """Normalised source text of a node (single line, whitespace collapsed)."""
    if node is None:
        return ""
    try:
        s = ast.unparse(node)
    except Exception:  # pragma: no cover - defensive
        s = ast.dump(node)
    return " ".join(s.split())


def walk_shallow(node: ast.AST, *, include_root: bool = True) -> Iterator[ast.AST]:
    """Walk a node without entering nested function / lambda / class bodies.

    Code inside a nested def or lambda is not executed when the enclosing statement runs, so events (calls, stores)
    found there must not be attributed to the statement.
    """
    stack: List[ast.AST] = [node]
    first = True
    while stack:
        cur = stack.pop()
        if first:
            first = False
            if include_root:
                yield cur
        else:
            yield cur
        for child in ast.iter_child_nodes(cur):
            if isinstance(child, SCOPE_NODES):
                # decorators/defaults of a nested def are evaluated, but they never matter for our rules
                continue
            stack.append(child)


def attr_chain(expr: ast.AST) -> Optional[List[str]]:
    """`self.a.b.c` -> ['self', 'a', 'b', 'c'];  `f(x).y` -> None;  subscripts are skipped: `a.b[k].c` -> a,b,[],c."""
    parts: List[str] = []
    cur = expr
    while True:
        if isinstance(cur, ast.Attribute):
            parts.append(cur.attr)
            cur = cur.value
        elif isinstance(cur, ast.Subscript):
            parts.append("[]")
            cur = cur.value
        elif isinstance(cur, ast.Name):
            parts.append(cur.id)
            break
        elif isinstance(cur, ast.Call):
            parts.append("()")
            cur = cur.func
        else:
            return None
    parts.reverse()
    return parts


def dotted(expr: ast.AST) -> Optional[str]:
    ch = attr_chain(expr)
    return ".".join(ch) if ch else None


def call_name(call: ast.Call) -> Optional[str]:
    """Last component of the callee: `a.b.c(...)` -> 'c', `f(...)` -> 'f'."""
    f = call.func
    if isinstance(f, ast.Attribute):
        return f.attr
    if isinstance(f, ast.Name):
        return f.id
    return None


def calls_in(node: ast.AST) -> List[ast.Call]:
    return [n for n in walk_shallow(node) if isinstance(n, ast.Call)]


def calls_named(node: ast.AST, names: Iterable[str]) -> List[ast.Call]:
    names = set(names)
    return [c for c in calls_in(node) if call_name(c) in names]


def is_const(node: ast.AST, value=...) -> bool:
    if not isinstance(node, ast.Constant):
        return False
    return value is ... or (node.value == value and type(node.value) is type(value))


def const_value(node: ast.AST):
    """Literal evaluation limited to constants/containers/unary minus; returns (ok, value)."""
    try:
        return True, ast.literal_eval(node)
    except Exception:
        return False, None


def kwarg(call: ast.Call, name: str, pos: Optional[int] = None) -> Optional[ast.AST]:
    for kw in call.keywords:
        if kw.arg == name:
            return kw.value
    if pos is not None and len(call.args) > pos and not any(isinstance(a, ast.Starred) for a in call.args[: pos + 1]):
        return call.args[pos]
    return None


def names_loaded(node: ast.AST) -> List[str]:
    return [n.id for n in ast.walk(node) if isinstance(n, ast.Name) and isinstance(n.ctx, ast.Load)]


def store_targets(stmt: ast.AST) -> List[Tuple[ast.AST, Optional[ast.AST], str]]:
    """All store targets of a statement as (target, value, kind) where kind in assign/aug/ann/del/for/with.

    Tuple targets are flattened (value is then the whole right-hand side).
    """
    out: List[Tuple[ast.AST, Optional[ast.AST], str]] = []

    def flat(t: ast.AST, v: Optional[ast.AST], kind: str) -> None:
        if isinstance(t, (ast.Tuple, ast.List)):
            for i, e in enumerate(t.elts):
                sub = v.elts[i] if isinstance(v, (ast.Tuple, ast.List)) and len(v.elts) == len(t.elts) else v
                flat(e, sub, kind)
        elif isinstance(t, ast.Starred):
            flat(t.value, v, kind)
        else:
            out.append((t, v, kind))

    if isinstance(stmt, ast.Assign):
        for t in stmt.targets:
            flat(t, stmt.value, "assign")
    elif isinstance(stmt, ast.AugAssign):
        out.append((stmt.target, stmt.value, "aug"))
    elif isinstance(stmt, ast.AnnAssign):
        if stmt.value is not None:
            out.append((stmt.target, stmt.value, "ann"))
    elif isinstance(stmt, ast.Delete):
        for t in stmt.targets:
            flat(t, None, "del")
    elif isinstance(stmt, (ast.For, ast.AsyncFor)):
        flat(stmt.target, stmt.iter, "for")
    elif isinstance(stmt, (ast.With, ast.AsyncWith)):
        for it in stmt.items:
            if it.optional_vars is not None:
                flat(it.optional_vars, it.context_expr, "with")
    elif isinstance(stmt, ast.NamedExpr):
        out.append((stmt.target, stmt.value, "assign"))
    return out


MUTATING_METHODS = {
    "append", "pop", "update", "clear", "remove", "setdefault", "extend", "insert", "add", "discard", "popitem",
    "sort", "reverse", "appendleft", "popleft", "difference_update", "intersection_update",
}


def strip_not(expr: ast.AST) -> Tuple[ast.AST, bool]:
    """Peel `not`s: returns (inner, positive) where positive is False for an odd number of nots."""
    pos = True
    while isinstance(expr, ast.UnaryOp) and isinstance(expr.op, ast.Not):
        expr = expr.operand
        pos = not pos
    return expr, pos


def func_params(fn: ast.AST) -> List[str]:
    a = fn.args
    return [x.arg for x in list(a.posonlyargs) + list(a.args) + list(a.kwonlyargs)]


def iter_stmts(body: Sequence[ast.stmt]) -> Iterator[ast.stmt]:
    """All statements in a body, recursively, without entering nested defs/classes."""
    for s in body:
        yield s
        for fld in ("body", "orelse", "finalbody"):
            sub = getattr(s, fld, None)
            if isinstance(sub, list) and not isinstance(s, SCOPE_NODES):
                yield from iter_stmts(sub)
        if isinstance(s, ast.Try):
            for h in s.handlers:
                yield from iter_stmts(h.body)
        if isinstance(s, ast.Match):
            for c in s.cases:
                yield from iter_stmts(c.body)


def skippable_calls(root: ast.AST) -> Set[int]:
    """ids of the Call nodes inside `root` that short-circuit evaluation may skip: a later operand of and/or, an arm of a
    conditional expression, the element or a later clause of a comprehension.  (`a = a or f()` calls f only when a is falsy.)"""
    out: Set[int] = set()

    def visit(e: ast.AST, skippable: bool) -> None:
        if isinstance(e, ast.Call) and skippable:
            out.add(id(e))
        if isinstance(e, ast.BoolOp):
            for i, v in enumerate(e.values):
                visit(v, skippable or i > 0)
            return
        if isinstance(e, ast.IfExp):
            visit(e.test, skippable)
            visit(e.body, True)
            visit(e.orelse, True)
            return
        if isinstance(e, (ast.ListComp, ast.SetComp, ast.GeneratorExp, ast.DictComp)):
            for i, gen in enumerate(e.generators):
                visit(gen.iter, skippable or i > 0)
                for c in gen.ifs:
                    visit(c, True)
            for part in ([e.key, e.value] if isinstance(e, ast.DictComp) else [e.elt]):
                visit(part, True)
            return
        if isinstance(e, (ast.Lambda, ast.FunctionDef, ast.AsyncFunctionDef, ast.ClassDef)):
            return
        for c in ast.iter_child_nodes(e):
            visit(c, skippable)

    visit(root, False)
    return out
