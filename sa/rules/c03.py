"""C03 - same scenario, seed and actions give the same trajectory, in any process."""
from __future__ import annotations

import ast
from typing import Dict, List, Optional, Set, Tuple

from ..astutil import attr_chain, call_name, calls_in, kwarg, unparse
from ..cfg import CFG, LocalDefs, path_text
from ..index import AnalysisError, ClassInfo, FuncInfo, Index
from ..inventory import _scopes, scope_nodes
from ..report import Ctx
from ..types import func_types
from .common import node_calls, nodes_calling

EXPLANATION = (
    "Static analysis of the discipline around nondeterminism sources (not trajectory equality). Decided: R3.1 every "
    "call into an entropy / clock / identity source (random, numpy.random, secrets, uuid, os.urandom, time, "
    "datetime.now, default_rng, hash(), id()) under game/, session/ and simulator/ is inventoried; calls on the seeded "
    "global generators are accepted, every other call must be in a frozen table that classifies it as identifier-only, "
    "timestamp/log-only, or seed-generation, one reason each - a new unseeded source is a violation; R3.2 values of "
    "the unseeded classes whose textual width varies (datetime stamps, random integers) must not flow into a length "
    "measurement of a serialised model (Frame.size feeds link admission and traffic observations), and timestamp "
    "fields are not used in ordering comparisons or arithmetic outside log-only helpers; R3.3 no order-sensitive "
    "iteration (appends to a result, sends traffic, draws random numbers, leaves on first hit) over a set whose element "
    "hash is not process-stable (str, IPv4Address, objects) - int sets and loops whose result is re-collected into a "
    "set are recognised as order-insensitive; R3.4 set_random_seed seeds both python's and numpy's global generator on "
    "every path that returns a seed, and precedes PrimaiteGame.from_config in the environment constructor and (when a "
    "seed is given) in reset; every Generator object is seeded from the seeded global source; R3.5 no seeded-RNG draw "
    "is control-dependent on an output switch (SIM_OUTPUT.*, show/markdown flags, log levels); R3.6 identifiers never order "
    "behaviour: no sorted()/min()/max()/sort() over a mapping keyed by uuid4 (recognised from its `[x.uuid] = ...` stores) or "
    "over its keys()/items(), and no sort key that reads .uuid; R3.7 = C04's R4.2 (an output switch guards logging statements "
    "only) and R4.1 (process-wide state: who may write it, re-established by every build) applied here; R3.5 also follows draws hidden "
    "behind properties evaluated under a log switch; R3.1 also inventories sources handed over uncalled (default_factory=np.random.default_rng). R3.8 the numeric settings this property depends on are never tested by truthiness (`x or default`, `if x:`) - 0 is a legal value for them. "
    "R3.9 = C10's R10.3 (the reward-sharing order comes from a DFS over sets of agent names; only a correct topological order is independent of their iteration order) applied here. "
    "NOT decided: equality "
    "of trajectories, float reproducibility, behaviour of third-party libraries."
)
TECHNIQUE = "static: inventory of entropy/clock sources against a frozen table, taint of variable-width values into length measurements, set-iteration order analysis, CFG seeding discipline"
ASSUMPTIONS = ["CPython: hash(int) is process-stable, hash(str)/hash(IPv4Address) depend on PYTHONHASHSEED",
               "dict and list iteration order is insertion order"]

# unseeded / wall-clock / identity sources that are allowed, with their class and the reason (owner function, callee)
UNSEEDED_OK: Dict[Tuple[str, str], Tuple[str, str]] = {
    ("set_random_seed", "np.random.default_rng"): ("seed-generation", "draws a fresh seed only when the scenario asks for generate_seed_value and gives no seed"),
    ("set_random_seed", "rng.integers"): ("seed-generation", "same"),
    ("generate_mac_address", "secrets.randbits"): ("identifier", "MAC addresses: compared for equality / used as dict keys only, fixed width"),
    ("NetworkInterface.__hash__", "hash"): ("identifier", "hash of the component uuid, used only for dict/set membership"),
    ("RouterICMP._process_icmp_echo_request", "secrets.token_urlsafe"): ("identifier", "fixed-length ICMP padding"),
    ("ICMP._send_icmp_echo_request", "secrets.token_urlsafe"): ("identifier", "fixed-length ICMP padding"),
    ("ICMP._process_icmp_echo_request", "secrets.token_urlsafe"): ("identifier", "fixed-length ICMP padding"),
    ("ICMPPacket.__init__", "secrets.randbits"): ("identifier", "ICMP identifier: dict key for request/reply matching (its width is covered by R3.2)"),
    ("Frame.set_sent_timestamp", "datetime.now"): ("timestamp", "wall-clock stamp for pcap/log output (its width is covered by R3.2)"),
    ("Frame.set_received_timestamp", "datetime.now"): ("timestamp", "wall-clock stamp for pcap/log output (its width is covered by R3.2)"),
    ("IOSoftware.add_connection", "datetime.now"): ("timestamp", "connection start time, shown in tables only"),
    ("NTPServer.receive", "datetime.now"): ("timestamp", "NTP reply payload: the simulated service hands out wall-clock time by design"),
    ("Terminal._create_local_connection", "datetime.now"): ("timestamp", "connection start time, shown in tables only"),
    ("Terminal._create_remote_connection", "datetime.now"): ("timestamp", "connection start time, shown in tables only"),
    ("DatabaseClient.get_new_connection", "uuid4"): ("identifier", "connection request id (dict key)"),
    ("DatabaseClient._query", "uuid4"): ("identifier", "query id (dict key)"),
    ("DatabaseClient.query", "uuid4"): ("identifier", "query id (dict key)"),
    ("DatabaseService._generate_connection_id", "uuid4"): ("identifier", "connection id (dict key)"),
    ("Terminal._send_remote_login", "uuid4"): ("identifier", "connection request id (dict key)"),
    ("SimComponent.<field uuid>", "uuid4"): ("identifier", "component uuid (dict key, fixed width)"),
    ("_SimOutput.__init__", "datetime.now"): ("timestamp", "name of the session output directory"),
    ("_PrimaitePaths.generate_episode_log_file_path", "datetime.datetime.now"): ("timestamp", "log file name"),
}
SEEDED_ROOTS = ("random.", "np.random.", "numpy.random.")
SEEDING_CALLS = {"random.seed", "np.random.seed", "numpy.random.seed"}


def _source_kind(call: ast.Call) -> Optional[str]:
    ch = attr_chain(call.func)
    if not ch:
        return None
    t = ".".join(ch)
    if t in SEEDING_CALLS:
        return "seeding"
    if t in ("random", "randint", "choice", "shuffle", "uniform", "sample") and len(ch) == 1:
        return "seeded-import"  # `from random import random`
    if t.startswith(SEEDED_ROOTS) and not t.endswith("default_rng"):
        return "seeded"
    if t.endswith("default_rng"):
        return "generator"
    if ch[0] in ("secrets", "uuid", "time") or t in ("uuid4", "os.urandom", "hash", "id"):
        return "unseeded"
    if t.endswith("datetime.now") or t == "datetime.now" or t.endswith(".utcnow") or t.endswith("time.time"):
        return "unseeded"
    if "rng" in ch[:-1]:
        return "generator-draw"
    return None


def r3_1(ctx: Ctx) -> List[Tuple[Optional[FuncInfo], str, ast.Call, str]]:
    ix = ctx.ix
    ctx.rule("R3.1", "inventory of entropy / clock / identity sources; unseeded ones must be in the frozen table")
    sites = []
    for fn, path, root in _scopes(ix):
        if not path.startswith(("src/primaite/game", "src/primaite/session", "src/primaite/simulator", "src/primaite/__init__")):
            continue
        # locals bound to a Generator (x = ...default_rng(...)): draws on them are generator draws whatever the local is called
        gen_locals = {t.id for a in ast.walk(root) if isinstance(a, ast.Assign) and isinstance(a.value, ast.Call)
                      and (attr_chain(a.value.func) or [""])[-1] == "default_rng" for t in a.targets if isinstance(t, ast.Name)}
        for n, lam in scope_nodes(fn, root):
            if isinstance(n, ast.Call):
                k = _source_kind(n)
                if k is None and isinstance(n.func, ast.Attribute) and isinstance(n.func.value, ast.Name) and n.func.value.id in gen_locals:
                    k = "generator-draw"
                if k == "seeded-import":
                    # only if the name is imported from random / numpy.random
                    mi = ix.by_path[path]
                    tgt = mi.imports.get(unparse(n.func), "")
                    if not tgt.startswith(("random.", "numpy.random.")):
                        continue
                    k = "seeded"
                if k:
                    sites.append((fn, path, n, k))
    # a source handed over uncalled (Field(default_factory=np.random.default_rng), key=random.random ...): whoever calls it gets
    # an unseeded generator / value - inventoried like a call without a seed argument
    for fn, path, root in _scopes(ix):
        if not path.startswith(("src/primaite/game", "src/primaite/session", "src/primaite/simulator", "src/primaite/__init__")):
            continue
        called = {id(c.func) for c, _l in scope_nodes(fn, root) if isinstance(c, ast.Call)}
        for n, lam in scope_nodes(fn, root):
            if isinstance(n, ast.keyword) and n.arg in ("default_factory", "default", "key", "factory") and isinstance(n.value, (ast.Attribute, ast.Name)) \
                    and id(n.value) not in called:
                ch = attr_chain(n.value) or []
                t = ".".join(ch)
                if t.endswith("default_rng") or t in ("uuid4", "uuid.uuid4", "random.random", "time.time") or t.startswith(("secrets.",)):
                    fake = ast.Call(func=n.value, args=[], keywords=[])
                    ast.copy_location(fake, n.value)
                    sites.append((fn, path, fake, "generator" if t.endswith("default_rng") else "unseeded"))
    n_unseeded = 0
    for fn, path, call, k in sites:
        owner = fn.short if fn else "<module>"
        callee = ".".join(attr_chain(call.func))
        if fn is None:
            # class-level field default (e.g. uuid default_factory) - name it after the field
            owner = "SimComponent.<field uuid>" if "uuid4" in callee and path.endswith("simulator/core.py") else f"<module {path}>"
        if fn is not None and isinstance(fn.node, ast.Lambda) is False and fn.parent is None and fn.cls is None and owner != fn.name:
            owner = fn.name
        key = f"{path}::{owner}::{callee}"
        where = f"{path}:{call.lineno}"
        if k in ("seeded", "seeding"):
            ctx.ok("R3.1", key, where, "draw on / seeding of a global generator that set_random_seed seeds")
        elif k == "generator":
            # default_rng(<seed>) : the seed argument must itself come from a seeded source
            arg = call.args[0] if call.args else None
            seeded_arg = arg is not None and any(_source_kind(c) == "seeded" for c in ast.walk(arg) if isinstance(c, ast.Call))
            ok = seeded_arg or (owner, callee) in UNSEEDED_OK
            ctx.record("R3.1", key, where, ok,
                       "Generator seeded from the seeded global source" if seeded_arg else
                       (UNSEEDED_OK.get((owner, callee), ("", "a Generator created without a seed drawn from the seeded source"))[1]))
        elif k == "generator-draw":
            ctx.ok("R3.1", key, where, "draw on a Generator object (its construction is checked separately)")
        else:
            n_unseeded += 1
            ent = UNSEEDED_OK.get((owner, callee))
            ctx.record("R3.1", key, where, ent is not None,
                       f"{ent[0]}: {ent[1]}" if ent else
                       "new unseeded / wall-clock / identity source in simulation code: values differ between two runs with the same seed")
    ctx.floor("R3.1", "source call sites", len(sites), 30)
    ctx.floor("R3.1", "unseeded source sites", n_unseeded, 18)
    return sites


def _model_fields(ix: Index, ci: ClassInfo) -> Dict[str, ast.AST]:
    out: Dict[str, ast.AST] = {}
    for c in reversed(ix.mro(ci)):
        for nm, f in c.fields.items():
            if f.ann is not None and not f.classvar:
                out[nm] = f.ann
    return out


def r3_2(ctx: Ctx) -> None:
    ix = ctx.ix
    ctx.rule("R3.2", "variable-width unseeded values (timestamps, random integers) do not reach a length measurement "
                     "of a serialised model; timestamps are not ordered / subtracted outside log-only helpers")
    # fields that hold variable-width unseeded values
    tainted: Dict[Tuple[str, str], str] = {}
    for c in ix.classes.values():
        for nm, f in c.fields.items():
            if f.ann is not None and "datetime" in unparse(f.ann):
                tainted[(c.qualname, nm)] = "wall-clock datetime (isoformat drops the fraction when microsecond == 0)"
        init = c.methods.get("__init__")
        if init is not None:
            for n in ast.walk(init.node):
                if isinstance(n, ast.Assign) and isinstance(n.value, ast.Call) and unparse(n.value.func) == "secrets.randbits":
                    for t in n.targets:
                        if isinstance(t, ast.Subscript) and isinstance(t.slice, ast.Constant):
                            tainted[(c.qualname, t.slice.value)] = "random integer from secrets.randbits (1-5 digits)"
                        elif isinstance(t, ast.Attribute):
                            tainted[(c.qualname, t.attr)] = "random integer from secrets.randbits"

    def reach(ci: ClassInfo, seen: Set[str]) -> List[str]:
        if ci.qualname in seen:
            return []
        seen.add(ci.qualname)
        out = []
        for nm, ann in _model_fields(ix, ci).items():
            for k in ix.mro(ci):
                if (k.qualname, nm) in tainted:
                    out.append(f"{ci.short}.{nm}: {tainted[(k.qualname, nm)]}")
            sub, sh = ix.ann_class(ann, ci.module, ci)
            if sub is not None:
                out.extend(reach(sub, seen))
        return out

    n = 0
    for fn in ix.functions:
        if fn.cls is None or isinstance(fn.node, ast.Lambda):
            continue
        for c in calls_in(fn.node):
            if isinstance(c.func, ast.Name) and c.func.id == "len" and c.args:
                inner = [x for x in ast.walk(c.args[0]) if isinstance(x, ast.Call) and call_name(x) in ("model_dump_json", "json", "model_dump")
                         and unparse(x.func.value) == "self"]
                if not inner:
                    continue
                n += 1
                excl = kwarg(inner[0], "exclude")
                excluded = {e.value for e in ast.walk(excl) if isinstance(e, ast.Constant)} if excl is not None else set()
                fields = [r for r in reach(fn.cls, set()) if r.split(":")[0].split(".")[-1] not in excluded]
                ctx.record("R3.2", ctx.key(fn, "length of the serialised model is a function of simulation data only"), fn.loc(c), not fields,
                           "no variable-width unseeded field in the measured model" if not fields else
                           f"{fn.short} measures len({unparse(inner[0])[:40]}) of a model containing: {fields[:4]} - the size (hence link admission "
                           "and traffic observations) differs between runs with the same seed")
    ctx.floor("R3.2", "length-of-serialisation sites", n, 1)
    # ordering / arithmetic on timestamp fields
    ts_fields = {nm for (_, nm), why in tainted.items() if "datetime" in why}
    for fn in ix.functions:
        if isinstance(fn.node, ast.Lambda):
            continue
        for node in ast.walk(fn.node):
            bad = None
            if isinstance(node, ast.Compare) and any(isinstance(o, (ast.Lt, ast.LtE, ast.Gt, ast.GtE)) for o in node.ops):
                ops = [node.left] + node.comparators
                if any(isinstance(o, ast.Attribute) and o.attr in ts_fields for o in ops):
                    bad = node
            elif isinstance(node, ast.BinOp) and any(isinstance(o, ast.Attribute) and o.attr in ts_fields for o in (node.left, node.right)):
                bad = node
            if bad is not None:
                # log-only: the value only reaches f-strings / sys_log calls in every caller
                users = [f2 for f2 in ix.functions if not isinstance(f2.node, ast.Lambda) and any(call_name(c) == fn.name for c in calls_in(f2.node))]
                log_only = True
                for u in users:
                    ld = LocalDefs(u.node)
                    for nm, defs in ld.defs.items():
                        if any(v is not None and isinstance(v, ast.Call) and call_name(v) == fn.name for v, _, _ in defs):
                            for use in ast.walk(u.node):
                                if isinstance(use, ast.Name) and use.id == nm and isinstance(use.ctx, ast.Load):
                                    par_ok = any(isinstance(p, (ast.JoinedStr, ast.FormattedValue)) and any(x is use for x in ast.walk(p)) for p in ast.walk(u.node)) \
                                        or any(isinstance(p, ast.IfExp) and any(x is use for x in ast.walk(p.test)) and isinstance(p.body, (ast.JoinedStr, ast.Constant)) for p in ast.walk(u.node))
                                    # the same choice written as a statement: `if t > 0: s = f"..."` / `else: s = "..."`
                                    par_ok = par_ok or any(
                                        isinstance(p, ast.If) and any(x is use for x in ast.walk(p.test)) and all(
                                            isinstance(st, ast.Assign) and all(isinstance(t, ast.Name) for t in st.targets)
                                            and isinstance(st.value, (ast.JoinedStr, ast.Constant)) for st in p.body + p.orelse)
                                        for p in ast.walk(u.node))
                                    if not par_ok:
                                        log_only = False
                ctx.record("R3.2", ctx.key(fn, f"arithmetic/ordering on timestamps: {unparse(bad)[:50]}"), fn.loc(bad), log_only,
                           f"result used only for log text in {[u.short for u in users]}" if log_only else
                           "a wall-clock difference/ordering reaches simulation behaviour")


def _set_typed(ix: Index, fn: FuncInfo, e: ast.AST, ld: LocalDefs) -> Optional[str]:
    """If e is statically a set: return the element type text ('int', 'str', 'IPv4Address', '?')."""
    if isinstance(e, (ast.Set, ast.SetComp)):
        return "?"
    if isinstance(e, ast.Call):
        if isinstance(e.func, ast.Name) and e.func.id in ("set", "frozenset"):
            return "?"
        # call to a function annotated -> Set[...]
        nm = call_name(e)
        cands = [f for f in ix.functions if f.name == nm and not isinstance(f.node, ast.Lambda) and f.node.returns is not None]
        for f in cands:
            r = unparse(f.node.returns)
            if r.startswith(("Set[", "set[", "FrozenSet[")):
                return r[r.index("[") + 1:-1]
        return None
    if isinstance(e, ast.Name):
        s = ld.single(e.id)
        if s and s[0] is not None and s[1] is None:
            return _set_typed(ix, fn, s[0], ld)
        return None
    if isinstance(e, ast.Attribute):
        c, sh = func_types(ix, fn).expr_type(e)
        if sh == "set":
            owner, _ = func_types(ix, fn).expr_type(e.value)
            if owner is not None:
                r = ix.find_field(owner, e.attr)
                if r is not None and r[1].ann is not None:
                    t = unparse(r[1].ann)
                    return t[t.index("[") + 1:-1] if "[" in t else "?"
            return "?"
    return None


STABLE_ELEMS = {"int", "Port", "bool"}


def r3_3(ctx: Ctx) -> None:
    ix = ctx.ix
    ctx.rule("R3.3", "no order-sensitive iteration over a hash-ordered set of str / IPv4Address / objects")
    n = 0
    for fn in ix.functions:
        if isinstance(fn.node, ast.Lambda):
            continue
        ld = LocalDefs(fn.node)
        loops: List[Tuple[ast.AST, ast.AST, List[ast.AST]]] = []
        for node in ast.walk(fn.node):
            if isinstance(node, ast.For):
                loops.append((node, node.iter, node.body))
            elif isinstance(node, (ast.ListComp, ast.GeneratorExp)):
                for gen in node.generators:
                    loops.append((node, gen.iter, [node.elt]))
            elif isinstance(node, ast.Call) and isinstance(node.func, ast.Name) and node.func.id in ("list", "tuple") and node.args:
                loops.append((node, node.args[0], []))
        for node, it, body in loops:
            elem = _set_typed(ix, fn, it, ld)
            if elem is None and isinstance(it, ast.Name) and len(ld.defs.get(it.id, [])) > 1:
                # a name bound on several paths (`xs = explode(...)` / `if show: xs = sorted(xs)`): does a set-typed binding reach
                # the loop on a path that passes no other binding?
                g_ = CFG(fn.node)
                def_nodes = {id(st): next((x for x in g_.nodes if x.ast is st), None) for _, _, st in ld.defs[it.id]}
                use = next((x for x in g_.nodes if x.kind in ("for", "stmt", "cond") and any(y is node for y in ast.walk(
                    x.ast if x.kind != "cond" else (x.expr_root() or ast.Pass())))), None)
                if use is None and isinstance(node, ast.For):
                    use = next((x for x in g_.nodes if x.kind == "for" and x.ast is node), None)
                for v, idx, st in ld.defs[it.id]:
                    dn = def_nodes.get(id(st))
                    if v is None or idx is not None or dn is None or use is None:
                        continue
                    t_ = _set_typed(ix, fn, v, LocalDefs(ast.parse("def _f(): pass").body[0]))
                    if t_ is None:
                        continue
                    others = {x.id for k, x in def_nodes.items() if x is not None and x is not dn}
                    if g_.path_avoiding([use], lambda e: False, start=dn, blocked_nodes=others - {use.id}) is not None:
                        elem = t_
                        break
            if elem is None:
                continue
            n += 1
            key = ctx.key(fn, f"iteration over {unparse(it)[:50]}")
            # element type: for set(x) look at what is inside when it is a literal list of constants
            if elem == "?" and isinstance(it, ast.Call) and it.args:
                inner = it.args[0]
                c, sh = func_types(ix, fn).expr_type(inner)
                txt = unparse(inner)
                if "port" in txt.lower() and "listen_on_ports" not in txt:
                    elem = "Port"
            if elem in STABLE_ELEMS:
                ctx.ok("R3.3", key, fn.loc(node), f"elements are {elem} (hash(int) is process-stable)")
                continue
            if isinstance(it, ast.Attribute):
                # a set-typed field that nothing ever adds to is always empty: its order cannot matter
                from ..inventory import stores_to_attr
                writers = [s_ for s_ in stores_to_attr(ix, [it.attr]) if s_.fn is not None]
                if not writers:
                    ctx.ok("R3.3", key, fn.loc(node), f"`{unparse(it)}` has no writer anywhere in the package: the set is always empty", trivial=True)
                    continue
            if isinstance(node, ast.For):
                effects = [c for b in body for c in calls_in(b)]
                appends = [c for c in effects if call_name(c) in ("append", "extend", "insert", "add_row")]
                other_calls = [c for c in effects if call_name(c) not in ("append", "extend", "insert", "isinstance", "str", "int", "IPv4Address", "add", "add_row")
                               and not unparse(c.func).startswith(("self.sys_log", "_LOGGER"))]
                exits = [x for b in body for x in ast.walk(b) if isinstance(x, (ast.Break, ast.Return))]
                stores = [x for b in body for x in ast.walk(b) if isinstance(x, (ast.Assign, ast.AugAssign)) and not all(
                    isinstance(t, ast.Name) for t in (x.targets if isinstance(x, ast.Assign) else [x.target]))]
                # appends whose list is turned back into a set afterwards are order-insensitive
                recollected = True
                for a in appends:
                    lst = unparse(a.func.value)
                    if not any(isinstance(c, ast.Call) and isinstance(c.func, ast.Name) and c.func.id in ("set", "frozenset", "sorted") and c.args
                               and unparse(c.args[0]) == lst for c in ast.walk(fn.node)):
                        recollected = False
                sensitive = bool(other_calls) or bool(exits) or bool(stores) or (bool(appends) and not recollected)
                why = []
                if other_calls:
                    why.append(f"calls {sorted({call_name(c) for c in other_calls})[:4]} in hash order")
                if appends and not recollected:
                    why.append("appends to an ordered result")
                if exits:
                    why.append("leaves the loop on the first hit")
                if stores:
                    why.append("stores to shared state")
                ctx.record("R3.3", key, fn.loc(node), not sensitive,
                           f"elements {elem}: body is order-insensitive" if not sensitive else
                           f"loop over a set of {elem} (hash order depends on PYTHONHASHSEED) {'; '.join(why)}")
            else:
                # list(set) / comprehension: the ordered result escapes
                ctx.fail("R3.3", key, fn.loc(node), f"an ordered sequence is built from a set of {elem}: its order depends on PYTHONHASHSEED")
    ctx.floor("R3.3", "iterations over sets", n, 4)


def r3_4(ctx: Ctx) -> None:
    ix = ctx.ix
    ctx.rule("R3.4", "set_random_seed seeds python and numpy generators on every path that returns a seed; seeding "
                     "precedes the construction of the game")
    srs = ix.module_func("primaite.session.environment", "set_random_seed")
    g = CFG(srs.node)
    rets = [n for n in g.nodes if n.kind == "stmt" and isinstance(n.ast, ast.Return) and not (
        n.ast.value is None or (isinstance(n.ast.value, ast.Constant) and n.ast.value.value is None))]
    for name in ("random.seed", "np.random.seed"):
        marks = [n for n in g.nodes if any(unparse(c.func) == name for c in node_calls(n))]
        p = g.path_avoiding(rets, lambda e: False, blocked_nodes={m.id for m in marks}) if marks else []
        ok = bool(marks) and p is None and all(bool(c.args) and unparse(c.args[0]) == unparse(r.ast.value) for m in marks for c in node_calls(m) if unparse(c.func) == name for r in rets)
        ctx.record("R3.4", ctx.key(srs, f"{name}(seed) on every seeded path"), srs.loc(), ok,
                   f"every path returning a seed calls {name} with that seed" if ok else f"a seed can be returned without {name}", path_text(p) if p else None)
    init = ix.method("PrimaiteGymEnv.__init__")
    gi = CFG(init.node)
    seeds = nodes_calling(gi, ["set_random_seed"])
    builds = [n for n in gi.nodes if any(unparse(c.func) == "PrimaiteGame.from_config" for c in node_calls(n))]
    dom = gi.dominators()
    ok = bool(seeds) and bool(builds) and all(any(s.id in dom.get(b.id, set()) for s in seeds) for b in builds)
    ctx.record("R3.4", ctx.key(init, "seeding precedes the first game"), init.loc(), ok, "set_random_seed dominates PrimaiteGame.from_config")
    rs = ix.method("PrimaiteGymEnv.reset")
    gr = CFG(rs.node)
    seeds = nodes_calling(gr, ["set_random_seed"])
    builds = [n for n in gr.nodes if any(unparse(c.func) == "PrimaiteGame.from_config" for c in node_calls(n))]
    p = gr.path_avoiding(builds, lambda e: bool(e.label and e.label[0] == "cond" and "seed is" in unparse(e.label[1]) and
                                                e.label[2] == (unparse(e.label[1]) == "seed is None")), blocked_nodes={s.id for s in seeds})
    ctx.record("R3.4", ctx.key(rs, "a seed passed to reset is applied before the rebuild"), rs.loc(), bool(seeds) and p is None,
               "the rebuild is reached without reseeding only on the `seed is None` edge")


def r3_5(ctx: Ctx, sites) -> None:
    ix = ctx.ix
    ctx.rule("R3.5", "no seeded-RNG draw is control-dependent on an output switch")
    n = 0
    for fn, path, call, k in sites:
        if k not in ("seeded", "generator-draw") or fn is None:
            continue
        n += 1
        guards = []
        for node in ast.walk(fn.node):
            if isinstance(node, (ast.If, ast.IfExp, ast.While)):
                inside = any(x is call for b in (node.body if isinstance(node.body, list) else [node.body]) for x in ast.walk(b)) or any(
                    x is call for b in (node.orelse if isinstance(node.orelse, list) else [node.orelse]) for x in ast.walk(b))
                if inside:
                    guards.append(unparse(node.test))
        bad = [g for g in guards if any(w in g for w in ("SIM_OUTPUT", "show", "markdown", "log_level", "save_", "write_"))]
        ctx.record("R3.5", f"{path}::{fn.short}::draw {unparse(call.func)}", f"{path}:{call.lineno}", not bad,
                   f"guards: {guards or 'none'}" if not bad else f"random draw happens only under output switch {bad}: logging settings change the RNG stream")
    ctx.floor("R3.5", "seeded draws", n, 7)
    # a draw can also hide behind a (cached) property: `self.start_node` evaluated only inside a log message that is only built when
    # a log switch is on.  Functions that draw (directly, or through their own methods/properties one level down):
    drawing = {id(fn.node) for fn, path, call, k in sites if k in ("seeded", "generator-draw") and fn is not None}
    draw_props: Dict[Tuple[str, str], FuncInfo] = {}
    for f in ix.functions:
        if f.cls is not None and f.is_property and not isinstance(f.node, ast.Lambda):
            direct = id(f.node) in drawing
            via = any(isinstance(c.func, ast.Attribute) and unparse(c.func.value) == "self" and (lambda h: h is not None and id(h.node) in drawing)(
                ix.find_method(f.cls, c.func.attr)) for c in calls_in(f.node))
            if direct or via:
                draw_props[(f.cls.qualname, f.name)] = f
    n_p = 0
    for f in ix.functions:
        if isinstance(f.node, ast.Lambda) or f.cls is None:
            continue
        for node in ast.walk(f.node):
            if not (isinstance(node, ast.If) and any(w in unparse(node.test) for w in ("SIM_OUTPUT", "log_level", "save_", "write_"))):
                continue
            for b in node.body + node.orelse:
                for x in ast.walk(b):
                    if isinstance(x, ast.Attribute) and isinstance(x.value, ast.Name) and x.value.id == "self":
                        for k_ in ix.mro(f.cls):
                            pf = draw_props.get((k_.qualname, x.attr))
                            if pf is not None:
                                n_p += 1
                                ctx.fail("R3.5", ctx.key(f, f"self.{x.attr} (draws random numbers) is not evaluated under an output switch"), f.loc(x),
                                         f"`self.{x.attr}` is a property that draws from the seeded generator ({pf.short}); here it is evaluated only when "
                                         f"`{unparse(node.test)[:60]}` holds, so switching logging on or off moves the draw and shifts every later random number")
                                break
    ctx.count("R3.5:drawing properties", len(draw_props))


def _uuid_keyed_attrs(ix) -> Dict[str, str]:
    """Attributes holding a mapping whose keys are uuid4 identifiers: some store `<recv>.<attr>[<x>.uuid] = ...` exists."""
    out: Dict[str, str] = {}
    for fn in ix.functions:
        if isinstance(fn.node, ast.Lambda):
            continue
        for n in ast.walk(fn.node):
            if isinstance(n, ast.Assign):
                for t in n.targets:
                    if isinstance(t, ast.Subscript) and isinstance(t.value, ast.Attribute) and isinstance(t.slice, ast.Attribute) \
                            and t.slice.attr == "uuid":
                        out.setdefault(t.value.attr, fn.loc(n))
    return out


def r3_6(ctx: Ctx) -> None:
    """uuid4 keys are identity, not data (R3.1 table: identifier-only).  Ordering anything by them - sorted()/min()/max() over
    a uuid-keyed mapping or its keys()/items(), or a sort key that reads .uuid - makes behaviour depend on the identifiers."""
    ix = ctx.ix
    ctx.rule("R3.6", "identifiers never order behaviour: no sorted()/min()/max()/sort() over a uuid-keyed mapping (or its "
                     "keys()/items()) and no sort key that reads .uuid")
    keyed = _uuid_keyed_attrs(ix)
    if not {"services", "applications", "files"} <= set(keyed):
        raise AnalysisError(f"R3.6: uuid-keyed containers not recognised (found {sorted(keyed)})")
    ctx.count("R3.6:uuid-keyed mappings", len(keyed))
    n = 0
    for fn in ix.functions:
        if isinstance(fn.node, ast.Lambda) or not fn.path.startswith("src/primaite/"):
            continue
        for c in ast.walk(fn.node):
            if not isinstance(c, ast.Call):
                continue
            nm = c.func.id if isinstance(c.func, ast.Name) else (c.func.attr if isinstance(c.func, ast.Attribute) else None)
            if nm not in ("sorted", "min", "max", "sort"):
                continue
            n += 1
            subject = c.args[0] if c.args and nm != "sort" else (c.func.value if nm == "sort" and isinstance(c.func, ast.Attribute) else None)
            keyfn = next((k.value for k in c.keywords if k.arg == "key"), None)
            why = None
            s0 = subject
            if isinstance(s0, ast.Call) and isinstance(s0.func, ast.Attribute) and s0.func.attr in ("keys", "items") and not s0.args:
                s0 = s0.func.value
            elif isinstance(s0, ast.Call) and isinstance(s0.func, ast.Name) and s0.func.id in ("list", "tuple") and s0.args:
                s0 = s0.args[0]
            if isinstance(s0, ast.Attribute) and s0.attr in keyed and keyfn is None:
                why = f"{nm}() over `{unparse(subject)[:50]}`, a mapping keyed by uuid4 (stored at {keyed[s0.attr]})"
            if keyfn is not None and any(isinstance(x, ast.Attribute) and x.attr == "uuid" for x in ast.walk(keyfn)):
                why = f"{nm}() with a key that reads .uuid: `{unparse(keyfn)[:50]}`"
            ctx.record("R3.6", ctx.key(fn, f"{nm}({unparse(subject)[:40] if subject is not None else ''})"), fn.loc(c), why is None,
                       "orders data, not identifiers" if why is None else
                       why + ": the resulting order - and whatever is done in that order - differs from run to run")
    ctx.floor("R3.6", "ordering calls inspected", n, 10)



def check(ctx: Ctx) -> None:
    sites = r3_1(ctx)
    r3_2(ctx)
    r3_3(ctx)
    r3_4(ctx)
    r3_5(ctx, sites)
    r3_6(ctx)
    # 'regardless of logging/output settings': an output switch may guard logging only (C04's R4.2)
    from . import c04
    with ctx.borrowed({"R4.2": "R3.7"}):
        c04.r4_2(ctx)
    # of C04's R4.1 only the clauses that bear on "any process": a process-wide setting taken from the scenario is re-established by
    # every build (else the trajectory depends on what the process built before), and the global generators are seeded only by
    # set_random_seed.  *That* such state exists is C04's concern (instances interfering), not C03's.
    from ..report import Ctx as _Ctx
    tmp = _Ctx(ctx.prop, ctx.tier, ctx.ix)
    c04.r4_1(tmp)
    for i_ in tmp.instances:
        if "is re-established by every build" in i_.key or "::seeds " in i_.key or "memoises" in i_.detail or "keeps no object across episodes" in i_.key:
            ctx.record("R3.7", i_.key, i_.where, i_.ok, i_.detail, i_.witness)
    from .common import falsy_numeric
    falsy_numeric(ctx, "R3.8", r"seed", "random seeds")
    # the order in which shared rewards are evaluated comes out of a DFS over *sets* of agent names: only a correct topological
    # order is independent of the sets' (hash-seed dependent) iteration order - C10's R10.3 decides the DFS functions
    from . import c10
    with ctx.borrowed({"R10.3": "R3.9"}):
        c10.r10_3(ctx)
