"""C09 - observations faithfully encode the simulation's ground truth."""
from __future__ import annotations

import ast
from typing import Dict, List, Optional, Set, Tuple

from ..astutil import call_name, unparse, walk_shallow
from ..cfg import CFG, CNode, LocalDefs, expand_test, path_text as cfg_path_text
from ..index import AnalysisError
from ..obsmodel import (ROOT_CALL, Ev, ObsClassModel, ObsModel, alternatives, chains_in, dnf_text, is_pseudo, path_text,
                        producer_fields, template_text, walk_chain)
from ..report import Ctx
from .c02 import _closure, _is_delegate, _models, _self_loads, observe_stores, space_reads

EXPLANATION = (
    "Static analysis (E6) of what each observation leaf reads. Decided: R9.1 every `where` template built by the "
    "constructor call sites denotes a component in the schema computed from the describe_state implementations "
    "(starting at the class whose describe_state PrimaiteGame.get_sim_state returns), and every key observe (or a helper "
    "it calls) reads from that component's state is produced by the describe_state of every class the path can denote "
    "(misspelt or renamed keys on either side; a conditionally produced key must be read under a configuration guard); "
    "R9.2 a frozen leaf -> (declaring simulator class, attribute) table, confirmed against the observation documentation "
    "in the Data-Manipulation-E2E notebook and the code: the state keys a leaf expression reads are produced from exactly "
    "those attributes (so swapping producers in describe_state or reads in observe is caught); R9.3 service, "
    "application, file and folder health is a selection on the `*_requires_scan` flag whose true arm reads only the "
    "visible field (or the observation's own memory) and whose false arm reads only the actual field; R9.4 every "
    "observation that reads the state returns the stored default when the path is NOT_PRESENT_IN_STATE and touches the "
    "state only past that test (CFG must-pass), and the node-level observations (those whose path denotes a Node) "
    "compare operating_state with NodeOperatingState.ON and on the not-ON edge return the default encoding without "
    "evaluating any child observation; R9.5 in space, default and observe a slot key and the component it delegates to "
    "come from the same enumerate() over the same list with the same index base, fixed sub-components are the same "
    "attribute in all three, and the ACL observation indexes the state with the loop index it uses as key and as "
    "`position`, starting at the same base as AccessControlList.describe_state; R9.6 an attribute that feeds a leaf, is "
    "never derived from a constructor parameter and is not read by `space` is cross-step memory and must be stored by "
    "observe; R9.7 a scenario option (a name declared by an observation ConfigSchema) travels to the leaf that consults it "
    "only through like-named hops - inheritance blocks `if child.f is None: child.f = parent.f`, child-config stores, "
    "constructor keywords, `self.f = f` - so a hop joining two different declared options is reported; R9.6 also requires the "
    "store on every path that returns a freshly built observation and forbids it on a path that goes on to return the default encoding; R9.8 inside a loop of observe() a local assigned under a "
    "condition is re-initialised in the body before it is read (no value carried over from another iteration); R9.9 = C14's "
    "R14.1 (only scans write the visible health fields) applied here; R9.10 no describe_state implementation stores on self or "
    "mutates one of its attributes (the state handed to observe is computed afresh); R9.11 every store of Folder.visible_health_status "
    "is accompanied on every path by raising the flag Folder reports as `scanned_this_step` (the folder observation refreshes "
    "only then); R9.12 = C02's R2.2 (every Discrete leaf's value interval fits its space) applied here; R9.13 the link load band's fixed points (idle -> 0, any traffic -> at least 1, full link -> top of the declared space, "
    "almost full -> below it, monotone) by finite-point evaluation of LinkObservation.observe. R9.14 no describe_state implementation chooses what it reports by the component's operating state (one documented exception frozen); R9.15 per-step resets in pre_timestep are unconditional. "
    "NOT decided: numerical equality of every leaf with the simulator's attribute at every step (needs "
    "execution), whether describe_state is called after all of the step's effects, and the contents of untyped "
    "dictionaries (NetworkInterface.traffic / nmne) below their top-level key."
)
TECHNIQUE = "static: where-path resolution against the describe_state schema, leaf-to-field def-use table, CFG must-pass for absent/not-ON defaults, cross-step memory store check, like-named option-hop lint"
ASSUMPTIONS = [
    "dictionaries keyed by `x.name` hold each component under the literal its class stores as kwargs['name'] in __init__",
    "observe() receives PrimaiteGame.get_sim_state(), i.e. Simulation.describe_state()",
    "atoms of presence conditions are independent booleans",
]

# leaf pattern -> attributes of the simulator classes its value must be computed from (declaring class, attribute).
# Source: "Observation Space" section of notebooks/Data-Manipulation-E2E-Demonstration.ipynb (operating_status,
# health_status, nic_status, NMNE, link load, ACL fields, users) and the class docstrings of the observation modules.
LEAF_TABLE: Dict[str, Dict[str, List[Tuple[str, str]]]] = {
    "HostObservation": {
        "operating_status": [("Node", "operating_state")],
        "num_file_creations": [("FileSystem", "num_file_creations")],
        "num_file_deletions": [("FileSystem", "num_file_deletions")],
        "users/local_login": [("UserSessionManager", "local_session")],
        "users/remote_sessions": [("UserSessionManager", "remote_sessions")],
    },
    "RouterObservation": {
        "users/local_login": [("UserSessionManager", "local_session")],
        "users/remote_sessions": [("UserSessionManager", "remote_sessions")],
    },
    "FirewallObservation": {
        "users/local_login": [("UserSessionManager", "local_session")],
        "users/remote_sessions": [("UserSessionManager", "remote_sessions")],
    },
    "ServiceObservation": {
        "operating_status": [("Service", "operating_state")],
        "health_status": [("Software", "health_state_visible"), ("Software", "health_state_actual")],
    },
    "ApplicationObservation": {
        "operating_status": [("Application", "operating_state")],
        "health_status": [("Software", "health_state_visible"), ("Software", "health_state_actual")],
        "num_executions": [("Application", "num_executions")],
    },
    "FileObservation": {
        "health_status": [("FileSystemItemABC", "visible_health_status"), ("FileSystemItemABC", "health_status")],
        "num_access": [("File", "num_access")],
    },
    "FolderObservation": {
        "health_status": [("FileSystemItemABC", "visible_health_status"), ("FileSystemItemABC", "health_status")],
    },
    "NICObservation": {
        "nic_status": [("NetworkInterface", "enabled")],
        "NMNE/inbound": [("NetworkInterface", "nmne")],
        "NMNE/outbound": [("NetworkInterface", "nmne")],
        "TRAFFIC/*/inbound": [("NetworkInterface", "traffic"), ("NetworkInterface", "speed")],
        "TRAFFIC/*/outbound": [("NetworkInterface", "traffic"), ("NetworkInterface", "speed")],
        "TRAFFIC/*/*/inbound": [("NetworkInterface", "traffic"), ("NetworkInterface", "speed")],
        "TRAFFIC/*/*/outbound": [("NetworkInterface", "traffic"), ("NetworkInterface", "speed")],
    },
    "PortObservation": {"operating_status": [("NetworkInterface", "enabled")]},
    "LinkObservation": {"PROTOCOLS/ALL": [("Link", "current_load"), ("Link", "bandwidth")]},
    "ACLObservation": {
        "*/position": [],
        "*/permission": [("ACLRule", "action")],
        "*/source_ip_id": [("ACLRule", "src_ip_address")],
        "*/source_wildcard_id": [("ACLRule", "src_wildcard_mask")],
        "*/source_port_id": [("ACLRule", "src_port")],
        "*/dest_ip_id": [("ACLRule", "dst_ip_address")],
        "*/dest_wildcard_id": [("ACLRule", "dst_wildcard_mask")],
        "*/dest_port_id": [("ACLRule", "dst_port")],
        "*/protocol_id": [("ACLRule", "protocol")],
    },
    "NullObservation": {"": []},
}
# (visible attribute, actual attribute) per simulator base class - R9.3
HEALTH_FIELDS = {"Software": ("health_state_visible", "health_state_actual"),
                 "FileSystemItemABC": ("visible_health_status", "health_status")}


def _pattern(p: tuple) -> str:
    return "/".join(str(v) if k == "lit" else "*" for k, v in p)


def _own_leaves(m: ObsClassModel) -> List[Tuple[tuple, Ev, frozenset]]:
    """Leaf events written by observe itself (not copied from the default, not delegated to a child observation)."""
    out = []
    for o, t, isd in m.observe_outcomes():
        if isd:
            continue
        for ev in t.events:
            if ev.kind == "leaf" and ev.fn is m.observe_fn and not _is_delegate(ev.expr):
                out.append((ev.path, ev, o.conds))
    return out


def _uses_state(m: ObsClassModel) -> bool:
    return any(isinstance(n, ast.Call) and call_name(n) == ROOT_CALL for n in ast.walk(m.observe_fn.node))


# --------------------------------------------------------------------------------------------------------------- R9.1
def r9_1(ctx: Ctx, om: ObsModel) -> None:
    ctx.rule("R9.1", "every where path denotes a component of the schema and every state key read is produced by its "
                     "describe_state")
    ix = ctx.ix
    n_tpl = n_reads = 0
    for m in _models(om):
        if not _uses_state(m):
            continue
        comp = om.component(m.cls)
        fc = ix.find_method(m.cls, "from_config")
        for t, items in comp.resolved:
            n_tpl += 1
            ctx.ok("R9.1", ctx.key(fc, f"where {template_text(t)} denotes a component"), fc.loc(),
                   f"{m.cls.short}: {template_text(t)} -> describe_state of {', '.join(sorted({i.cls.short for i in items if i.cls})[:6])}"
                   f"{' ...' if len({i.cls.short for i in items if i.cls}) > 6 else ''} (built in {om.where.origin.get((m.cls.qualname, t), '?')})")
        for t, missing in comp.unresolved:
            n_tpl += 1
            relative = any(len(r) > len(t) and r[len(r) - len(t):] == t for r, _ in comp.resolved)
            key = ctx.key(fc, f"where {template_text(t)} denotes a component")
            if relative:
                ctx.ok("R9.1", key, fc.loc(), f"{m.cls.short}: {template_text(t)} is the path relative to a missing parent (component "
                                              f"configured outside its parent observation); the rooted form resolves", trivial=True)
            else:
                ctx.fail("R9.1", key, fc.loc(), f"{m.cls.short}: the path {template_text(t)} built in "
                                                f"{om.where.origin.get((m.cls.qualname, t), '?')} denotes nothing in the state: "
                                                f"{'; '.join(missing[:2])} - the observation would always read as absent")
        if not comp.resolved:
            continue  # every template failed above; the reads have no component to be checked against
        items = comp.items()
        seen: Set[tuple] = set()
        seen_keys: Set[str] = set()
        for r in sorted(m.reads, key=lambda r: (r.fn is not m.observe_fn, r.lineno)):
            if r.steps in seen:
                continue
            seen.add(r.steps)
            n_reads += 1
            found, bad, opaque, conditional = walk_chain(om, items, r.steps)
            key = ctx.key(r.fn, f"state{r.key_text()} is produced by describe_state")
            if key in seen_keys:
                n_reads -= 1
                continue
            seen_keys.add(key)
            where = f"{r.fn.path}:{r.lineno}"
            classes = ", ".join(comp.classes()[:4]) + (" ..." if len(comp.classes()) > 4 else "")
            if bad is not None:
                idx, reasons = bad
                ctx.fail("R9.1", key, where, f"{m.cls.short}.{r.fn.name} reads state{r.key_text()} of [{classes}] but key "
                                             f"{r.steps[idx][1]!r} is not produced: {'; '.join(reasons[:2])}")
                continue
            # conditionally produced key read by a plain subscript: needs a configuration guard
            if conditional:
                idx, pres = conditional[0]
                guards = sorted(t for t, p in r.conds if t.startswith("self.") and p)
                if not guards:
                    ctx.fail("R9.1", key, where, f"{m.cls.short} subscripts state key {r.steps[idx][1]!r}, which describe_state only emits "
                                                 f"when [{dnf_text(pres)}], without any configuration guard (KeyError)")
                    continue
                ctx.ok("R9.1", key, where, f"key {r.steps[idx][1]!r} is emitted when [{dnf_text(pres)}]; read under the guard {guards}"
                       + ("; inner keys of the untyped dictionary are not checkable" if opaque else ""))
                continue
            if opaque:
                ctx.ok("R9.1", key, where, f"below an untyped dictionary of [{classes}]: top-level key exists, inner keys not checkable",
                       trivial=len(r.steps) > 1)
                continue
            prods = sorted({f"{it.ev.fn.cls.short}: {unparse(it.ev.expr)[:50]}" for it in found if it.ev is not None})[:3]
            ctx.ok("R9.1", key, where, f"produced for every class the path denotes [{classes}]" + (f" by {prods}" if prods else ""))
    ctx.floor("R9.1", "where templates", n_tpl, 25)
    ctx.floor("R9.1", "state reads", n_reads, 45)


# --------------------------------------------------------------------------------------------------------------- R9.2
def _fields_of(om: ObsModel, m: ObsClassModel, expr: ast.AST) -> Tuple[Set[Tuple[str, str]], List[str]]:
    items = om.component(m.cls).items()
    got: Set[Tuple[str, str]] = set()
    notes: List[str] = []
    for ch in chains_in(m, expr):
        # the producer of a read below an untyped dictionary is the producer of that dictionary
        cur, used = items, []
        for step in ch:
            found, _ = om.schema.step(cur, ("lit", step[1]) if step[0] == "lit" else ("wild", step[1]))
            if not found:
                break
            cur = found
            used.append(step)
            leafs = [it for it in cur if it.tree is None]
            if leafs and all(it.av.kind != "ref" and it.av.kind != "union" for it in leafs):
                break
        for it in cur:
            if it.tree is None:
                for pair in producer_fields(om, it):
                    got.add(pair)
        notes.append("state" + "".join(f"[{s[1]!r}]" if s[0] == "lit" else "[*]" for s in used))
    return got, notes


def r9_2(ctx: Ctx, om: ObsModel) -> None:
    ctx.rule("R9.2", "each leaf is computed from the documented simulator attribute(s) and from no other state field")
    n = 0
    for m in _models(om):
        leaves = _own_leaves(m)
        if leaves and _uses_state(m) and not om.component(m.cls).resolved:
            n += len(LEAF_TABLE.get(m.cls.short, {}))  # no component: reported by R9.1, the leaves stay accounted for
            continue
        if not leaves:
            continue
        table = LEAF_TABLE.get(m.cls.short)
        if table is None:
            raise AnalysisError(f"R9.2: observation class {m.cls.short} writes leaves itself but has no entry in the frozen leaf table")
        by_pat: Dict[str, List[Ev]] = {}
        for p, ev, _ in leaves:
            by_pat.setdefault(_pattern(p), []).append(ev)
        for pat in by_pat:
            if pat not in table:
                raise AnalysisError(f"R9.2: leaf {pat!r} of {m.cls.short} is not in the frozen leaf table (new leaf: extend the table)")
        for pat, want in table.items():
            if pat not in by_pat:
                raise AnalysisError(f"R9.2: leaf {pat!r} of {m.cls.short} is in the frozen table but observe no longer writes it")
            n += 1
            got: Set[Tuple[str, str]] = set()
            notes: List[str] = []
            for ev in by_pat[pat]:
                g, nt = _fields_of(om, m, ev.expr)
                got |= g
                notes += nt
            key = ctx.key(m.observe_fn, f"leaf {pat or '<root>'} <- " + (", ".join(f"{c}.{a}" for c, a in want) or "no state field"))
            missing = [w for w in want if w not in got]
            extra = sorted(got - set(want))
            where = m.observe_fn.loc(by_pat[pat][0].raw)
            if missing or extra:
                ctx.fail("R9.2", key, where,
                         f"{m.cls.short}: leaf {pat} is computed from {sorted(got) or 'no state field'} (reads {sorted(set(notes))[:4]}); "
                         f"documented source {want}" + (f"; not read: {missing}" if missing else "") + (f"; unexpected: {extra}" if extra else ""))
            else:
                ctx.ok("R9.2", key, where, f"{m.cls.short}: reads {sorted(set(notes))[:4] or 'nothing'} produced from {sorted(got) or '-'}")
    ctx.floor("R9.2", "leaves in the table", n, 36)


# --------------------------------------------------------------------------------------------------------------- R9.3
def r9_3(ctx: Ctx, om: ObsModel) -> None:
    ctx.rule("R9.3", "health leaves select the visible field when *_requires_scan is true and the actual field otherwise")
    ix = ctx.ix
    n = 0
    for m in _models(om):
        flags = sorted(a for a in m.attr_values if a.endswith("requires_scan") and any(fn is m.init_fn for _, _, fn in m.attr_values[a]))
        if flags and not om.component(m.cls).resolved:
            n += 1  # reported by R9.1
            continue
        if not flags:
            continue
        health = [(p, ev) for p, ev, _ in _own_leaves(m) if p and p[-1] == ("lit", "health_status")]
        if not health:
            raise AnalysisError(f"R9.3: {m.cls.short} has {flags} but writes no health_status leaf")
        if len(flags) != 1:
            raise AnalysisError(f"R9.3: {m.cls.short} has several requires_scan flags {flags}")
        flag = flags[0]
        comp = om.component(m.cls)
        bases = [b for b in HEALTH_FIELDS if any(ix.is_subclass(ix.cls(c), ix.cls(b)) for c in comp.classes())]
        if len(bases) != 1:
            raise AnalysisError(f"R9.3: cannot tell which health fields apply to {m.cls.short} (component classes {comp.classes()[:4]})")
        vis, act = HEALTH_FIELDS[bases[0]]
        for p, ev in health:
            n += 1
            key = ctx.key(m.observe_fn, f"{path_text(p)}: {flag} selects {vis} / {act}")
            where = m.observe_fn.loc(ev.raw)
            problems: List[str] = []
            arms: List[str] = []
            saw_visible = saw_actual = False
            for conds, atom in alternatives(ev.expr):
                pol = [pp for t, pp in conds if t == flag]
                got, _ = _fields_of(om, m, atom)
                attrs = {a for _, a in got}
                mem = sorted(a for a in _self_loads(atom) if f"self.{a}" in m.attr_values or f"self.{a}" in m.attr_trees)
                arms.append(f"[{dnf_text([conds])}] -> {sorted(attrs) or mem or unparse(atom)[:30]}")
                if not pol:
                    problems.append(f"alternative {unparse(atom)[:50]} is not selected by {flag}")
                    continue
                if pol[0]:
                    if act in attrs or (attrs - {vis}):
                        problems.append(f"with {flag} true the leaf reads {sorted(attrs)} (must be only {vis})")
                    saw_visible = saw_visible or vis in attrs
                else:
                    if attrs != {act}:
                        problems.append(f"with {flag} false the leaf reads {sorted(attrs) or 'no state field'} (must be {act})")
                    saw_actual = saw_actual or attrs == {act}
            if not saw_visible:
                problems.append(f"no arm with {flag} true reads {vis}")
            if not saw_actual:
                problems.append(f"no arm with {flag} false reads {act}")
            ctx.record("R9.3", key, where, not problems,
                       f"{m.cls.short}: " + ("; ".join(problems) if problems else "; ".join(arms)))
    ctx.floor("R9.3", "health leaves", n, 4)


# --------------------------------------------------------------------------------------------------------------- R9.4
def _np_test(e: ast.AST, var_names: Set[str]) -> Optional[bool]:
    """`X is NOT_PRESENT_IN_STATE` -> True, `X is not NOT_PRESENT_IN_STATE` -> False (polarity of 'absent' when true)."""
    if isinstance(e, ast.Compare) and len(e.ops) == 1:
        l, r = e.left, e.comparators[0]
        names = {unparse(l), unparse(r)}
        if "NOT_PRESENT_IN_STATE" in names and names & var_names:
            if isinstance(e.ops[0], (ast.Is, ast.Eq)):
                return True
            if isinstance(e.ops[0], (ast.IsNot, ast.NotEq)):
                return False
    return None


def r9_4(ctx: Ctx, om: ObsModel) -> None:
    ix = ctx.ix
    ctx.rule("R9.4", "absent component => stored default, state touched only past the presence test; node not ON => "
                     "default encoding, no child observation evaluated")
    n_np = n_on = 0
    node_cls = ix.cls("Node")
    on_cls = ix.cls("NodeOperatingState")
    on_val = ix.enum_members(on_cls).get("ON")
    if not isinstance(on_val, int):
        raise AnalysisError("R9.4: NodeOperatingState.ON is not an integer member")
    for m in _models(om):
        if not _uses_state(m):
            continue
        fn = m.observe_fn
        g = CFG(fn.node)
        svars: Set[str] = set()
        assigns: List[CNode] = []
        for nd in g.nodes:
            if nd.kind == "stmt" and isinstance(nd.ast, (ast.Assign, ast.AnnAssign)) and isinstance(nd.ast.value, ast.Call) \
                    and call_name(nd.ast.value) == ROOT_CALL:
                t = nd.ast.targets[0] if isinstance(nd.ast, ast.Assign) else nd.ast.target
                if isinstance(t, ast.Name):
                    svars.add(t.id)
                    assigns.append(nd)
                    a = nd.ast.value.args
                    if len(a) != 2 or unparse(a[1]) != "self.where":
                        raise AnalysisError(f"R9.4: {fn.short} looks the state up with {unparse(nd.ast.value)[:60]}, not self.where")
        if len(svars) != 1:
            raise AnalysisError(f"R9.4: {fn.short} binds the component state to {sorted(svars)}")
        var = next(iter(svars))
        tests = [nd for nd in g.nodes if nd.kind == "cond" and _np_test(nd.ast, svars) is not None]

        def reads_state(nd: CNode) -> bool:
            r = nd.expr_root()
            if r is None or nd in assigns:
                return False
            for x in walk_shallow(r):
                if isinstance(x, ast.Subscript) and isinstance(x.value, ast.Name) and x.value.id == var:
                    return True
                if isinstance(x, ast.Attribute) and isinstance(x.value, ast.Name) and x.value.id == var and x.attr in ("get", "items", "keys", "values"):
                    return True
            # derived single-assignment locals are reads of the node that defines them
            return False

        readers = [nd for nd in g.nodes if nd.kind in ("stmt", "cond", "for") and reads_state(nd)]
        present_edges = [e for e in g.edges() if e.label and e.label[0] == "cond" and e.src in tests
                         and e.label[2] != _np_test(e.src.ast, svars)]
        absent_edges = [e for e in g.edges() if e.label and e.label[0] == "cond" and e.src in tests
                        and e.label[2] == _np_test(e.src.ast, svars)]
        # (ii) every read is past a 'present' edge
        n_np += 1
        w = g.path_avoiding(readers, lambda e: e in present_edges) if readers else None
        ctx.record("R9.4", ctx.key(fn, f"{var} is dereferenced only past the NOT_PRESENT_IN_STATE test"), fn.loc(), w is None,
                   f"{m.cls.short}: {len(readers)} statements read {var}; all are dominated by a present edge" if w is None else
                   f"{m.cls.short}: {var} can be subscripted while it is the NOT_PRESENT_IN_STATE sentinel (TypeError)",
                   cfg_path_text(w) if w else None)
        # (i) from every 'absent' edge: only `return self.default_observation` or a fresh look-up is reachable first
        n_np += 1
        rets_other = [nd for nd in g.nodes if nd.kind == "stmt" and isinstance(nd.ast, ast.Return)
                      and not (nd.ast.value is not None and unparse(nd.ast.value) == "self.default_observation")]
        bad_path = None
        stop = {nd.id for nd in assigns} | {nd.id for nd in g.nodes if nd.kind == "stmt" and isinstance(nd.ast, ast.Return)
                                             and nd.ast.value is not None and unparse(nd.ast.value) == "self.default_observation"}
        for e in absent_edges:
            if e.dst.id in stop:
                continue
            targets = rets_other + readers + [g.exit]
            if e.dst in targets:
                bad_path = [e]
                break
            p = g.path_avoiding(targets, lambda x: False, start=e.dst, blocked_nodes=stop)
            if p is not None:
                bad_path = [e] + p
                break
        ctx.record("R9.4", ctx.key(fn, "absent component returns self.default_observation"), fn.loc(), bad_path is None and bool(absent_edges),
                   f"{m.cls.short}: every absent edge ({len(absent_edges)}) leads to `return self.default_observation` (or a fresh look-up)"
                   if bad_path is None else f"{m.cls.short}: with {var} absent, observe can end without returning the stored default",
                   cfg_path_text(bad_path) if bad_path else None)
        # (iii) node-level observations
        comp = om.component(m.cls)
        if not comp.resolved:
            n_on += 1  # unknown component kind: reported by R9.1
            continue
        if not comp.classes() or not all(ix.is_subclass(ix.cls(c), node_cls) for c in comp.classes()):
            continue
        n_on += 1
        outs = [(o, t) for o, t, isd in m.observe_outcomes() if not isd]
        on_atoms: Set[str] = set()
        for o, t in outs:
            for ev in t.events:
                for txt, pol in ev.conds:
                    if "['operating_state']" in txt and ROOT_CALL in txt:
                        on_atoms.add(txt)
        key = ctx.key(fn, "node not ON => default encoding, children not evaluated")
        if len(on_atoms) != 1:
            ctx.fail("R9.4", key, fn.loc(), f"{m.cls.short}: the path denotes a node ({', '.join(comp.classes()[:3])} ...) but observe does "
                                            f"not branch on its operating_state (tests found: {sorted(on_atoms)})")
            continue
        atom = next(iter(on_atoms))
        try:
            cmp_ = ast.parse(atom, mode="eval").body
        except SyntaxError:
            raise AnalysisError(f"R9.4: cannot re-read the power test {atom}")
        if not (isinstance(cmp_, ast.Compare) and isinstance(cmp_.ops[0], ast.Eq) and isinstance(cmp_.comparators[0], ast.Constant)):
            raise AnalysisError(f"R9.4: power test `{atom}` of {fn.short} is not a comparison with a constant")
        probs: List[str] = []
        if cmp_.comparators[0].value != on_val:
            probs.append(f"operating_state is compared with {cmp_.comparators[0].value!r}, NodeOperatingState.ON is {on_val}")
        D = m.default_view()
        for o, t in outs:
            off = [ev for ev in t.events if (atom, False) in ev.conds]
            may_off = [ev for ev in t.events if (atom, True) not in ev.conds]
            from_default = {ev.path for ev in off if ev.fn is m.init_fn}
            own_always = {ev.path for ev in may_off if ev.fn is fn}  # e.g. the node's own operating_status, written on every edge
            lacking = sorted(path_text(p) for p in set(D.presence()) - from_default - own_always if p)
            if lacking:
                probs.append(f"on the not-ON edge the default entries {lacking[:4]} are not copied from default_observation")
            for ev in may_off:
                if ev.kind == "leaf" and ev.fn is fn and any(isinstance(x, ast.Call) and isinstance(x.func, ast.Attribute)
                                                             and x.func.attr == "observe" for x in ast.walk(ev.expr)):
                    probs.append(f"{path_text(ev.path)} evaluates a child observation while the node may not be ON")
        ctx.record("R9.4", key, fn.loc(), not probs,
                   f"{m.cls.short}: `{atom.replace('access_from_nested_dict(state, self.where)', 'state')}` false => {{**default_observation}}; "
                   f"child observe() calls only on the ON edge" if not probs else f"{m.cls.short}: " + "; ".join(probs[:3]))
    ctx.floor("R9.4", "presence-test instances", n_np, 22)
    ctx.floor("R9.4", "node-level observations", n_on, 3)


# --------------------------------------------------------------------------------------------------------------- R9.5
def _delegate(e: Optional[ast.AST]) -> Optional[Tuple[ast.AST, str]]:
    """(receiver, member) of `x.space` / `x.default_observation` / `x.observe(state)`."""
    if isinstance(e, ast.Attribute) and e.attr in ("space", "default_observation"):
        return e.value, e.attr
    if isinstance(e, ast.Call) and isinstance(e.func, ast.Attribute) and e.func.attr == "observe":
        return e.func.value, "observe"
    return None


def r9_5(ctx: Ctx, om: ObsModel) -> None:
    ctx.rule("R9.5", "slot i of space, default and observe is the same component; ACL positions are consistent")
    n = 0
    for m in _models(om):
        S, D = m.space_tree(), m.default_view()
        outs = [t for o, t, isd in m.observe_outcomes() if not isd]
        views = [("space", m.space_fn, S), ("default_observation", m.init_fn, D)] + [("observe", m.observe_fn, t) for t in outs]
        per_path: Dict[tuple, Dict[str, Set[str]]] = {}
        recv_ast: Dict[str, ast.AST] = {}
        for vname, fn, T in views:
            if T is None:
                continue
            for ev in T.events:
                d = _delegate(ev.expr) if ev.kind == "leaf" else None
                if d is None:
                    continue
                per_path.setdefault(ev.path, {}).setdefault(vname, set()).add(unparse(d[0]))
                recv_ast[unparse(d[0])] = d[0]
        for p, byview in sorted(per_path.items(), key=lambda kv: repr(kv[0])):
            n += 1
            key = ctx.key(m.observe_fn, f"{path_text(p)} delegates to the same component in space, default and observe")
            recvs = {r for s in byview.values() for r in s}
            probs: List[str] = []
            if set(byview) != {"space", "default_observation", "observe"}:
                probs.append(f"delegated only in {sorted(byview)}")
            if len(recvs) != 1:
                probs.append(f"receivers differ: { {v: sorted(s) for v, s in byview.items()} }")
            recv = sorted(recvs)[0]
            slot = p[-1] if p and p[-1][0] == "var" else None
            if slot is not None:
                ktxt = slot[1]
                ra = recv_ast[recv]
                ps = m.pseudos.get(ra.id) if isinstance(ra, ast.Name) and is_pseudo(ra.id) else None
                if ps is None or ps.role not in ("e", "v"):
                    probs.append(f"component {recv} is not the element of the loop that makes the slot key <{ktxt}>")
                else:
                    src = unparse(ps.source)
                    idx_name = f"index[{src}]" if ps.how == "enumerate" else f"key[{src}]"
                    if idx_name not in ktxt:
                        probs.append(f"slot key <{ktxt}> is not the index of the loop over {src} that yields {recv}")
            ctx.record("R9.5", key, m.observe_fn.loc(), not probs,
                       f"{m.cls.short}: " + (f"slot <{slot[1]}> -> {recv}" if slot else f"{recv}") + " in all three" if not probs
                       else f"{m.cls.short}: {'; '.join(probs)}")
    ctx.floor("R9.5", "delegated entries", n, 19)
    # ACL positions
    m = om.model("ACLObservation")
    fn = m.observe_fn
    S, D = m.space_tree(), m.default_view()
    outs = [t for o, t, isd in m.observe_outcomes() if not isd]
    if len(outs) != 1:
        raise AnalysisError("R9.5: ACLObservation.observe has several non-default returns")
    O = outs[0]
    slots = {v: sorted({p[0][1] for p in T.presence() if p and p[0][0] == "var"}) for v, T in (("space", S), ("default", D), ("observe", O))}
    same = len({tuple(x) for x in slots.values()}) == 1 and len(slots["observe"]) == 1
    ctx.record("R9.5", ctx.key(fn, "rule slots are the same index family in space, default and observe"), fn.loc(), same, f"{slots}")
    if same:
        idx = slots["observe"][0]
        pos = [ev for ev in O.events if ev.kind == "leaf" and ev.path[-1] == ("lit", "position")]
        okpos = bool(pos) and all(unparse(ev.expr) == idx for ev in pos) and all(unparse(ev.expr) == idx for ev in D.events
                                                                                   if ev.kind == "leaf" and ev.path and ev.path[-1] == ("lit", "position"))
        ctx.record("R9.5", ctx.key(fn, "position leaf equals the slot key"), fn.loc(), okpos,
                   f"position <- {sorted({unparse(ev.expr) for ev in pos})}; slot key <{idx}>")
        wild = sorted({r.steps[0][1] for r in m.reads if r.steps and r.steps[0][0] == "wild"})
        ctx.record("R9.5", ctx.key(fn, "the state is indexed with the slot key"), fn.loc(), wild == [idx],
                   f"state[...] indexed with {wild}; slot key <{idx}>")
        # base of the producer's key family
        comp = om.component(m.cls)
        bases: Set[str] = set()
        for it in comp.items():
            if it.tree is not None:
                for k in it.tree.children(it.path):
                    bases.add(k[1] if k[0] == "var" else repr(k[1]))
        ok_base = len(bases) == 1 and _bare_pseudo(next(iter(bases)), "index") and _bare_pseudo(idx, "index") and idx.startswith("index[range(")
        ctx.record("R9.5", ctx.key(fn, "positions start at the base AccessControlList.describe_state uses"), fn.loc(), ok_base,
                   f"describe_state keys <{sorted(bases)}> (enumerate, base 0); observation slots <{idx}> (range, base 0)")


def _bare_pseudo(t: str, word: str) -> bool:
    """`index[...]` and nothing else (no `+ 1`, no second operand)."""
    if not (t.startswith(word + "[") and t.endswith("]")):
        return False
    depth = 0
    for i, ch in enumerate(t):
        depth += ch == "["
        depth -= ch == "]"
        if depth == 0 and i >= len(word) and i != len(t) - 1:
            return False
    return True


def _parses(t: str) -> bool:
    try:
        ast.parse(t, mode="eval")
        return True
    except SyntaxError:
        return False


# --------------------------------------------------------------------------------------------------------------- R9.6
def r9_6(ctx: Ctx, om: ObsModel) -> None:
    ix = ctx.ix
    ctx.rule("R9.6", "cross-step memory read by observe is also stored by observe")
    n = 0
    for m in _models(om):
        leaves = _own_leaves(m)
        if not leaves:
            continue
        used: Dict[str, ast.AST] = {}
        for p, ev, _ in leaves:
            for a, node in _self_loads(ev.expr).items():
                used.setdefault(a, ev.raw if ev.raw is not None else node)
        for h in _closure(ix, m.cls, m.observe_fn)[1:]:
            for a, node in _self_loads(h.node).items():
                used.setdefault(a, node)
        in_space = set(space_reads(ix, m))
        stored = observe_stores(ix, m)
        # configuration-derived: some store anywhere in the class has a right-hand side mentioning a parameter
        config: Set[str] = set()
        for f in m.cls.methods.values():
            if isinstance(f.node, ast.Lambda):
                continue
            params = {a.arg for a in f.node.args.args + f.node.args.kwonlyargs} - {"self", "state"}
            for s in walk_shallow(f.node):
                tgts, val = [], None
                if isinstance(s, ast.Assign):
                    tgts, val = s.targets, s.value
                elif isinstance(s, ast.AnnAssign) and s.value is not None:
                    tgts, val = [s.target], s.value
                for t in tgts:
                    if isinstance(t, ast.Attribute) and isinstance(t.value, ast.Name) and t.value.id == "self":
                        if f is not m.observe_fn and any(isinstance(x, ast.Name) and x.id in params for x in ast.walk(val)):
                            config.add(t.attr)
        for a, node in sorted(used.items()):
            meth = ix.find_method(m.cls, a)
            fld = ix.find_field(m.cls, a)
            if meth is not None or (fld is not None and fld[1].classvar) or a in in_space or a in config:
                continue
            if f"self.{a}" not in m.attr_values and f"self.{a}" not in m.attr_trees:
                continue
            n += 1
            key = ctx.key(m.observe_fn, f"memory self.{a} is updated by observe")
            init_val = [unparse(v)[:40] for c, v, fn in m.attr_values.get(f"self.{a}", []) if fn is m.init_fn and v is not None]
            if a in stored:
                # ... and on every path that returns a freshly built observation (an early return before the bookkeeping leaves the
                # remembered value behind)
                g_ = CFG(m.observe_fn.node)
                sts = {x.id for x in g_.nodes if x.kind == "stmt" and isinstance(x.ast, (ast.Assign, ast.AnnAssign)) and any(
                    isinstance(t, ast.Attribute) and t.attr == a and isinstance(t.value, ast.Name) and t.value.id == "self"
                    for t in (x.ast.targets if isinstance(x.ast, ast.Assign) else [x.ast.target]))}
                rets_ = [x for x in g_.nodes if x.kind == "stmt" and isinstance(x.ast, ast.Return) and x.ast.value is not None
                         and unparse(x.ast.value) != "self.default_observation"]
                # only for an instance that reads the memory at all: the configuration conditions (tests of plain self attributes)
                # under which a read of self.<a> happens must be able to hold on the store-less path too
                reads_ = [x for x in g_.nodes if x.kind in ("stmt", "cond") and x.expr_root() is not None and any(
                    isinstance(y, ast.Attribute) and y.attr == a and isinstance(y.ctx, ast.Load) and isinstance(y.value, ast.Name) and y.value.id == "self"
                    for y in ast.walk(x.expr_root()))]

                def cfg_atom(e):
                    if not (e.label and e.label[0] == "cond"):
                        return None
                    t = unparse(e.label[1])
                    names = {y.id for y in ast.walk(e.label[1]) if isinstance(y, ast.Name)}
                    return (t, bool(e.label[2])) if names <= {"self"} and "self." in t and "(" not in t else None

                p_ = None
                for rd in reads_ or [None]:
                    need = {}
                    if rd is not None:
                        for e in g_.edges():
                            ca = cfg_atom(e)
                            if ca and g_.path_avoiding([rd], lambda x, ee=e: x is ee) is None:
                                need[ca[0]] = ca[1]
                    p_ = g_.path_avoiding(rets_, lambda e: (lambda ca: ca is not None and ca[0] in need and need[ca[0]] != ca[1])(cfg_atom(e)),
                                          blocked_nodes=sts) if sts and rets_ else None
                    if p_ is not None:
                        break
                if p_ is None:
                    ctx.ok("R9.6", key, m.observe_fn.loc(node), f"{m.cls.short}: self.{a} (initialised to {init_val}) feeds a leaf and is stored by observe on every path that returns a built observation")
                else:
                    ctx.fail("R9.6", key, m.observe_fn.loc(node),
                             f"{m.cls.short}: observe can return a freshly built observation without storing self.{a}: on that path the value "
                             f"remembered for later steps is not refreshed", cfg_path_text(p_))
                # ... and never on a path that goes on to report the default encoding: the component is absent (or its node is off) there,
                # the simulator keeps its last-scanned value through a delete/restore, so wiping the memory makes the leaf of the restored
                # component read the default instead of the visible value until the next scan
                defrets_ = [x for x in g_.nodes if x.kind == "stmt" and isinstance(x.ast, ast.Return) and x.ast.value is not None
                            and unparse(x.ast.value) == "self.default_observation"]
                key2 = ctx.key(m.observe_fn, f"memory self.{a} is left alone on the paths that report the default")
                w_ = None
                for sn in [x for x in g_.nodes if x.id in sts]:
                    w_ = g_.path_avoiding(defrets_, lambda e: False, start=sn) if defrets_ else None
                    if w_ is not None:
                        w_ = (sn, w_)
                        break
                if w_ is None:
                    ctx.ok("R9.6", key2, m.observe_fn.loc(node), f"{m.cls.short}: no store of self.{a} reaches `return self.default_observation` "
                           f"({len(sts)} store(s), {len(defrets_)} default return(s))")
                else:
                    ctx.fail("R9.6", key2, m.observe_fn.loc(w_[0].ast),
                             f"{m.cls.short}: observe overwrites the remembered self.{a} (`{unparse(w_[0].ast)[:70]}`) and then reports the default "
                             f"encoding: the value shown by the last scan is lost while the component is absent, so after it comes back the leaf "
                             f"reads the overwritten value instead of the component's visible one", cfg_path_text(w_[1]))
            else:
                ctx.fail("R9.6", key, m.observe_fn.loc(node),
                         f"{m.cls.short}: self.{a} is initialised in __init__ to {init_val}, is not configuration and is read by observe "
                         f"as the value remembered from earlier steps, but no statement of observe (or its helpers) ever stores it: "
                         f"the leaf falls back to the construction-time value instead of the last observed one")
    ctx.floor("R9.6", "memory attributes", n, 2)


# --------------------------------------------------------------------------------------------------------------- R9.7
def _option_names(om: ObsModel) -> Set[str]:
    """Every option an observation ConfigSchema declares (annotated class-body names of the nested ConfigSchema classes)."""
    out: Set[str] = set()
    for c in om.classes:
        for n in c.node.body:
            if isinstance(n, ast.ClassDef) and n.name == "ConfigSchema":
                for st in n.body:
                    if isinstance(st, ast.AnnAssign) and isinstance(st.target, ast.Name):
                        out.add(st.target.id)
    return out


def _last_name(e: ast.AST) -> Optional[str]:
    if isinstance(e, ast.Attribute):
        return e.attr
    if isinstance(e, ast.Name):
        return e.id
    return None


def r9_7(ctx: Ctx, om: ObsModel) -> None:
    """An option travels from the scenario to the leaf that consults it only through same-named hops: inheritance blocks
    (`if child.f is None: child.f = parent.f`), child-config stores, constructor keywords and `self.f = f`.  A hop whose two
    ends are both declared option names but different options makes the leaf follow the wrong scenario setting."""
    ctx.rule("R9.7", "a scenario option reaches the observation through like-named hops only (inheritance, keyword, store)")
    opts = _option_names(om)
    if "services_requires_scan" not in opts or "applications_requires_scan" not in opts:
        raise AnalysisError("R9.7: the *_requires_scan options are no longer declared by the observation ConfigSchemas")
    n_inh = n_hop = 0
    for c in om.classes:
        for fn in c.methods.values():
            if isinstance(fn.node, ast.Lambda):
                continue
            _ld = LocalDefs(fn.node)
            _params = {a.arg for a in fn.node.args.args + fn.node.args.kwonlyargs}

            def _last_name(e: ast.AST, _ld=_ld, _params=_params) -> Optional[str]:  # noqa: F811 - a local stands for its definition
                if isinstance(e, ast.Attribute):
                    return e.attr
                if isinstance(e, ast.Name):
                    if e.id not in opts and e.id not in _params:
                        d = _ld.single(e.id)
                        if d and d[0] is not None and d[1] is None and isinstance(d[0], (ast.Attribute, ast.Name)):
                            return _last_name(d[0])
                        if d and d[0] is not None and d[1] is None and isinstance(d[0], (ast.ListComp, ast.DictComp, ast.SetComp)):
                            return _last_name(d[0].generators[0].iter)  # [f(c) for c in config.<option>]
                    return e.id
                return None

            for nd in ast.walk(fn.node):
                # (a) inheritance block: if X.f is None / if not X.f : X.g = Y.h
                if isinstance(nd, ast.If) and len(nd.body) == 1 and isinstance(nd.body[0], ast.Assign) and not nd.orelse:
                    t = expand_test(_ld, nd.test)
                    probe = None
                    if isinstance(t, ast.Compare) and len(t.ops) == 1 and isinstance(t.ops[0], ast.Is) and \
                            isinstance(t.comparators[0], ast.Constant) and t.comparators[0].value is None:
                        probe = t.left
                    elif isinstance(t, ast.UnaryOp) and isinstance(t.op, ast.Not):
                        probe = t.operand
                    asg = nd.body[0]
                    if isinstance(probe, ast.Attribute) and len(asg.targets) == 1 and isinstance(asg.targets[0], ast.Attribute) \
                            and isinstance(asg.value, ast.Attribute) and probe.attr in opts:
                        tgt, val = asg.targets[0], asg.value
                        if unparse(tgt.value) != unparse(probe.value) or val.attr not in opts:
                            continue
                        n_inh += 1
                        key = ctx.key(fn, f"option {probe.attr} inherits from the like-named parent option")
                        good = probe.attr == tgt.attr == val.attr
                        ctx.record("R9.7", key, fn.loc(nd), good,
                                   f"{fn.short}: when {unparse(probe)} is unset, {unparse(tgt)} is filled from {unparse(val)}"
                                   + ("" if good else " - a different option: the component follows the wrong scenario setting"))
                        continue
                # (b) plain store between option names: X.g = Y.h  /  self.g = h
                if isinstance(nd, ast.Assign) and len(nd.targets) == 1 and isinstance(nd.targets[0], ast.Attribute):
                    g, h = nd.targets[0].attr, _last_name(nd.value)
                    if g in opts and h in opts and isinstance(nd.value, (ast.Attribute, ast.Name)):
                        n_hop += 1
                        ctx.record("R9.7", ctx.key(fn, f"store {unparse(nd.targets[0])} <- like-named option"), fn.loc(nd), g == h,
                                   f"{fn.short}: {unparse(nd.targets[0])} = {unparse(nd.value)}"
                                   + ("" if g == h else " crosses two different options"))
                if isinstance(nd, ast.AnnAssign) and isinstance(nd.target, ast.Attribute) and nd.value is not None:
                    g, h = nd.target.attr, _last_name(nd.value)
                    if g in opts and h in opts and isinstance(nd.value, (ast.Attribute, ast.Name)):
                        n_hop += 1
                        ctx.record("R9.7", ctx.key(fn, f"store {unparse(nd.target)} <- like-named option"), fn.loc(nd), g == h,
                                   f"{fn.short}: {unparse(nd.target)} = {unparse(nd.value)}"
                                   + ("" if g == h else " crosses two different options"))
                # (c) keyword hop: f(..., g=<x>.h) / f(..., g=h)
                if isinstance(nd, ast.Call):
                    for kw in nd.keywords:
                        h = _last_name(kw.value)
                        if kw.arg in opts and h in opts and isinstance(kw.value, (ast.Attribute, ast.Name)):
                            n_hop += 1
                            ctx.record("R9.7", ctx.key(fn, f"keyword {kw.arg} of {call_name(nd)} <- like-named option"), fn.loc(nd),
                                       kw.arg == h, f"{fn.short}: {call_name(nd)}(..., {kw.arg}={unparse(kw.value)})"
                                       + ("" if kw.arg == h else " crosses two different options"))
    ctx.floor("R9.7", "inheritance blocks", n_inh, 20)
    ctx.floor("R9.7", "option hops", n_hop, 60)



def r9_8(ctx: Ctx, om: ObsModel) -> None:
    """Per-iteration freshness: inside a loop of an observation function, a local that the body assigns under a condition and reads
    afterwards must also be (re)initialised in the body before that read on every path - otherwise an iteration in which the condition
    is false shows the value left by an earlier iteration (another port's traffic, another rule's field)."""
    ctx.rule("R9.8", "no loop-carried stale value in observe(): a local assigned conditionally in a loop body is re-initialised in the "
                     "body on every path before it is read")
    n = 0
    for m in _models(om):
        fn = m.observe_fn
        if fn is None or isinstance(fn.node, ast.Lambda):
            continue
        loops = [x for x in ast.walk(fn.node) if isinstance(x, (ast.For, ast.While))]
        if not loops:
            continue
        g = CFG(fn.node)
        for loop in loops:
            head = next((x for x in g.nodes if x.ast is loop and x.kind in ("for", "cond")), None)
            if head is None:
                continue
            body_nodes = [x for x in g.nodes if loop in x.loops and x is not head]
            stores: Dict[str, List[CNode]] = {}
            for x in body_nodes:
                if x.kind == "stmt" and isinstance(x.ast, (ast.Assign, ast.AnnAssign, ast.AugAssign)):
                    for t in ast.walk(x.ast):
                        if isinstance(t, ast.Name) and isinstance(t.ctx, ast.Store):
                            stores.setdefault(t.id, []).append(x)
            tnames = {t.id for t in ast.walk(loop.target) if isinstance(t, ast.Name)} if isinstance(loop, ast.For) else set()
            for nm, sts in sorted(stores.items()):
                if nm in tnames:
                    continue
                starts = [e.dst for e in g.succ[head.id] if e.label and ((e.label[0] == "iter" and e.label[2]) or (e.label[0] == "cond" and e.label[2]))]
                reads = [x for x in body_nodes if x.expr_root() is not None and any(
                    isinstance(y, ast.Name) and y.id == nm and isinstance(y.ctx, ast.Load) for y in ast.walk(x.expr_root()))
                    and not (isinstance(x.ast, ast.AugAssign) and isinstance(x.ast.target, ast.Name) and x.ast.target.id == nm)]
                if not reads or not starts:
                    continue
                n += 1
                blocked = {x.id for x in sts}
                wit = None
                for st in starts:
                    if st.id in blocked:
                        continue
                    wit = g.path_avoiding([r for r in reads if r.id not in blocked], lambda e: False, start=st, blocked_nodes=blocked | {head.id})
                    if wit is None and st in reads and st.id not in blocked:
                        wit = []
                    if wit is not None:
                        break
                ctx.record("R9.8", ctx.key(fn, f"`{nm}` is fresh in every iteration of the loop at line {loop.lineno}"), fn.loc(loop), wit is None,
                           f"every read of `{nm}` in the body follows a store of it in the same iteration" if wit is None else
                           f"`{nm}` is assigned only on some paths of the loop body and read on a path without any assignment in that iteration: "
                           f"the value of an earlier iteration is shown", cfg_path_text(wit) if wit else None)
    ctx.floor("R9.8", "loop-local variables inspected", n, 3)



def r9_10(ctx: Ctx, om: ObsModel) -> None:
    """The observation is computed from describe_state(): that function must report the *current* objects.  An implementation that
    stores on self (a memo of a sub-state, a cached dictionary) reports what was true when the memo was taken."""
    ix = ctx.ix
    ctx.rule("R9.10", "every describe_state implementation computes its answer afresh: no store to an attribute of self, no mutator "
                      "call on one")
    n = 0
    for f in ix.functions:
        if f.name != "describe_state" or isinstance(f.node, ast.Lambda) or not f.path.startswith("src/primaite/simulator/"):
            continue
        n += 1
        bad = [f"line {x.lineno}: {unparse(x)[:60]}" for x in ast.walk(f.node) if isinstance(x, (ast.Assign, ast.AugAssign)) and any(
            "self." in unparse(t) and not isinstance(t, ast.Name) for t in (x.targets if isinstance(x, ast.Assign) else [x.target]))]
        bad += [f"line {c.lineno}: {unparse(c)[:60]}" for c in ast.walk(f.node) if isinstance(c, ast.Call) and isinstance(c.func, ast.Attribute)
                and c.func.attr in ("setdefault", "update", "append", "pop", "add", "clear", "remove") and unparse(c.func.value).startswith("self.")]
        ctx.record("R9.10", ctx.key(f, "describe_state stores nothing on the object"), f.loc(), not bad,
                   "pure read of the component" if not bad else
                   "describe_state keeps part of its answer on the object: later observations show the remembered part, not the current state", bad[:4])
    ctx.floor("R9.10", "describe_state implementations", n, 40)



def r9_11(ctx: Ctx, om: ObsModel) -> None:
    """FolderObservation refreshes its health leaf only on a step in which the folder reports `scanned_this_step`.  Every function
    of Folder that writes the folder's visible health therefore has to raise that flag on the same path - otherwise the visible value
    changes and the observation keeps showing the remembered one."""
    ix = ctx.ix
    ctx.rule("R9.11", "every store of Folder.visible_health_status is accompanied, on every path through it, by `_scanned_this_step = True` "
                      "(the flag the folder observation refreshes on)")
    folder = ix.cls("Folder")
    # the flag the observation consults: produced by Folder.describe_state under the key the observation reads
    fo = ix.method("FolderObservation.observe")
    if not any(isinstance(x, ast.Constant) and x.value == "scanned_this_step" for x in ast.walk(fo.node)):
        ctx.ok("R9.11", ctx.key(fo, "the folder observation does not wait for a flag"), fo.loc(),
               "FolderObservation.observe reads the visible value without consulting 'scanned_this_step': nothing to pair", trivial=True)
        return
    ds = ix.method("Folder.describe_state")
    src = [unparse(st.value) for st in ast.walk(ds.node) if isinstance(st, ast.Assign) and any(
        isinstance(t, ast.Subscript) and isinstance(t.slice, ast.Constant) and t.slice.value == "scanned_this_step" for t in st.targets)]
    if len(src) != 1 or not src[0].startswith("self."):
        raise AnalysisError(f"R9.11: cannot tell which attribute Folder reports as scanned_this_step ({src})")
    flag = src[0][5:]
    n = 0
    for f in folder.methods.values():
        if isinstance(f.node, ast.Lambda):
            continue
        g = None
        for st in ast.walk(f.node):
            if isinstance(st, ast.Assign) and any(isinstance(t, ast.Attribute) and t.attr == "visible_health_status" and unparse(t.value) == "self" for t in st.targets):
                g = g or CFG(f.node)
                sn = next((x for x in g.nodes if x.ast is st), None)
                if sn is None:
                    continue
                n += 1
                flags = {x.id for x in g.nodes if x.kind == "stmt" and isinstance(x.ast, ast.Assign) and any(
                    isinstance(t, ast.Attribute) and t.attr == flag and unparse(t.value) == "self" for t in x.ast.targets)
                    and isinstance(x.ast.value, ast.Constant) and x.ast.value.value is True}
                before = g.path_avoiding([sn], lambda e: False, blocked_nodes=flags)
                after = g.path_avoiding([g.exit], lambda e: False, start=sn, blocked_nodes=flags)
                ok = before is None or after is None
                ctx.record("R9.11", ctx.key(f, f"`{unparse(st)[:70]}` raises {flag}"), f.loc(st), ok,
                           f"`{flag} = True` lies on every path through the store" if ok else
                           f"{f.short} changes the folder's visible health without raising `{flag}`: the folder observation (requires_scan) does "
                           f"not refresh and keeps showing the value of the previous scan", cfg_path_text(after))
    ctx.floor("R9.11", "stores of Folder.visible_health_status", n, 2)



def r9_13(ctx: Ctx) -> None:
    """Link load band.  Whatever the band widths are, three points of the encoding are fixed by what a band is: an idle link
    reads 0 (the default encoding), any traffic at all reads at least 1, and a full link reads the top of the leaf's declared
    space - the only way that value can occur, since a link never carries more than its bandwidth.  Bands are monotone in the load."""
    from ..absval import UNKNOWN, Evaluator, walk
    ix = ctx.ix
    ctx.rule("R9.13", "link load band anchors: idle -> 0, any traffic -> >= 1, full link -> top of the declared space, monotone in the load "
                      "(finite-point evaluation of LinkObservation.observe)")
    f = ix.method("LinkObservation.observe")
    sp = ix.method("LinkObservation.space")
    tops = [c.args[0].value for c in ast.walk(sp.node) if isinstance(c, ast.Call) and call_name(c) == "Discrete" and c.args
            and isinstance(c.args[0], ast.Constant)]
    if len(tops) != 1:
        raise AnalysisError("R9.13: LinkObservation.space does not declare exactly one Discrete(n) leaf")
    top = tops[0] - 1
    subs = {}
    for x in ast.walk(f.node):
        if isinstance(x, ast.Subscript) and isinstance(x.slice, ast.Constant) and x.slice.value in ("bandwidth", "current_load"):
            subs[x.slice.value] = unparse(x)
    if set(subs) != {"bandwidth", "current_load"}:
        raise AnalysisError("R9.13: LinkObservation.observe no longer reads link_state['bandwidth'] and ['current_load']")
    absent = [unparse(x) for x in ast.walk(f.node) if isinstance(x, ast.Compare) and "NOT_PRESENT_IN_STATE" in unparse(x)]
    g = CFG(f.node)
    bw = 90.0
    got = {}
    for load in (0, 0.001, 1, 10, 45, 89.999, 90):
        env = {subs["bandwidth"]: bw, subs["current_load"]: load}
        for a in absent:
            env[a] = "is not" in a or "!=" in a
        ev = Evaluator(env)
        kind, node, _ = walk(g, ev)
        if kind != "return":
            raise AnalysisError(f"R9.13: cannot evaluate LinkObservation.observe for load {load} ({kind})")
        leaf = node.ast.value
        while isinstance(leaf, ast.Dict) and len(leaf.values) == 1:
            leaf = leaf.values[0]
        v = ev.ev(leaf)
        if v is UNKNOWN:
            raise AnalysisError(f"R9.13: cannot evaluate the returned leaf `{unparse(leaf)[:60]}` for load {load}")
        got[load] = v
    seq = [got[k] for k in sorted(got)]
    checks = [("idle link reads 0", got[0] == 0), ("any traffic reads at least 1", got[0.001] >= 1 and got[1] >= 1),
              (f"a full link reads {top}, the top of Discrete({top + 1})", got[90] == top),
              ("an almost full link stays below the top", got[89.999] < top),
              ("monotone in the load", all(a <= b for a, b in zip(seq, seq[1:])))]
    for what, ok in checks:
        ctx.record("R9.13", ctx.key(f, what), f.loc(), ok, f"band by load (bandwidth {bw:g}): {got}")


# describe_state implementations that branch on the component's own operating state today, each with its reason
STATE_DEPENDENT_DESCRIBE = {
    "FTPServiceABC.describe_state": "documented presentation rule: an idle FTP service is shown STOPPED (it rewrites the operating_state entry only)",
}


def r9_14(ctx: Ctx) -> None:
    """Observations read the state tree; "the true value otherwise" needs describe_state to report what the component holds, not a
    value chosen by the component's operating state (a stopped session manager still holds its sessions)."""
    ix = ctx.ix
    ctx.rule("R9.14", "describe_state reports the component's fields as they are: no implementation chooses what to report by the "
                      "component's operating state (one documented exception)")
    n = 0
    for f in ix.all_functions():
        if isinstance(f.node, ast.Lambda) or f.name != "describe_state" or "/simulator/" not in f.path:
            continue
        g = CFG(f.node)
        conds = [c for c in g.nodes if c.kind == "cond" and c.expr_root() is not None and "operating_state" in unparse(c.expr_root())]
        n += 1
        ok = not conds or f.short in STATE_DEPENDENT_DESCRIBE
        ctx.record("R9.14", ctx.key(f, "what is reported does not depend on the operating state"), f.loc(conds[0].ast) if conds else f.loc(), ok,
                   (STATE_DEPENDENT_DESCRIBE.get(f.short) if conds else "no branch on operating_state") if ok else
                   f"`{unparse(conds[0].expr_root())[:60]}` decides what is reported: while the component is in the other states the "
                   "observation shows a default instead of what the component holds")
    ctx.floor("R9.14", "describe_state implementations", n, 40)


def check(ctx: Ctx) -> None:
    om = ObsModel(ctx.ix)
    ctx.count("E6:describe_state implementations", len(om.schema.impls()))
    r9_1(ctx, om)
    r9_2(ctx, om)
    r9_3(ctx, om)
    r9_4(ctx, om)
    r9_5(ctx, om)
    r9_6(ctx, om)
    r9_7(ctx, om)
    r9_8(ctx, om)
    r9_10(ctx, om)
    r9_11(ctx, om)
    # 'the last-scanned (visible) value' is only that if nothing but a scan writes it: C14's who-may-write rule applies here too
    from . import c14
    with ctx.borrowed({"R14.1": "R9.9"}):
        c14.r14_1(ctx)
    # an encoding that leaves its declared range is not the documented encoding either (counts saturate at the top of their space,
    # enum values fit): C02's interval rule applies here
    from . import c02
    with ctx.borrowed({"R2.2": "R9.12"}):
        c02.r2_2(ctx, om)
    r9_13(ctx)
    from .common import per_step_resets
    per_step_resets(ctx, "R9.15")
    r9_14(ctx)
    ctx.count("E6:describe_state functions evaluated", len(om.schema.evaluated))


# Self-test corpus (DESIGN section 6): textual edits applied as an in-memory overlay - Index(overlay={path: text}) -
# never written to /repo and never executed.  kind 'breaking': the check must report a NEW failing instance;
# 'benign': behaviour-preserving twin, no new failing instance; 'repair': a listed finding disappears and nothing new
# fires.  All entries were run once on the pinned tree (2026-09-26) with the expected outcome.
VARIANTS = [('Software + Service swap producers of visible/actual',
  'breaking',
  'src/primaite/simulator/system/services/service.py',
  [('state["health_state_actual"] = self.health_state_actual.value\n'
    '        state["health_state_visible"] = self.health_state_visible.value',
    'state["health_state_actual"] = self.health_state_visible.value\n'
    '        state["health_state_visible"] = self.health_state_actual.value')]),
 ('service where segment misspelt',
  'breaking',
  'src/primaite/game/agent/observations/software_observation.py',
  [('where=parent_where + ["services", config.service_name]',
    'where=parent_where + ["service", config.service_name]')]),
 ('observe misspells a key',
  'breaking',
  'src/primaite/game/agent/observations/software_observation.py',
  [('"num_executions": self._categorise_num_executions(application_state["num_executions"]),',
    '"num_executions": self._categorise_num_executions(application_state["num_execution"]),')]),
 ('FileSystem stops emitting the counter',
  'breaking',
  'src/primaite/simulator/file_system/file_system.py',
  [('        state["num_file_deletions"] = self.num_file_deletions\n', '')]),
 ('service obs swaps visible/actual arms',
  'breaking',
  'src/primaite/game/agent/observations/software_observation.py',
  [('            "health_status": service_state["health_state_visible"]\n'
    '            if self.services_requires_scan\n'
    '            else service_state["health_state_actual"],',
    '            "health_status": service_state["health_state_actual"]\n'
    '            if self.services_requires_scan\n'
    '            else service_state["health_state_visible"],')]),
 ('file obs ignores the flag',
  'breaking',
  'src/primaite/game/agent/observations/file_system_observations.py',
  [('        if self.file_system_requires_scan:\n'
    '            health_status = file_state["visible_status"]\n'
    '        else:\n'
    '            health_status = file_state["health_status"]',
    '        health_status = file_state["health_status"]')]),
 ('host op-status reads another field',
  'breaking',
  'src/primaite/game/agent/observations/host_observations.py',
  [('obs["operating_status"] = node_state["operating_state"]',
    'obs["operating_status"] = node_state["file_system"]["num_file_creations"]')]),
 ('acl source/dest swapped',
  'breaking',
  'src/primaite/game/agent/observations/acl_observation.py',
  [('src_ip = rule_state["src_ip_address"]', 'src_ip = rule_state["dst_ip_address"]')]),
 ('port obs loses presence test',
  'breaking',
  'src/primaite/game/agent/observations/nic_observations.py',
  [('        if port_state is NOT_PRESENT_IN_STATE:\n'
    '            return self.default_observation\n'
    '        return {"operating_status": 1 if port_state["enabled"] else 2}',
    '        return {"operating_status": 1 if port_state["enabled"] else 2}')]),
 ('absent service returns zeros literal not default',
  'breaking',
  'src/primaite/game/agent/observations/software_observation.py',
  [('        if service_state is NOT_PRESENT_IN_STATE:\n'
    '            return self.default_observation\n'
    '        return {\n'
    '            "operating_status": service_state["operating_state"],',
    '        if service_state is NOT_PRESENT_IN_STATE:\n'
    '            return {"operating_status": 0}\n'
    '        return {\n'
    '            "operating_status": service_state["operating_state"],')]),
 ('router ignores power state',
  'breaking',
  'src/primaite/game/agent/observations/router_observation.py',
  [('        is_on = router_state["operating_state"] == 1\n'
    '        if not is_on:\n'
    '            obs = {**self.default_observation}\n'
    '\n'
    '        else:\n'
    '            obs = {}\n'
    '            obs["ACL"] = self.acl.observe(state)',
    '        if True:\n            obs = {}\n            obs["ACL"] = self.acl.observe(state)')]),
 ('router compares with OFF value',
  'breaking',
  'src/primaite/game/agent/observations/router_observation.py',
  [('is_on = router_state["operating_state"] == 1', 'is_on = router_state["operating_state"] == 2')]),
 ('host slot takes a fixed component',
  'breaking',
  'src/primaite/game/agent/observations/host_observations.py',
  [('obs["SERVICES"] = {i + 1: service.observe(state) for i, service in enumerate(self.services)}',
    'obs["SERVICES"] = {i + 1: self.services[0].observe(state) for i, service in enumerate(self.services)}')]),
 ('acl reads next position',
  'breaking',
  'src/primaite/game/agent/observations/acl_observation.py',
  [('rule_state = acl_items[i]', 'rule_state = acl_items[i + 1]')]),
 ('acl describe_state 1-based',
  'breaking',
  'src/primaite/simulator/network/hardware/nodes/network/router.py',
  [('state["acl"] = {i: r.describe_state() if isinstance(r, ACLRule) else None for i, r in enumerate(self._acl)}',
    'state["acl"] = {i + 1: r.describe_state() if isinstance(r, ACLRule) else None for i, r in '
    'enumerate(self._acl)}')]),
 ('nic forgets to store last-step count',
  'breaking',
  'src/primaite/game/agent/observations/nic_observations.py',
  [('                self.nmne_inbound_last_step = inbound_count\n', '')]),
 ('firewall uses wrong acl in default',
  'breaking',
  'src/primaite/game/agent/observations/firewall_observation.py',
  [('                    "INBOUND": self.dmz_inbound_acl.default_observation,',
    '                    "INBOUND": self.internal_inbound_acl.default_observation,')]),
 ('presence test written as `is not`',
  'benign',
  'src/primaite/game/agent/observations/software_observation.py',
  [('        if service_state is NOT_PRESENT_IN_STATE:\n'
    '            return self.default_observation\n'
    '        return {\n'
    '            "operating_status": service_state["operating_state"],\n'
    '            "health_status": service_state["health_state_visible"]\n'
    '            if self.services_requires_scan\n'
    '            else service_state["health_state_actual"],\n'
    '        }',
    '        if service_state is not NOT_PRESENT_IN_STATE:\n'
    '            op = service_state["operating_state"]\n'
    '            if not self.services_requires_scan:\n'
    '                hs = service_state["health_state_actual"]\n'
    '            else:\n'
    '                hs = service_state["health_state_visible"]\n'
    '            return {"operating_status": op, "health_status": hs}\n'
    '        return self.default_observation')]),
 ('describe_state uses update() instead of item stores',
  'benign',
  'src/primaite/simulator/system/services/service.py',
  [('        state["operating_state"] = self.operating_state.value\n'
    '        state["health_state_actual"] = self.health_state_actual.value\n'
    '        state["health_state_visible"] = self.health_state_visible.value',
    '        state.update({"operating_state": self.operating_state.value, "health_state_actual": '
    'self.health_state_actual.value})\n'
    '        state.update({"health_state_visible": self.health_state_visible.value})')]),
 ('power test with != and swapped arms',
  'benign',
  'src/primaite/game/agent/observations/router_observation.py',
  [('        is_on = router_state["operating_state"] == 1\n'
    '        if not is_on:\n'
    '            obs = {**self.default_observation}\n'
    '\n'
    '        else:',
    '        if router_state["operating_state"] != 1:\n'
    '            obs = {**self.default_observation}\n'
    '        else:')]),
 ('revert 894a17b: folder never stores what it observed',
  'breaking',
  'src/primaite/game/agent/observations/file_system_observations.py',
  [('        self.cached_obs = obs\n        return obs', '        return obs')]),
 ('folder memory stored under a differently named local',
  'benign',
  'src/primaite/game/agent/observations/file_system_observations.py',
  [('        self.cached_obs = obs\n        return obs', '        shown = obs\n        self.cached_obs = shown\n        return shown')]),
 ('folder reads visible_status directly',
  'benign',
  'src/primaite/game/agent/observations/file_system_observations.py',
  [('            if not folder_state["scanned_this_step"]:\n'
    '                health_status = self.cached_obs["health_status"]\n'
    '            else:\n'
    '                health_status = folder_state["visible_status"]',
    '            health_status = folder_state["visible_status"]')]),
('host passes the applications flag as the services flag',
  'breaking',
  'src/primaite/game/agent/observations/host_observations.py',
  [('            services_requires_scan=config.services_requires_scan,',
    '            services_requires_scan=config.applications_requires_scan,')]),
 ('service child config inherits the file-system flag',
  'breaking',
  'src/primaite/game/agent/observations/host_observations.py',
  [('service_config.services_requires_scan = config.services_requires_scan',
    'service_config.services_requires_scan = config.file_system_requires_scan')]),
 ('nodes-level include_users falls back to num_rules',
  'breaking',
  'src/primaite/game/agent/observations/node_observations.py',
  [('            if firewall_config.include_users is None:\n                firewall_config.include_users = config.include_users',
    '            if firewall_config.include_users is None:\n                firewall_config.include_users = config.num_rules')]),
 ('inheritance through a local',
  'benign',
  'src/primaite/game/agent/observations/node_observations.py',
  [('                host_config.applications_requires_scan = config.applications_requires_scan',
    '                inherited = config.applications_requires_scan\n                host_config.applications_requires_scan = inherited')]),
 ('revert: instant folder scan does not raise the scanned flag',
  'breaking',
  'src/primaite/simulator/file_system/folder.py',
  [('            # the folder was scanned in this step: observations that wait for a scan refresh now\n            self._scanned_this_step = True\n            return True', '            return True')]),
 ('describe_state memoises its file list',
  'breaking',
  'src/primaite/simulator/file_system/folder.py',
  [('        state["scanned_this_step"] = self._scanned_this_step', '        state["scanned_this_step"] = self._scanned_this_step\n        self._last_state = state')])
]
