"""C05 - requests resolve to a documented status; refused requests change nothing (DESIGN.md section 3, C05)."""
from __future__ import annotations

import ast
from typing import Dict, List, Optional, Set, Tuple

from ..absval import UNKNOWN, Evaluator, walk
from ..astutil import call_name, calls_in, kwarg, store_targets, unparse
from ..cfg import CFG, CNode, Edge, LocalDefs, path_text
from ..index import AnalysisError, ClassInfo, FuncInfo
from ..inventory import call_sites
from ..purity import effects_of, is_logging_call
from ..report import Ctx
from ..reqtree import FIELD_KINDS, ActionRoute, RequestTree, Resolution, Router, action_routes
from .common import node_calls

EXPLANATION = (
    "Static analysis (ast + per-function CFG + reconstructed request tree) of /repo's working tree. Decided: R5.1 the "
    "dispatcher RequestManager.__call__ reaches a validator or handler only past the key-is-registered edge, reaches "
    "the handler only past the validator-true edge, answers 'unreachable' / 'failure'+fail_message on the two refusing "
    "exits and performs nothing but logging there; R5.2 every RequestResponse(status=...) literal is one of the "
    "documented statuses and from_bool maps True->success, False->failure; R5.3 every validator __call__/fail_message "
    "is free of stores and mutating calls (closed over resolved callees, depth 4); R5.4 every registered action's "
    "form_request path is accepted by the request tree rebuilt from all add_request sites, for every concrete "
    "component class it can address, ending at a handler with enough parameters; R5.5 every dynamic registration of a "
    "removable component has a matching remove_request; R5.6 every path that inserts a component into its owner's "
    "collection also registers its route (frozen insertion/registration pairs); R5.7 = C01's R1.5 (every handler returns a "
    "RequestResponse, every from_bool(e) receives a bool on every path of every target - otherwise the answer is None, not one of "
    "the four statuses) and R5.8 = C11's R11.4 (each permission rule computes its documented predicate) applied here. R5.1 also: the key the dispatcher looks up is the first path element exactly as sent (bound once, no rewriting); R5.9 every permission condition the "
    "documentation states for an action (docs/source/action_masking.rst) is a validator on the action's static route (four confirmed exceptions frozen); R5.10 no simulator method writes an attribute and "
    "then decides from that same attribute - directly, through a property or a pure helper - to return False with nothing attempted in between and no write-back. R5.11 numeric action parameters for which 0 is a legal value (ACL position, indices) are never tested by truthiness in the action classes. "
    "R5.12 = C15's R15.10 (name look-ups prefer the live item over a deleted namesake) applied here. "
    "NOT decided: that a handler which is reached changes only what "
    "it should, and status 'success' meaning the operation really succeeded (behavioural)."
)
TECHNIQUE = "static: CFG must-pass on the dispatcher, request-tree reconstruction from all add_request sites vs evaluated form_request path templates, purity closure of validators"
ASSUMPTIONS = [
    "request managers are only populated through add_request (census of dynamic features enforced by C04/C14 rules)",
    "class-hierarchy analysis over-approximates dynamic dispatch",
    "pydantic BaseModel.__call__/validators behave as documented",
]

# which node classes an action can address, by the config field that carries the hostname (one reason per line)
HOST_FIELD_BASE = {
    "target_router": "Router",  # router-acl-* actions are documented for routers only
    "target_firewall_nodename": "Firewall",  # firewall-acl-* actions address firewalls
}


def _key_known(e: Edge, ld: LocalDefs) -> bool:
    """Edge on which `request_key in self.request_types` is established."""
    if not e.label or e.label[0] != "cond":
        return False
    expr, pol = e.label[1], e.label[2]
    if isinstance(expr, ast.Compare) and len(expr.ops) == 1 and isinstance(expr.ops[0], (ast.In, ast.NotIn)):
        rhs = unparse(expr.comparators[0])
        if rhs in ("self.request_types", "self.request_types.keys()"):
            return pol == isinstance(expr.ops[0], ast.In)
    # rt = self.request_types.get(k) ; if rt is None / if not rt / if rt
    sub = expr
    positive = True
    if isinstance(expr, ast.Compare) and len(expr.ops) == 1 and isinstance(expr.ops[0], (ast.Is, ast.IsNot)) \
            and isinstance(expr.comparators[0], ast.Constant) and expr.comparators[0].value is None:
        sub = expr.left
        positive = isinstance(expr.ops[0], ast.IsNot)
    if isinstance(sub, ast.Name):
        d = ld.single(sub.id)
        if d and d[0] is not None and "self.request_types.get(" in unparse(d[0]):
            return pol == positive
    return False


def _validator_true(e: Edge, ld: LocalDefs) -> bool:
    if not e.label or e.label[0] != "cond":
        return False
    expr = ld.expand(e.label[1])
    if isinstance(expr, ast.Call) and isinstance(expr.func, ast.Attribute) and expr.func.attr == "validator":
        return e.label[2] is True
    return False


def _is_handler_call(c: ast.Call, ld: LocalDefs) -> bool:
    f = c.func
    if isinstance(f, ast.Attribute) and f.attr == "func":
        return True
    if isinstance(f, ast.Name):
        d = ld.single(f.id)
        return bool(d and d[0] is not None and isinstance(d[0], ast.Attribute) and d[0].attr == "func")
    return False


def _is_validator_call(c: ast.Call) -> bool:
    return isinstance(c.func, ast.Attribute) and c.func.attr == "validator"


def _response_status(e: Optional[ast.AST], ld: LocalDefs) -> Tuple[Optional[str], Optional[ast.Call]]:
    if e is None:
        return None, None
    e = ld.expand(e)
    if isinstance(e, ast.Call) and call_name(e) in ("RequestResponse", "cls"):
        st = kwarg(e, "status")
        if isinstance(st, ast.Constant) and isinstance(st.value, str):
            return st.value, e
        return None, e
    return None, None


def r5_1(ctx: Ctx) -> None:
    ix = ctx.ix
    ctx.rule("R5.1", "RequestManager.__call__: unknown key -> 'unreachable' before any validator/handler; validator "
                     "false -> 'failure' with fail_message before the handler; handler only on validator-true edge; "
                     "refusing paths do nothing but log")
    fn = ix.method("RequestManager.__call__")
    g = CFG(fn.node)
    ld = LocalDefs(fn.node)
    handlers = [n for n in g.nodes if any(_is_handler_call(c, ld) for c in node_calls(n))]
    validators = [n for n in g.nodes if any(_is_validator_call(c) for c in node_calls(n))]
    if not handlers:
        raise AnalysisError("R5.1: no `<request_type>.func(...)` call found in RequestManager.__call__")
    if not validators:
        ctx.fail("R5.1", ctx.key(fn, "validator consulted"), fn.loc(), "the dispatcher never calls request_type.validator")
    kk = lambda e: _key_known(e, ld)  # noqa: E731
    vt = lambda e: _validator_true(e, ld)  # noqa: E731
    has_kk = any(kk(e) for e in g.edges())
    has_try_keyerror = any(isinstance(n, ast.ExceptHandler) for n in ast.walk(fn.node))
    if not has_kk and has_try_keyerror:
        raise AnalysisError("R5.1: the key test was rewritten with try/except - unrecognised idiom")
    for h in handlers:
        p = g.path_avoiding([h], kk)
        ctx.record("R5.1", ctx.key(fn, "handler after key-known edge"), fn.loc(h.ast), p is None,
                   "handler call is reached only after `request_key in self.request_types` held" if p is None else
                   "handler call reachable without the registered-key test", path_text(p))
        p = g.path_avoiding([h], vt)
        ctx.record("R5.1", ctx.key(fn, "handler after validator-true edge"), fn.loc(h.ast), p is None,
                   "handler call is reached only on the validator-true edge" if p is None else
                   "handler call reachable without passing the validator", path_text(p))
    for v in validators:
        p = g.path_avoiding([v], kk)
        ctx.record("R5.1", ctx.key(fn, "validator after key-known edge"), fn.loc(v.ast), p is None,
                   "validator is looked up only for registered keys" if p is None else
                   "validator evaluated for an unregistered key", path_text(p))
    # classification of the return statements
    on_unknown = g.reachable(blocked=kk)  # nodes reachable while the key is NOT known to be registered
    on_refused = g.reachable(blocked=vt)  # nodes reachable without the validator having accepted
    can_reach_handler: Set[int] = set()
    for n in g.nodes:
        if g.path_avoiding(handlers, lambda e: False, start=n) is not None or n in handlers:
            can_reach_handler.add(n.id)
    n_ret = 0
    for n in g.nodes:
        if n.kind != "stmt" or not isinstance(n.ast, ast.Return):
            continue
        n_ret += 1
        status, call = _response_status(n.ast.value, ld)
        if n.id in can_reach_handler or any(_is_handler_call(c, ld) for c in node_calls(n)):
            continue
        # a refusing return
        pre_key = g.path_avoiding([n], kk) is not None
        if pre_key:
            ok = status == "unreachable"
            ctx.record("R5.1", ctx.key(fn, "unknown key answers 'unreachable'"), fn.loc(n.ast), ok,
                       f"return on the unregistered-key path has status {status!r}")
        else:
            ok = status == "failure" and call is not None and "fail_message" in unparse(call)
            ctx.record("R5.1", ctx.key(fn, "validator refusal answers 'failure' with fail_message"), fn.loc(n.ast), ok,
                       f"return on the validator-false path: {unparse(n.ast)[:100]}")
    if g.falls_through:
        ctx.fail("R5.1", ctx.key(fn, "every path returns a response"), fn.loc(), "a path falls off the end (returns None)")
    # the key that is looked up is the path's first element as it was sent: names are exact, so a dispatcher that rewrites the
    # key (case folding, stripping, prefix matching) lets a request for a nonexistent name reach another component
    params = [a.arg for a in fn.node.args.args if a.arg != "self"]
    if not params:
        raise AnalysisError("R5.1: RequestManager.__call__ has no request parameter")
    req = params[0]

    def first_element(e: Optional[ast.AST], idx: Optional[int]) -> bool:
        if e is None:
            return False
        if idx is not None:  # `key, *rest = request`
            return idx == 0 and isinstance(e, ast.Name) and e.id == req
        if isinstance(e, ast.Subscript) and isinstance(e.value, ast.Name) and e.value.id == req:
            return isinstance(e.slice, ast.Constant) and e.slice.value == 0
        return False

    key_uses: List[ast.AST] = []
    for node in ast.walk(fn.node):
        if isinstance(node, ast.Compare) and len(node.ops) == 1 and isinstance(node.ops[0], (ast.In, ast.NotIn)) \
                and unparse(node.comparators[0]) in ("self.request_types", "self.request_types.keys()"):
            key_uses.append(node.left)
        elif isinstance(node, ast.Subscript) and unparse(node.value) == "self.request_types":
            key_uses.append(node.slice)
        elif isinstance(node, ast.Call) and unparse(node.func) == "self.request_types.get" and node.args:
            key_uses.append(node.args[0])
    if not key_uses:
        raise AnalysisError("R5.1: no lookup in self.request_types found in RequestManager.__call__")
    for ku in key_uses:
        if isinstance(ku, ast.Name) and ku.id not in ld.params:
            vals = ld.all_values(ku.id)
            ok = bool(vals) and all(first_element(v, i) for v, i in vals)
            why = f"`{ku.id}` is bound {len(vals)} time(s): " + "; ".join(unparse(v)[:50] if v is not None else "<augmented>" for v, _ in vals)
        else:
            ok = first_element(ku, None)
            why = f"looked up with `{unparse(ku)[:60]}`"
        ctx.record("R5.1", ctx.key(fn, "the key looked up is the first path element unchanged"), fn.loc(ku), ok,
                   why if ok else "the dispatcher looks up something other than the first path element as sent - " + why)
    # handler result is what the dispatcher returns
    for h in handlers:
        ok = isinstance(h.ast, ast.Return) or any(
            isinstance(r.ast, ast.Return) and isinstance(r.ast.value, ast.Name) and isinstance(h.ast, ast.Assign)
            and any(isinstance(t, ast.Name) and t.id == r.ast.value.id for t in h.ast.targets) for r in g.nodes if r.kind == "stmt")
        ctx.record("R5.1", ctx.key(fn, "handler result is returned"), fn.loc(h.ast), ok,
                   "the handler's RequestResponse is returned unchanged" if ok else "handler result is not returned")
    # nothing but logging on refusing-only nodes
    refusing_only = [n for n in g.nodes if n.kind in ("stmt", "cond", "for", "with")
                     and n.id in (on_unknown | on_refused) and n.id not in can_reach_handler]
    bad: List[str] = []
    for n in refusing_only:
        for c in node_calls(n):
            if is_logging_call(c) or call_name(c) in ("RequestResponse",):
                continue
            bad.append(f"L{n.lineno}: call {unparse(c)[:60]}")
        if isinstance(n.ast, (ast.Assign, ast.AugAssign, ast.AnnAssign, ast.Delete)):
            for t, _, _ in store_targets(n.ast):
                if not isinstance(t, ast.Name):
                    bad.append(f"L{n.lineno}: store {unparse(t)[:60]}")
    ctx.record("R5.1", ctx.key(fn, "refusing paths only log"), fn.loc(), not bad,
               f"{len(refusing_only)} statements on refusing-only paths contain only logging and the response constructor"
               if not bad else "effects on a refusing path", bad)


def r5_2(ctx: Ctx) -> None:
    ix = ctx.ix
    ctx.rule("R5.2", "every RequestResponse(status=<literal>) uses a documented status; from_bool: True->success, "
                     "False->failure")
    rr = ix.cls("RequestResponse")
    fld = rr.fields.get("status")
    if fld is None or fld.ann is None:
        raise AnalysisError("R5.2: RequestResponse.status annotation not found")
    lits: Set[str] = set()
    for n in ast.walk(fld.ann):
        if isinstance(n, ast.Constant) and isinstance(n.value, str):
            lits.add(n.value)
    if len(lits) < 2:
        raise AnalysisError("R5.2: could not read the Literal[...] of RequestResponse.status")
    documented = {"pending", "success", "failure", "unreachable"}
    ctx.record("R5.2", "src/primaite/interface/request.py::RequestResponse::status vocabulary", f"{rr.path}:{fld.node.lineno}",
               lits == documented, f"status Literal is {sorted(lits)} (documented: {sorted(documented)})")
    n = 0
    for cs in call_sites(ix, ["RequestResponse"]):
        st = kwarg(cs.call, "status")
        if st is None:
            continue
        n += 1
        if isinstance(st, ast.Constant):
            ok = st.value in lits
            ctx.record("R5.2", f"{cs.path}::{cs.owner}::RequestResponse(status={st.value!r})", cs.where, ok,
                       "literal status is in the documented vocabulary" if ok else f"undocumented status {st.value!r}")
        else:
            ctx.ok("R5.2", f"{cs.path}::{cs.owner}::RequestResponse(status=<expr>)", cs.where,
                   f"non-literal status {unparse(st)[:40]} (validated by pydantic at run time)", trivial=True)
    ctx.floor("R5.2", "RequestResponse(status=...) sites", n, 20)
    fb = ix.method("RequestResponse.from_bool")
    g = CFG(fb.node)
    params = [a.arg for a in fb.node.args.args if a.arg != "cls"]
    if not params:
        raise AnalysisError("R5.2: from_bool has no parameter")
    for val, want in ((True, "success"), (False, "failure")):
        ev = Evaluator({params[0]: val}, LocalDefs(fb.node))
        outcome, node, trace = walk(g, ev)
        got = None
        if outcome == "return":
            got, _ = _response_status(node.ast.value, LocalDefs(fb.node))
        elif outcome == "unknown":
            raise AnalysisError(f"R5.2: cannot evaluate from_bool's branch {unparse(node.ast)[:60]}")
        ctx.record("R5.2", ctx.key(fb, f"from_bool({val}) -> {want}"), fb.loc(), got == want,
                   f"from_bool({val}) returns status {got!r} ({outcome})", trace)


def r5_3(ctx: Ctx) -> None:
    ix = ctx.ix
    ctx.rule("R5.3", "validators are pure: no store / mutating call in __call__ and fail_message, closed over "
                     "resolved callees (depth 4), logging exempt")
    base = ix.cls("RequestPermissionValidator")
    n = 0
    for c in ix.subclasses(base):
        for m in ("__call__", "fail_message"):
            f = c.methods.get(m)
            if f is None:
                continue
            n += 1
            eff = effects_of(ix, f, depth=4)
            ctx.record("R5.3", ctx.key(f, "pure"), f.loc(), eff.pure,
                       f"{eff.visited} function(s) in the callee closure, no stores" + (
                           f"; {len(eff.unresolved)} unresolved callee(s): {eff.unresolved[:3]}" if eff.unresolved else "")
                       if eff.pure else "validator has side effects", eff.stores[:6])
    ctx.floor("R5.3", "validator methods", n, 20)


def _route_groups(res: List[Resolution]) -> Dict[Tuple[str, ...], List[Resolution]]:
    groups: Dict[Tuple[str, ...], List[Resolution]] = {}
    for r in res:
        groups.setdefault(tuple(r.classes), []).append(r)
    return groups


def r5_4(ctx: Ctx, tree: RequestTree, routes: List[ActionRoute]) -> None:
    ix = ctx.ix
    ctx.rule("R5.4", "every registered action's path template is accepted by the static request tree for every "
                     "concrete component class it can address (literal verbs match registered names, wildcards sit "
                     "on dynamic registrations of the same kind, the route ends at a handler with enough parameters)")
    sim = ix.cls("Simulation")
    router = Router(ix, tree)
    node_base = ix.cls("Node")
    n_pairs = 0
    for r in routes:
        res = router.resolve(r.segs, (sim, "root"))
        host_field = next((s.field for s in r.segs if s.kind == "wild" and FIELD_KINDS.get(s.field or "") == "hostname"), None)
        allowed_base = ix.cls(HOST_FIELD_BASE[host_field]) if host_field in HOST_FIELD_BASE else node_base
        groups = _route_groups(res)
        # regroup: suffix (component classes below the node) -> {node class representative -> resolutions}
        by_suffix: Dict[Tuple[str, ...], Dict[str, List[Resolution]]] = {}
        for trail, rs in groups.items():
            node_i = next((k for k, t in enumerate(trail) if ix.cls_opt(t) is not None and ix.is_subclass(ix.cls(t), node_base)), None)
            if node_i is None:
                by_suffix.setdefault(tuple(trail), {}).setdefault("-", []).extend(rs)
                continue
            node_cls = ix.cls(trail[node_i])
            if not ix.is_subclass(node_cls, allowed_base):
                continue  # this action does not address that node type
            by_suffix.setdefault(tuple(trail[node_i + 1:]), {}).setdefault(trail[node_i], []).extend(rs)
        path_txt = "/".join(str(s.value) if s.kind == "lit" else "<" + (s.field or "param") + ">" for s in r.segs)
        for suffix, per_node in sorted(by_suffix.items()):
            n_pairs += 1
            key = f"{r.form.path}::{r.cls.short}::route {path_txt} @ {'>'.join(suffix) or 'node'}"
            failing = {nc: rs for nc, rs in per_node.items() if not any(x.ok for x in rs)}
            if not failing:
                h = next(x for rs in per_node.values() for x in rs if x.ok)
                ctx.ok("R5.4", key, r.where,
                       f"action {r.discriminator} routes to a handler on node classes {sorted(per_node)} "
                       f"({h.n_params} parameter(s), handler needs {h.need_params}); validator chain "
                       f"{[v for v in h.validators() if v]}")
            else:
                ctx.fail("R5.4", key, r.where,
                         f"action {r.discriminator} is answered 'unreachable' (or lacks parameters) for "
                         f"{'>'.join(suffix) or 'node'} on node classes {sorted(failing)}",
                         sorted({x.reason for rs in failing.values() for x in rs})[:6])
        if not by_suffix:
            ctx.fail("R5.4", f"{r.form.path}::{r.cls.short}::route {path_txt}", r.where,
                     f"action {r.discriminator} resolves to no handler", [x.reason for x in res][:6])
    ctx.floor("R5.4", "registered actions with a route", len(routes), 55)
    ctx.floor("R5.4", "(action, component class) pairs", n_pairs, 120)


def r5_5(ctx: Ctx, tree: RequestTree) -> None:
    ctx.rule("R5.5", "dynamic registrations of removable components (node, software, NIC) have a remove_request "
                     "counterpart on the same manager with the same key kind; files/folders are the justified "
                     "exception (deleted items stay routable so they can be restored; exists/not-deleted validators "
                     "guard them)")
    from ..reqtree import wild_kind_of

    n = 0
    for (cq, slot), ents in sorted(tree.slots.items()):
        for e in ents:
            if e.key is not None:
                continue
            n += 1
            key = f"{e.site.path}::{e.site.owner}::add_request({e.wild_text}) on {e.owner.short}.{slot}"
            if e.wild_kind in ("file", "folder"):
                ctx.ok("R5.5", key, e.where, "file/folder route is kept on deletion by design (restorable)", trivial=True)
                continue
            rem = [r for r in tree.removals if r.owner is e.owner and r.slot == slot]
            ok = bool(rem)
            ctx.record("R5.5", key, e.where, ok,
                       f"paired with remove_request at {[r.site.where for r in rem]}" if ok else
                       "no remove_request on this manager: an uninstalled/removed component would stay addressable")
    ctx.floor("R5.5", "dynamic registrations", n, 7)


# every dynamic registration is paired with the statement that makes the component part of the simulation: a path that
# performs the insertion must also register the route (function -> (kind, text of the collection / callee), reason)
INSERTION_PAIRS = {
    "Folder.add_file": ("store", "self.files", "a file placed in the folder is addressable"),
    "Node.connect_nic": ("store", "self.network_interface", "a connected interface is addressable by its number"),
    "Network.add_node": ("store", "self.nodes", "a node added to the network is addressable by hostname"),
    "SoftwareManager.install": ("store", "self.node.applications|self.node.services", "installed software is addressable by name"),
    "FileSystem.create_folder": ("call", "Folder", "a newly created folder is addressable"),
    "FileSystem.create_file": ("call", "add_file", "a created file is addressable through the file system's file manager"),
}


def r5_6(ctx: Ctx, tree: RequestTree) -> None:
    ix = ctx.ix
    ctx.rule("R5.6", "a component that is inserted into the simulation is registered in the request tree on the same path "
                     "(no conditional or skipped registration): otherwise an action naming an existing component is "
                     "answered 'unreachable' or reaches a stale object")
    n = 0
    for (cq, slot), ents in sorted(tree.slots.items()):
        for e in ents:
            if e.key is not None or e.site.fn is None:
                continue
            fn = e.site.fn
            top = fn
            while top.parent is not None:
                top = top.parent
            pair = INSERTION_PAIRS.get(fn.short) or INSERTION_PAIRS.get(top.short)
            if pair is None or fn is not top and fn.short not in INSERTION_PAIRS:
                continue  # request-time install helper inside _init_request_manager: covered by SoftwareManager.install
            kind, what, reason = pair
            g = CFG(fn.node)
            regs = [x for x in g.nodes if any(c is e.site.call for c in node_calls(x))]
            if kind == "store":
                wants = what.split("|")
                ins = [x for x in g.nodes if x.kind == "stmt" and isinstance(x.ast, ast.Assign) and any(
                    isinstance(t, ast.Subscript) and unparse(t.value) in wants for t in x.ast.targets)]
                # only the insertion that belongs to this registration (same isinstance branch for install)
                if len(wants) > 1:
                    ins = [x for x in ins if ("applications" in unparse(x.ast.targets[0])) == ("application" in slot)]
            else:
                ins = [x for x in g.nodes if any(call_name(c) == what for c in node_calls(x))]
            if not ins or not regs:
                raise AnalysisError(f"R5.6: insertion statement `{what}` or the registration not found in {fn.short}")
            n += 1
            bn = {r.id for r in regs}
            witness = None
            for st in ins:
                pre = g.path_avoiding([st], lambda ed: False, blocked_nodes=bn)
                if pre is None:
                    continue
                post = g.path_avoiding([g.exit], lambda ed: False, start=st, blocked_nodes=bn)
                if post is not None:
                    witness = path_text(pre) + [f"... L{st.lineno}: {unparse(st.expr_root())[:50]} ..."] + path_text(post)
                    break
            ctx.record("R5.6", f"{e.site.path}::{fn.short}::insertion into {what} always registers {e.key_text()}", e.where, witness is None,
                       reason if witness is None else f"{fn.short} can insert the component without registering its route", witness)
    ctx.floor("R5.6", "insertion/registration pairs", n, 6)


def _attempts(ix, f: FuncInfo, n: CNode) -> bool:
    """The statement does something beyond reading and logging (a call with effects, or one that cannot be resolved)."""
    from ..purity import PURE_BUILTINS, resolve_callees
    for c in node_calls(n):
        if is_logging_call(c):
            continue
        ts, why = resolve_callees(ix, f, c)
        if not ts:
            if why == "builtin-or-external" or call_name(c) in PURE_BUILTINS:
                continue
            return True
        if any(not effects_of(ix, t, 3).pure for t in ts):
            return True
    return False


def _reads(ix, f: FuncInfo, expr: ast.AST, depth: int = 2) -> Set[str]:
    """Attribute names an expression reads, looking through the class's own properties and pure helper methods."""
    out: Set[str] = set()
    for a in ast.walk(expr):
        m = None
        if isinstance(a, ast.Attribute):
            out.add(a.attr)
            if depth > 0 and f.cls is not None and isinstance(a.value, ast.Name) and a.value.id == "self":
                m = ix.find_method(f.cls, a.attr)
                if m is not None and (isinstance(m.node, ast.Lambda) or not any("property" in unparse(d) for d in m.node.decorator_list)):
                    m = None
        elif isinstance(a, ast.Call) and depth > 0 and isinstance(a.func, ast.Attribute) and isinstance(a.func.value, ast.Name) \
                and a.func.value.id == "self" and f.cls is not None:
            m = ix.find_method(f.cls, a.func.attr)
            if m is not None and (isinstance(m.node, ast.Lambda) or not effects_of(ix, m, 2).pure):
                m = None
        if m is not None:
            out |= _reads(ix, m, m.node, depth - 1)
    return out


def r5_10(ctx: Ctx) -> None:
    """A refusal decided from the state the same call has just written, with no attempt in between and no write-back, leaves
    the refused operation's write behind: 'a refused request leaves the state unchanged' needs the decision before the write."""
    ix = ctx.ix
    ctx.rule("R5.10", "no simulator method writes an attribute, then decides from that same attribute (directly, through a property "
                      "or a pure helper) to return False, with nothing attempted in between and the attribute not written back")
    n = 0
    for f in ix.all_functions():
        if "/simulator/" not in f.path or isinstance(f.node, ast.Lambda):
            continue
        if not any(isinstance(r, ast.Return) and isinstance(r.value, ast.Constant) and r.value.value is False for r in ast.walk(f.node)):
            continue
        g = CFG(f.node)
        rets = [r for r in g.nodes if r.kind == "stmt" and isinstance(r.ast, ast.Return) and isinstance(r.ast.value, ast.Constant)
                and r.ast.value.value is False]
        stores = [(st, t) for st in g.nodes if st.kind == "stmt" and isinstance(st.ast, (ast.Assign, ast.AugAssign, ast.AnnAssign))
                  for t, _, _ in store_targets(st.ast) if isinstance(t, ast.Attribute)]
        if not rets or not stores:
            continue
        n += 1
        att = {x for x in g.nodes if _attempts(ix, f, x)}
        conds = [(c, _reads(ix, f, c.expr_root())) for c in g.nodes if c.kind == "cond" and c.expr_root() is not None and c not in att]
        bad: List[str] = []
        for st, t in stores:
            if st in att:
                continue  # the value stored is the outcome of an attempt
            again = {x for x in g.nodes if x is not st and x.kind == "stmt" and isinstance(x.ast, (ast.Assign, ast.AugAssign))
                     and any(isinstance(tt, ast.Attribute) and tt.attr == t.attr for tt, _, _ in store_targets(x.ast))}
            for c, rd in conds:
                if t.attr not in rd:
                    continue
                if g.path_avoiding([c], lambda e: False, start=st, blocked_nodes={x.id for x in (att | again) - {st}}) is None:
                    continue
                p = g.path_avoiding(rets, lambda e: False, start=c, blocked_nodes={x.id for x in (att | again) - {c}})
                if p is not None:
                    bad.append(f"L{st.lineno}: `{unparse(st.ast)[:60]}` then L{c.lineno}: `{unparse(c.expr_root())[:50]}` -> return False")
        ctx.record("R5.10", ctx.key(f, "refusals are decided before the write"), f.loc(), not bad,
                   f"{len(stores)} attribute stores, {len(rets)} `return False` exits: no refusal is decided from a value this call wrote"
                   if not bad else "the method writes, then refuses on what it wrote, and leaves the write in place: " + "; ".join(bad[:2]))
    ctx.floor("R5.10", "methods with attribute stores and a `return False` exit", n, 60)


def check(ctx: Ctx) -> None:
    tree = RequestTree(ctx.ix)
    if tree.problems:
        raise AnalysisError("request tree: " + "; ".join(tree.problems[:4]))
    routes, probs = action_routes(ctx.ix)
    if probs:
        raise AnalysisError("action routes: " + "; ".join(probs[:4]))
    ctx.count("add/remove_request sites", tree.n_sites)
    ctx.count("manager slots", len(tree.slots))
    for o in tree.opaque:
        ctx.note("opaque component: " + o)
    r5_1(ctx)
    r5_2(ctx)
    r5_3(ctx)
    r5_4(ctx, tree, routes)
    r5_5(ctx, tree)
    r5_6(ctx, tree)
    # "one of the four documented statuses" needs every handler to return a response built from a bool on every path (C01 R1.5),
    # and "refused by a permission rule" means what it says only if each rule computes its documented predicate (C11 R11.4)
    from . import c01, c11
    with ctx.borrowed({"R1.5": "R5.7"}):
        c01.r1_5(ctx)
    # a documented permission condition that no validator on the route enforces lets the request through where the
    # documentation (and the mask built from the same validators) says it is refused
    with ctx.borrowed({"R11.3": "R5.9"}):
        c11.r11_3(ctx, armed=True)
    with ctx.borrowed({"R11.4": "R5.8"}):
        c11.r11_4(ctx)
    r5_10(ctx)
    # "a request naming an existing component is routed to it ... only its own permission rule can refuse it": the folder / file
    # permission rules find the component through the name look-ups of C15's R15.10
    from . import c15
    with ctx.borrowed({"R15.10": "R5.12"}):
        c15.r15_10(ctx)
    from .common import falsy_numeric
    falsy_numeric(ctx, "R5.11", r"position|index|_id$|_num$", "numeric action parameters (0 is a valid position / index)",
                  scope=("src/primaite/game/agent/actions/", "src/primaite/game/agent/interface.py"))
