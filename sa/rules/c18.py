"""C18 - a link never carries more than its bandwidth in a tick; down links carry nothing."""
from __future__ import annotations

import ast
import itertools
from typing import Dict, List, Optional, Set

from ..absval import UNKNOWN, Evaluator, walk
from ..astutil import call_name, calls_in, unparse
from ..cfg import CFG, LocalDefs, path_text
from ..index import AnalysisError
from ..inventory import stores_to_attr
from ..inventory import only_called_from
from ..report import Ctx
from .common import node_calls, nodes_calling

EXPLANATION = (
    "Static analysis of admission control and load accounting. Decided: R18.1 in every send_frame implementation the "
    "hand-over to the medium (Link.transmit_frame / AirSpace.transmit) is reached only on the true edge of that "
    "medium's can_transmit_frame(frame); Link.can_transmit_frame is evaluated as a truth table over (link up/down) x "
    "(load + frame size <, =, > bandwidth): admitted exactly when up and not above; AirSpace.can_transmit_frame "
    "likewise over the three order cases against the frequency's capacity; R18.2 who-may-write Link.current_load and "
    "AirSpace.bandwidth_load (frozen table: transmit, per-tick reset, endpoint-down, initialisation inside the "
    "admission test); R18.3 the per-tick reset stores zero and is on the Network.pre_timestep path for every link and "
    "the air space; R18.4 the load is accounted BEFORE the frame is handed to the receiver (sibling agreement between "
    "Link.transmit_frame and AirSpace.transmit) - otherwise a reply sent during delivery is admitted against a stale "
    "load - and the accounted amount is the same frame.size_Mbits the admission test used. R18.5 the numeric settings this property depends on are never tested by truthiness (`x or default`, `if x:`) - 0 is a legal value for them. "
    "R18.6 every interface class answers the constant True from receive_frame once it has handed the frame to its node (the link rolls its load back on False). R18.7 the wireless load table (AirSpace.bandwidth_load) and the table the receivers of a transmission are looked up in are keyed by the same attribute of the sender frequency, in can_transmit_frame and transmit alike (one load bucket per delivery channel). "
    "NOT decided: the numeric "
    "bound itself over all traffic patterns (runtime arithmetic)."
)
TECHNIQUE = "static: CFG must-pass admission-before-transmit, admission truth tables, who-may-write of load counters, dominator ordering of accounting vs hand-off"
ASSUMPTIONS = ["frames reach a link only through send_frame (C06 R6.2)", "no writer of current_load via setattr (census)"]

LOAD_WRITERS = {
    ("current_load", "Link.transmit_frame"): "accounting of a transmitted frame",
    ("current_load", "Link.pre_timestep"): "per-tick reset to 0",
    ("current_load", "Link.endpoint_down"): "a link that goes down carries nothing",
    ("bandwidth_load", "AirSpace.transmit"): "accounting of a transmitted frame",
    ("bandwidth_load", "AirSpace.reset_bandwidth_load"): "per-tick reset",
    ("bandwidth_load", "AirSpace.can_transmit_frame"): "first use of a frequency in the tick initialises its load to 0.0",
}


def r18_1(ctx: Ctx) -> None:
    ix = ctx.ix
    ctx.rule("R18.1", "admission before transmission; admission table: up and load+size <= capacity")
    ni = ix.cls("NetworkInterface")
    n = 0
    for f in ix.overrides(ni, "send_frame"):
        g = CFG(f.node)
        tx = nodes_calling(g, ["transmit_frame", "transmit"])
        if not tx:
            ctx.ok("R18.1", ctx.key(f, "transmit only after can_transmit_frame"), f.loc(), "no hand-over to a medium here", trivial=True)
            continue
        n += 1
        medium = None
        for t in tx:
            for c in node_calls(t):
                if call_name(c) in ("transmit_frame", "transmit"):
                    medium = unparse(c.func.value)

        def wraps_admission(x: ast.AST, medium=medium, f=f) -> bool:
            """`self.helper(frame)` where the helper answers True only past the true edge of <medium>.can_transmit_frame(frame) (an
            admission test that was given a name, e.g. together with its log line)."""
            if not (isinstance(x, ast.Call) and isinstance(x.func, ast.Attribute) and isinstance(x.func.value, ast.Name) and x.func.value.id == "self"
                    and f.cls is not None and x.args and unparse(x.args[0]) == "frame"):
                return False
            h = ix.find_method(f.cls, x.func.attr)
            if h is None or isinstance(h.node, ast.Lambda):
                return False
            gh = CFG(h.node)
            trues = [r for r in gh.nodes if r.kind == "stmt" and isinstance(r.ast, ast.Return) and not (
                isinstance(r.ast.value, ast.Constant) and r.ast.value.value in (False, None))]
            inner = lambda e: bool(e.label and e.label[0] == "cond" and e.label[2] is True and isinstance(e.label[1], ast.Call)  # noqa: E731
                                   and call_name(e.label[1]) == "can_transmit_frame" and unparse(e.label[1].func.value) == medium)
            return bool(trues) and gh.path_avoiding(trues, inner) is None

        def sat(e, medium=medium) -> bool:
            if not (e.label and e.label[0] == "cond" and e.label[2] is True):
                return False
            x = e.label[1]
            if wraps_admission(x):
                return True
            return isinstance(x, ast.Call) and call_name(x) == "can_transmit_frame" and unparse(x.func.value) == medium \
                and x.args and unparse(x.args[0]) == "frame"

        p = g.path_avoiding(tx, sat)
        ctx.record("R18.1", ctx.key(f, "transmit only after can_transmit_frame"), f.loc(tx[0].ast), p is None,
                   f"{medium}.transmit is reached only on the true edge of {medium}.can_transmit_frame(frame)" if p is None
                   else "a frame can be put on the medium without the admission test", path_text(p))
    ctx.floor("R18.1", "send_frame implementations that transmit", n, 3)
    ct = ix.method("Link.can_transmit_frame")
    g = CFG(ct.node)
    bad = []
    for up in (True, False):
        # integer order cases plus two just either side of the limit (a comparison on rounded / truncated values shows here)
        for load, size, bw in ((1, 1, 3), (1, 2, 3), (2, 2, 3), (2.996, 0.008, 3), (2.5, 0.496, 3)):
            base = {"self.is_up": up, "self.current_load": load, "frame.size_Mbits": size, "self.bandwidth": bw}
            ev = Evaluator(base, LocalDefs(ct.node))
            out, node, tr = walk(g, ev)
            # a condition over something else (the kind of frame, the sender ...) is a free atom: the admission must be the same
            # for both of its values - a branch that admits or refuses by it is an exemption from the bandwidth test
            free: List[str] = []
            while out == "unknown" and len(free) < 3:
                free.append(unparse(node.ast))
                verdicts = []
                for combo in itertools.product((True, False), repeat=len(free)):
                    ev2 = Evaluator({**base, **dict(zip(free, combo))}, LocalDefs(ct.node))
                    o2, n2, _ = walk(g, ev2)
                    if o2 == "unknown":
                        out, node = o2, n2
                        break
                    v2 = ev2.ev(n2.ast.value) if o2 == "return" and n2.ast.value is not None else None
                    verdicts.append((combo, v2))
                else:
                    want_ = up and (load + size <= bw)
                    for combo, v2 in verdicts:
                        if v2 is UNKNOWN or bool(v2) != want_:
                            bad.append(f"up={up} load={load} size={size} bandwidth={bw} with {dict(zip(free, combo))}: {v2} (want {want_})")
                    out = "free"
            if out == "free":
                continue
            if out == "unknown":
                raise AnalysisError(f"R18.1: cannot evaluate {unparse(node.ast)[:60]} in Link.can_transmit_frame")
            val = ev.ev(node.ast.value) if out == "return" else None
            if val is UNKNOWN:
                raise AnalysisError("R18.1: non-evaluable admission expression")
            want = up and (load + size <= bw)
            if bool(val) != want:
                bad.append(f"up={up} load+size {'<' if load + size < bw else '=' if load + size == bw else '>'} bandwidth: {val} (want {want})")
    ctx.record("R18.1", ctx.key(ct, "admit <=> up and load + size <= bandwidth"), ct.loc(), not bad,
               "6-case table holds" if not bad else "admission test differs", bad)
    ca = ix.method("AirSpace.can_transmit_frame")
    load_t = cap_t = size_t = None
    for sub in ast.walk(ca.node):
        if isinstance(sub, ast.Subscript) and unparse(sub.value) == "self.bandwidth_load" and isinstance(sub.ctx, ast.Load):
            load_t = unparse(sub)
        if isinstance(sub, ast.Call) and call_name(sub) == "get_frequency_max_capacity_mbps":
            cap_t = unparse(sub)
        if isinstance(sub, ast.Attribute) and sub.attr == "size_Mbits":
            size_t = unparse(sub)
    if not (load_t and cap_t and size_t):
        raise AnalysisError("R18.1: cannot identify load/size/capacity operands in AirSpace.can_transmit_frame")
    key_t = load_t[len("self.bandwidth_load["):-1]
    gca = CFG(ca.node)
    bad = []
    n_rows = 0
    # a frequency with no entry yet carries load 0 (first frame after the per-tick reset): it is admitted like any other
    for present in (True, False):
        for load, size, cap in ((1, 1, 3), (1, 2, 3), (2, 2, 3), (0, 2, 3), (0, 4, 3), (2.996, 0.008, 3), (2.5, 0.496, 3)):
            if not present and load != 0:
                continue
            env = {load_t: load, size_t: size, cap_t: cap, f"{key_t} not in self.bandwidth_load": not present,
                   f"{key_t} in self.bandwidth_load": present}
            ev = Evaluator(env, LocalDefs(ca.node))
            out, node, tr = walk(gca, ev)
            if out != "return":
                raise AnalysisError(f"R18.1: cannot evaluate AirSpace.can_transmit_frame ({out} at {unparse(node.ast)[:50] if node is not None and node.ast is not None else '?'})")
            v = ev.ev(node.ast.value)
            n_rows += 1
            if v is UNKNOWN or bool(v) != (load + size <= cap):
                bad.append(f"entry {'present' if present else 'absent'}, load {load} + size {size} vs capacity {cap}: answers {v}")
    ctx.record("R18.1", ctx.key(ca, "admit <=> load + size <= capacity"), ca.loc(), not bad,
               f"{n_rows}-row table holds (with and without an entry for the frequency)" if not bad else "wireless admission test differs", bad)
    # same frequency key for load and capacity
    same = ("sender_network_interface.frequency" in load_t) and ("sender_network_interface.frequency" in cap_t)
    ctx.record("R18.1", ctx.key(ca, "load and capacity of the sender's frequency"), ca.loc(), same, f"load {load_t} ; capacity {cap_t}")


def r18_2(ctx: Ctx) -> None:
    ix = ctx.ix
    ctx.rule("R18.2", "who-may-write the load counters (frozen table)")
    n = 0
    for s in stores_to_attr(ix, ["current_load", "bandwidth_load"]):
        n += 1
        reason = LOAD_WRITERS.get((s.attr, s.owner))
        if reason is None:
            via = only_called_from(ix, s.fn, [o for (a, o) in LOAD_WRITERS if a == s.attr])
            if via:
                reason = f"helper called only from {via}"
        ctx.record("R18.2", f"{s.path}::{s.owner}::{s.kind} {s.attr}", s.where, reason is not None,
                   reason or "unlisted writer of a load counter (can hide or forge traffic)")
    ctx.floor("R18.2", "writers of load counters", n, 6)


def r18_3(ctx: Ctx) -> None:
    ix = ctx.ix
    ctx.rule("R18.3", "loads start every tick at zero: reset stores 0 and is reached from Network.pre_timestep for "
                      "every link and the air space; Simulation/Game forward pre_timestep")
    lp = ix.method("Link.pre_timestep")
    z = [n for n in ast.walk(lp.node) if isinstance(n, ast.Assign) and any(unparse(t) == "self.current_load" for t in n.targets)]
    ok = len(z) == 1 and isinstance(z[0].value, ast.Constant) and z[0].value.value == 0 and CFG(lp.node).count_range(
        lambda n: n.ast is z[0]) == (1, 1)
    ctx.record("R18.3", ctx.key(lp, "current_load = 0 on every call"), lp.loc(), ok, "unconditional reset to 0.0")
    rb = ix.method("AirSpace.reset_bandwidth_load")
    z = [n for n in ast.walk(rb.node) if isinstance(n, ast.Assign) and any(unparse(t) == "self.bandwidth_load" for t in n.targets)]
    ok = len(z) == 1 and isinstance(z[0].value, ast.Dict) and not z[0].value.keys
    ctx.record("R18.3", ctx.key(rb, "bandwidth_load = {}"), rb.loc(), ok, "all frequencies forgotten")
    npre = ix.method("Network.pre_timestep")
    g = CFG(npre.node)
    air = nodes_calling(g, ["reset_bandwidth_load"])
    lo, hi = g.count_range(lambda n: n in air)
    ctx.record("R18.3", ctx.key(npre, "air space reset every tick"), npre.loc(), (lo, hi) == (1, 1), f"reset_bandwidth_load called {lo}..{hi} times")
    loops = [n for n in ast.walk(npre.node) if isinstance(n, ast.For) and "self.links" in unparse(n.iter)
             and any(call_name(c) == "pre_timestep" for b in n.body for c in calls_in(b))
             and not any(isinstance(x, (ast.If, ast.Continue, ast.Break)) for b in n.body for x in ast.walk(b))]
    ctx.record("R18.3", ctx.key(npre, "every link reset every tick"), npre.loc(), bool(loops), "unconditional loop over self.links calling pre_timestep")
    for spec, callee in (("Simulation.pre_timestep", "self.network.pre_timestep"), ("PrimaiteGame.pre_timestep", "self.simulation.pre_timestep")):
        f = ix.method(spec)
        gg = CFG(f.node)
        ns = [n for n in gg.nodes if any(unparse(c.func) == callee for c in node_calls(n))]
        lo, hi = gg.count_range(lambda n: n in ns)
        ctx.record("R18.3", ctx.key(f, f"forwards to {callee}"), f.loc(), (lo, hi) == (1, 1), f"{callee} called {lo}..{hi} times")


def r18_4(ctx: Ctx) -> None:
    ix = ctx.ix
    ctx.rule("R18.4", "the load is accounted before the frame is handed to the receiver, with the frame's size_Mbits")
    for spec, attr in (("Link.transmit_frame", "current_load"), ("AirSpace.transmit", "bandwidth_load")):
        f = ix.method(spec)
        g = CFG(f.node)
        ld = LocalDefs(f.node)
        acc = [n for n in g.nodes if n.kind == "stmt" and isinstance(n.ast, ast.AugAssign) and isinstance(n.ast.op, ast.Add)
               and attr in unparse(n.ast.target)]
        helper_amount = None
        if not acc and f.cls is not None:
            # extract-method form: self._helper(amount) whose body does the `load += amount`
            for n in g.nodes:
                for c in node_calls(n):
                    if isinstance(c.func, ast.Attribute) and unparse(c.func.value) == "self":
                        h = ix.find_method(f.cls, c.func.attr)
                        if h is not None and not isinstance(h.node, ast.Lambda):
                            inner = [x for x in ast.walk(h.node) if isinstance(x, ast.AugAssign) and isinstance(x.op, ast.Add) and attr in unparse(x.target)]
                            if inner and c.args:
                                acc.append(n)
                                helper_amount = c.args[0]
        deliver = nodes_calling(g, ["receive_frame"])
        if not acc or not deliver:
            raise AnalysisError(f"R18.4: accounting or delivery statement not found in {spec}")
        dom = g.dominators()
        ok = all(any(a.id in dom.get(d.id, set()) for a in acc) for d in deliver)
        p = None if ok else g.path_avoiding(deliver, lambda e: False, blocked_nodes={a.id for a in acc})
        ctx.record("R18.4", ctx.key(f, "account before hand-off"), f.loc(acc[0].ast), ok,
                   "the load increase dominates receiver.receive_frame(frame)" if ok else
                   "the frame is delivered (and any reply it triggers is admitted) before its own load is accounted", path_text(p))
        amt = ld.expand(helper_amount if helper_amount is not None else acc[0].ast.value)
        ok_amt = unparse(amt) == "frame.size_Mbits"
        ctx.record("R18.4", ctx.key(f, "accounted amount is frame.size_Mbits"), f.loc(acc[0].ast), ok_amt, f"adds {unparse(amt)}")
        lo, hi = g.count_range(lambda n: n in acc)
        ctx.record("R18.4", ctx.key(f, "accounted exactly once per transmitted frame"), f.loc(acc[0].ast), (lo, hi) == (1, 1),
                   f"accounting executed {lo}..{hi} times per call" + ("" if (lo, hi) == (1, 1) else
                                                                       " - a path puts a frame on the medium without accounting for it (or twice)"))
        # after the hand-off the counter may only be *restored* on the edge where the receiver refused the frame (nothing was
        # sent during a refused delivery); any other plain store after delivery wipes out the load of frames sent meanwhile
        plain = [n for n in g.nodes if n.kind == "stmt" and isinstance(n.ast, ast.Assign) and any(attr in unparse(t) for t in n.ast.targets)]
        for st in plain:
            after = any(g.path_avoiding([st], lambda e: False, start=d) is not None for d in deliver)
            if not after:
                continue

            def refused(e) -> bool:
                if not (e.label and e.label[0] == "cond" and e.label[2] is False):
                    return False
                x = ld.expand(e.label[1])
                return isinstance(x, ast.Call) and call_name(x) == "receive_frame"

            p = g.path_avoiding([st], refused)
            ctx.record("R18.4", ctx.key(f, "no overwrite of the load after the hand-off except on refusal"), f.loc(st.ast), p is None,
                       "the only store after delivery restores the counter when the receiver refused the frame" if p is None else
                       f"`{unparse(st.ast)[:60]}` overwrites the counter after delivery: the load of frames sent during the delivery is lost", path_text(p))


def r18_6(ctx: Ctx) -> None:
    """Link.transmit_frame takes the load back when the receiving interface answers False ("frame not taken off the wire").  What
    the device behind the interface then does with the frame is not the link's business: once an interface has handed the frame to
    its node, it answers True - in every interface class alike (sibling agreement)."""
    ix = ctx.ix
    ctx.rule("R18.6", "every interface's receive_frame answers the constant True on each path that hands the frame to its node (the "
                      "load of a frame that crossed the link is never rolled back because of what happens further on)")
    base = ix.cls("NetworkInterface")
    n = 0
    for c in [base] + list(ix.subclasses(base)):
        f = c.methods.get("receive_frame")
        if f is None or isinstance(f.node, ast.Lambda):
            continue
        g = CFG(f.node)
        hand = [x for x in g.nodes if any(call_name(k) == "receive_frame" and isinstance(k.func, ast.Attribute)
                                          and "_connected_node" in unparse(k.func.value) for k in node_calls(x))]
        if not hand:
            continue
        n += 1
        bad = []
        for h in hand:
            if isinstance(h.ast, ast.Return):
                bad.append(f"L{h.src_lineno}: returns the node's own answer")
                continue
            for r in g.nodes:
                if r.kind == "stmt" and isinstance(r.ast, ast.Return) and g.path_avoiding([r], lambda e: False, start=h) is not None:
                    v = r.ast.value
                    if not (isinstance(v, ast.Constant) and v.value is True):
                        bad.append(f"L{r.src_lineno}: `{unparse(r.ast)[:50]}` after the hand-over")
        ctx.record("R18.6", ctx.key(f, "answers True once the frame is handed to the node"), f.loc(), not bad,
                   "constant True after the hand-over" if not bad else
                   "the answer depends on what the node did with the frame: Link.transmit_frame rolls the load back on False although the "
                   "frame crossed the link", bad)
    ctx.floor("R18.6", "interface classes with their own receive_frame", n, 3)


def r18_7(ctx: Ctx) -> None:
    """The load bucket is the channel: the key of AirSpace.bandwidth_load is the same quantity as the key under which the receivers
    of a transmission are looked up (wireless_interfaces_by_frequency).  With two different key families (say load by frequency *name*,
    delivery by Hz) two names of one frequency each get a bucket of their own and the channel carries twice its capacity although every
    admission test passes."""
    ix = ctx.ix
    ctx.rule("R18.7", "the wireless load table and the receiver table are keyed by the same quantity of the sender's frequency, in "
                      "admission (can_transmit_frame) and accounting (transmit) alike")

    def keys_of(fn, table: str) -> List[ast.AST]:
        ld = LocalDefs(fn.node)
        out: List[ast.AST] = []
        is_tab = lambda e: unparse(ld.expand(e)) == f"self.{table}"  # noqa: E731
        for x in ast.walk(fn.node):
            if isinstance(x, ast.Subscript) and is_tab(x.value):
                out.append(ld.expand(x.slice))
            elif isinstance(x, ast.Compare) and len(x.ops) == 1 and isinstance(x.ops[0], (ast.In, ast.NotIn)) and is_tab(x.comparators[0]):
                out.append(ld.expand(x.left))
            elif isinstance(x, ast.Call) and isinstance(x.func, ast.Attribute) and x.func.attr in ("get", "setdefault", "pop") \
                    and is_tab(x.func.value) and x.args:
                out.append(ld.expand(x.args[0]))
        return out

    def family(fn, e: ast.AST) -> str:
        if isinstance(e, ast.Attribute):
            return e.attr
        raise AnalysisError(f"R18.7: key `{unparse(e)[:60]}` of a frequency-indexed table in {fn.short} is not an attribute of the frequency")

    adm, tx = ix.method("AirSpace.can_transmit_frame"), ix.method("AirSpace.transmit")
    load_keys = [(f, k) for f in (adm, tx) for k in keys_of(f, "bandwidth_load")]
    recv_keys = [(tx, k) for k in keys_of(tx, "wireless_interfaces_by_frequency")]
    ctx.floor("R18.7", "uses of the load table in admission and accounting", len(load_keys), 2)
    ctx.floor("R18.7", "look-ups of the receivers of a transmission", len(recv_keys), 1)
    fam_recv = sorted({family(f, k) for f, k in recv_keys})
    for f, k in load_keys:
        fam = family(f, k)
        ctx.record("R18.7", ctx.key(f, f"load bucket key `{unparse(k)[:60]}`"), f.loc(k), [fam] == fam_recv,
                   f"load is kept per `{fam}`, receivers are found per {fam_recv}" + ("" if [fam] == fam_recv else
                   ": frequencies that are one channel for delivery have separate load buckets (or the reverse), so the data sent on a "
                   "channel in a tick is not bounded by its capacity"))


def check(ctx: Ctx) -> None:
    r18_7(ctx)
    r18_1(ctx)
    r18_2(ctx)
    r18_3(ctx)
    r18_4(ctx)
    r18_6(ctx)
    from .common import falsy_numeric
    falsy_numeric(ctx, "R18.5", r"bandwidth|capacity|speed|load", "bandwidths, capacities and loads")
