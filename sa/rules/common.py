"""Helpers shared by the rule modules: guard recognition in normal form, node/event predicates."""
from __future__ import annotations

import ast
from typing import Callable, Dict, FrozenSet, Iterable, List, Optional, Sequence, Set, Tuple

from ..astutil import attr_chain, call_name, calls_in, unparse, walk_shallow
from ..cfg import CFG, CNode, Edge, LocalDefs, path_text
from ..index import AnalysisError, ClassInfo, FuncInfo, Index


def node_calls(n: CNode) -> List[ast.Call]:
    r = n.expr_root()
    if r is None:
        return []
    if isinstance(r, (ast.FunctionDef, ast.AsyncFunctionDef, ast.ClassDef)):
        return []
    if isinstance(r, ast.ExceptHandler):
        return []
    return calls_in(r)


def nodes_calling(g: CFG, names: Iterable[str], pred: Optional[Callable[[ast.Call], bool]] = None) -> List[CNode]:
    want = set(names)
    out = []
    for n in g.nodes:
        if n.kind in ("entry", "exit", "raise"):
            continue
        for c in node_calls(n):
            if call_name(c) in want and (pred is None or pred(c)):
                out.append(n)
                break
    return out


def enum_member(e: ast.AST) -> Optional[Tuple[str, str]]:
    """`NodeOperatingState.ON` -> ('NodeOperatingState', 'ON'); also `x.y.NodeOperatingState.ON`."""
    if isinstance(e, ast.Attribute):
        ch = attr_chain(e)
        if ch and len(ch) >= 2 and "()" not in ch and "[]" not in ch:
            return ch[-2], ch[-1]
    return None


def state_test(expr: ast.AST, field_names: Sequence[str], universe: Set[str]) -> Optional[Tuple[str, FrozenSet[str]]]:
    """Normalise a test on an enum-valued state field.

    Returns (subject text, set of members for which `expr` is True) for the forms
    `S.f == E.M`, `!=`, `is`, `is not`, `in (E.A, E.B)`, `not in [...]`, with either operand order, and for
    `S.f.value == <E.M.value>`; None if `expr` is not such a test.
    """
    if not isinstance(expr, ast.Compare) or len(expr.ops) != 1:
        return None
    op = expr.ops[0]
    left, right = expr.left, expr.comparators[0]

    def is_subject(e: ast.AST) -> Optional[str]:
        if isinstance(e, ast.Attribute) and e.attr in field_names:
            return unparse(e.value)
        return None

    subj = is_subject(left)
    other = right
    if subj is None:
        subj = is_subject(right)
        other = left
        if subj is None:
            return None
        if isinstance(op, (ast.In, ast.NotIn)):
            return None
    if isinstance(op, (ast.Eq, ast.Is, ast.NotEq, ast.IsNot)):
        m = enum_member(other)
        if m is None or m[1] not in universe:
            return None
        s = frozenset([m[1]])
        if isinstance(op, (ast.NotEq, ast.IsNot)):
            s = frozenset(universe) - s
        return subj, s
    if isinstance(op, (ast.In, ast.NotIn)) and isinstance(other, (ast.Tuple, ast.List, ast.Set)):
        ms = []
        for e in other.elts:
            m = enum_member(e)
            if m is None or m[1] not in universe:
                return None
            ms.append(m[1])
        s = frozenset(ms)
        if isinstance(op, ast.NotIn):
            s = frozenset(universe) - s
        return subj, s
    return None


def edge_state_set(e: Edge, field_names: Sequence[str], universe: Set[str], ld: Optional[LocalDefs] = None
                   ) -> Optional[Tuple[str, FrozenSet[str]]]:
    """If the edge is a branch on a state test: (subject, states possible after taking this edge)."""
    if not e.label or e.label[0] != "cond":
        return None
    expr = e.label[1]
    if ld is not None:
        expr = ld.expand(expr)
    st = state_test(expr, field_names, universe)
    if st is None:
        return None
    subj, tset = st
    return subj, (tset if e.label[2] else frozenset(universe) - tset)


def must_pass(g: CFG, sinks: Sequence[CNode], satisfied: Callable[[Edge], bool]) -> Optional[List[str]]:
    """None if every entry->sink path takes an edge for which satisfied(e); else the witness path text."""
    if not sinks:
        return None
    p = g.path_avoiding(sinks, satisfied)
    if p is None:
        return None
    return path_text(p) or ["(straight-line path from function entry)"]


def cond_is_call_to(expr: ast.AST, names: Iterable[str], ld: Optional[LocalDefs] = None) -> Optional[ast.Call]:
    """The condition (possibly through a single-assignment local) is a call to one of `names`."""
    e = ld.expand(expr) if ld is not None else expr
    if isinstance(e, ast.Call) and call_name(e) in set(names):
        return e
    return None


def returns_of(fn_node: ast.AST) -> List[ast.Return]:
    return [n for n in walk_shallow(fn_node) if isinstance(n, ast.Return)]


def first_or_error(items: list, what: str):
    if not items:
        raise AnalysisError(f"anchor not found: {what}")
    return items[0]


# ---------------------------------------------------------------------------------------------------------------------------------
def falsy_numeric(ctx, rid: str, name_re: str, what: str, scope: Tuple[str, ...] = ("src/primaite/",), floor: int = 1) -> None:
    """A numeric setting for which 0 is a legal value must not be tested by truthiness (`x or default`, `if x:`, `if not x:`): the
    value 0 is then treated like "not given".  Subjects: attributes / parameters / locals annotated int or float (also Optional) and
    string-keyed reads (`cfg.get("k")`, `cfg["k"]`) whose name matches `name_re`.  Every truthiness test of a subject is an instance;
    comparisons (`is None`, `> 0`, `== 0`) are not truthiness tests."""
    import re as _re
    ix = ctx.ix
    ctx.rule(rid, f"{what}: 0 is a legal value, so these settings are never tested by truthiness (`x or d`, `if x:`)")
    pat = _re.compile(name_re)
    NUM = ("int", "float", "Optional[int]", "Optional[float]", "Union[int, float]", "Optional[Union[int, float]]", "int | None", "float | None")
    fields = set()
    for c in ix.classes.values():
        for nm, f in c.fields.items():
            a = unparse(f.ann) if f.ann is not None else ""
            if a in NUM and pat.search(nm):
                fields.add(nm)
    n_subjects = len(fields)
    n = 0
    for f in ix.functions:
        if isinstance(f.node, ast.Lambda) or not f.path.startswith(scope):
            continue
        pn = {a.arg for a in f.node.args.args + f.node.args.kwonlyargs if a.annotation is not None and unparse(a.annotation) in NUM and pat.search(a.arg)}
        n_subjects += len(pn)

        def subject(t: ast.AST) -> Optional[str]:
            if isinstance(t, ast.Attribute) and t.attr in fields:
                return unparse(t)
            if isinstance(t, ast.Name) and t.id in pn:
                return t.id
            if isinstance(t, ast.Call) and isinstance(t.func, ast.Attribute) and t.func.attr == "get" and len(t.args) == 1 and isinstance(t.args[0], ast.Constant) \
                    and isinstance(t.args[0].value, str) and pat.search(t.args[0].value):
                return unparse(t)
            if isinstance(t, ast.Subscript) and isinstance(t.slice, ast.Constant) and isinstance(t.slice.value, str) and pat.search(t.slice.value):
                return unparse(t)
            return None

        def truth_tests(t: ast.AST):
            if isinstance(t, ast.UnaryOp) and isinstance(t.op, ast.Not):
                yield from truth_tests(t.operand)
            elif isinstance(t, ast.BoolOp):
                for v in t.values:
                    yield from truth_tests(v)
            else:
                yield t

        for x in ast.walk(f.node):
            cands: List[ast.AST] = []
            if isinstance(x, (ast.If, ast.IfExp, ast.While)):
                cands = list(truth_tests(x.test))
            elif isinstance(x, ast.BoolOp) and isinstance(x.op, ast.Or):
                cands = [t for v in x.values[:-1] for t in truth_tests(v)]
            for t in cands:
                sname = subject(t)
                if sname is None:
                    continue
                n += 1
                ctx.fail(rid, ctx.key(f, f"`{sname}` is not tested by truthiness"), f.loc(t),
                         f"`{unparse(x)[:80]}` treats `{sname}` == 0 like a missing value: a scenario (or caller) that sets it to 0 gets the "
                         f"default / the other branch instead")
    ctx.count(f"{rid}:numeric settings watched", n_subjects)
    if n_subjects < floor:
        raise AnalysisError(f"{rid}: no numeric setting matching /{name_re}/ found - the subject list is empty")
    if n == 0:
        ctx.ok(rid, f"src/primaite::<package>::no truthiness test of a numeric setting matching /{name_re}/", "",
               f"{n_subjects} numeric settings watched, none is tested by truthiness")


# ---------------------------------------------------------------------------------------------------------------------------------
def per_step_resets(ctx, rid: str) -> None:
    """Per-step accumulators (counts and lists that observations and rewards read as "this step's" value) are cleared by pre_timestep
    at the start of every step.  A reset that is guarded by the component's operating state leaves last step's value in the state for
    as long as the component is not running - it is then reported again as if it had happened in the current step."""
    ix = ctx.ix
    ctx.rule(rid, "every per-step reset in a simulator pre_timestep is unconditional with respect to the component's operating state")
    n = 0
    for f in ix.all_functions():
        if isinstance(f.node, ast.Lambda) or f.name != "pre_timestep" or "/simulator/" not in f.path:
            continue
        g = CFG(f.node)
        for x in g.nodes:
            if x.kind == "stmt" and isinstance(x.ast, ast.Assign) and isinstance(x.ast.value, (ast.Constant, ast.List, ast.Dict, ast.Set)) \
                    and any(isinstance(t, ast.Attribute) and unparse(t.value) == "self" for t in x.ast.targets):
                p = g.path_avoiding([x], lambda e: bool(e.label and e.label[0] == "cond" and "operating_state" in unparse(e.label[1])))
                n += 1
                ctx.record(rid, ctx.key(f, f"reset `{unparse(x.ast)[:50]}` does not depend on the operating state"), f.loc(x.ast), p is not None,
                           "reached on a path that tests no operating state" if p is not None else
                           "the reset happens only in some operating states: in the others the value of an earlier step stays in the state")
    ctx.floor(rid, "per-step resets in pre_timestep", n, 6)
