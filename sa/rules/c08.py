"""C08 - packets reach exactly their addressee via best routes, and forwarding ends."""
from __future__ import annotations

import ast
import itertools
from typing import Dict, List, Optional, Set, Tuple

from ..absval import UNKNOWN, Evaluator, walk
from ..astutil import call_name, calls_in, kwarg, unparse
from ..cfg import expand_test, CFG, CNode, LocalDefs, path_text
from ..index import AnalysisError, ClassInfo, FuncInfo
from ..report import Ctx
from .common import node_calls, nodes_calling

EXPLANATION = (
    "Static analysis of the forwarding plane. Decided: R8.1 TTL discipline - the receive_frame of every instantiable "
    "interface class (discovered from the class hierarchy; modules that cannot be imported are excluded) decrements the "
    "TTL and passes the `ttl >= 1` edge before handing the frame to its node, and Router.process_frame / route_frame "
    "do the same before send_frame (the drop test is evaluated over ttl in {0,1,2}); R8.2 addressee-only delivery as a "
    "truth table over (destination MAC: mine / other / broadcast) x (destination IP: mine / subnet broadcast / other): "
    "a host NIC delivers exactly for mine, or broadcast with my or the broadcast address; router-type interfaces for "
    "mine or broadcast; R8.3 every directly self-recursive retry helper (ARP, NMAP, DNS, FTP, database, terminal) "
    "recurses only with a flag parameter set to True on the edge where that flag is False and never resets another "
    "flag (well-founded, depth bounded by the number of flags); R8.5 RouteTable.find_best_route: candidate update is "
    "dominated by the membership test of the destination in the route's network, and the update guard evaluated over "
    "the 9 order cases (prefix length vs best, metric vs best) is true exactly for 'longer prefix' or 'equal prefix and "
    "lower metric' (exact ties left open); the running best starts below every prefix and above every metric and all "
    "three running values are updated together; R8.4 the default route is returned only when no specific route "
    "matched; R8.6 hosts: SessionManager returns a local interface only past `destination in its subnet` and `enabled`, "
    "falls back to the default gateway only after all local interfaces were tried, and uses the gateway's MAC/interface "
    "exactly when no local resolution succeeded; R8.7 the route table holds what was added (RouteTable.add_route appends, on "
    "every path, an entry built from all four arguments - or finds the identical entry present -, rewrites no existing entry, "
    "and is the only writer of `routes`) and Router.process_frame hands a frame to a neighbour directly only on the "
    "`destination in <that interface>.ip_network` edge (a warm ARP entry does not replace the route table). R8.8 the numeric settings this property depends on are never tested by truthiness (`x or default`, `if x:`) - 0 is a legal value for them. "
    "NOT decided (not applicable to static analysis): end-to-end reachability / delivery success of permitted "
    "exchanges over topologies, ARP behaviour under cold and warm caches, interleavings with interface toggles."
)
TECHNIQUE = "static: CFG must-pass for TTL, truth tables of addressee tests, well-founded-recursion check, order table of the route-selection guard"
ASSUMPTIONS = ["Frame.decrement_ttl lowers ip.ttl by one (checked structurally)",
               "IPv4Network membership / prefixlen behave as in the standard library"]

RECURSION_EXCEPTIONS = {
    "Switch._add_mac_table_entry": "recurses once after popping the stale entry; the base case tests the table entry that was just removed",
}


def _ttl_ok_edge(e) -> bool:
    """Edge on which ttl >= 1 is established (or the frame has no IP header)."""
    if not (e.label and e.label[0] == "cond"):
        return False
    x, pol = e.label[1], e.label[2]
    if unparse(x) == "frame.ip" and pol is False:
        return True
    if isinstance(x, ast.Compare) and any("ttl" in unparse(s) for s in [x.left] + x.comparators):
        names = [unparse(s) for s in [x.left] + x.comparators if "ttl" in unparse(s)]
        vals = {}
        for t in (0, 1, 2):
            v = Evaluator({names[0]: t}).ev(x)
            if v is UNKNOWN:
                return False
            vals[t] = bool(v)
        # the edge is taken for ttl=t iff vals[t] == pol ; it must exclude 0 and include 1, 2
        return (vals[0] != pol) and (vals[1] == pol) and (vals[2] == pol)
    if isinstance(x, ast.Attribute) and x.attr == "can_transmit":
        return pol is True
    return False


def _concrete_interfaces(ctx: Ctx) -> List[ClassInfo]:
    ix = ctx.ix
    dead = ix.dead_modules()
    out = []
    for c in ix.subclasses(ix.cls("NetworkInterface")):
        if c.path in dead:
            continue
        if any(u == "ABC" for u in c.unknown_bases):
            continue
        out.append(c)
    return out


def r8_1(ctx: Ctx) -> None:
    ix = ctx.ix
    ctx.rule("R8.1", "TTL is decremented and the ttl>=1 edge passed before a frame is handed on (interfaces and router)")
    n = 0
    seen: Set[int] = set()
    for c in _concrete_interfaces(ctx):
        f = ix.find_method(c, "receive_frame")
        if f is None or id(f) in seen:
            continue
        seen.add(id(f))
        g = CFG(f.node)
        deliver = [x for x in g.nodes if any(call_name(k) == "receive_frame" and unparse(k.func.value) == "self._connected_node" for k in node_calls(x))]
        if not deliver:
            ctx.ok("R8.1", ctx.key(f, "ttl checked before delivery"), f.loc(), "does not deliver to a node", trivial=True)
            continue
        n += 1
        dec = nodes_calling(g, ["decrement_ttl"])
        dom = g.dominators()
        ok_dec = bool(dec) and all(any(d.id in dom.get(x.id, set()) for d in dec) for x in deliver)
        p = g.path_avoiding(deliver, _ttl_ok_edge)
        # ... and the test looks at the TTL *after* this hop's decrement (testing first lets a frame with TTL 1 through at TTL 0)
        tests = {e.src.id: e.src for e in g.edges() if _ttl_ok_edge(e) and isinstance(e.label[1], ast.Compare)}
        ok_order = all(any(d.id in dom.get(tid, set()) for d in dec) for tid in tests)
        ok_dec = ok_dec and ok_order
        ctx.record("R8.1", ctx.key(f, "ttl checked before delivery"), f.loc(deliver[0].ast), ok_dec and p is None,
                   f"{c.short}: decrement_ttl() dominates delivery and delivery lies behind the ttl>=1 edge" if ok_dec and p is None else
                   f"{c.short}: a frame with exhausted TTL can be handed to the node", path_text(p))
    ctx.floor("R8.1", "interface receive_frame implementations", n, 4)
    for spec in ("Router.process_frame", "Router.route_frame"):
        f = ix.method(spec)
        g = CFG(f.node)
        send = nodes_calling(g, ["send_frame"])
        dec = nodes_calling(g, ["decrement_ttl"])
        dom = g.dominators()
        ok_dec = bool(dec) and all(any(d.id in dom.get(x.id, set()) for d in dec) for x in send)
        p = g.path_avoiding(send, _ttl_ok_edge)
        tests = {e.src.id: e.src for e in g.edges() if _ttl_ok_edge(e) and isinstance(e.label[1], ast.Compare)}
        ok_dec = ok_dec and all(any(d.id in dom.get(tid, set()) for d in dec) for tid in tests)
        ctx.record("R8.1", ctx.key(f, "ttl checked before forwarding"), f.loc(), ok_dec and p is None and bool(send),
                   "every send_frame is preceded by decrement_ttl() and the ttl>=1 edge" if ok_dec and p is None else
                   "a hop can forward without lowering/checking the TTL", path_text(p))
    d = ix.method("Frame.decrement_ttl")
    body = [s for s in d.node.body if not (isinstance(s, ast.Expr) and isinstance(s.value, ast.Constant))]
    ok = len(body) == 1 and isinstance(body[0], ast.AugAssign) and isinstance(body[0].op, ast.Sub) and unparse(body[0].target) == "self.ip.ttl" \
        and isinstance(body[0].value, ast.Constant) and body[0].value.value == 1
    ctx.record("R8.1", ctx.key(d, "ttl -= 1"), d.loc(), ok, unparse(body[0]) if body else "empty")


def r8_2(ctx: Ctx) -> None:
    ix = ctx.ix
    ctx.rule("R8.2", "addressee-only delivery (truth table over destination MAC x destination IP)")
    n = 0
    seen: Set[int] = set()
    for c in _concrete_interfaces(ctx):
        f = ix.find_method(c, "receive_frame")
        if f is None or id(f) in seen:
            continue
        seen.add(id(f))
        g = CFG(f.node)
        deliver = [x for x in g.nodes if any(call_name(k) == "receive_frame" and unparse(k.func.value) == "self._connected_node" for k in node_calls(x))]
        if not deliver:
            continue
        is_l3 = ix.find_field(c, "ip_address") is not None
        is_host = ix.is_subclass(c, ix.cls("NIC")) if ix.cls_opt("NIC") else False
        bad = []
        rows = 0
        for mac, ip in itertools.product(("MINE", "OTHER", "ff:ff:ff:ff:ff:ff"), ("MYIP", "BCASTIP", "OTHERIP")):
            env = {"self.enabled": True, "frame.ip": "IP", "frame.ip.ttl": 5, "frame.ethernet.dst_mac_addr": mac,
                   "frame.ip.dst_ip_address": ip, "self.mac_address": "MINE", "self.ip_address": "MYIP",
                   "self.ip_network.broadcast_address": "BCASTIP",
                   # the sender is somebody else (a frame never comes back to the interface that sent it)
                   "frame.ethernet.src_mac_addr": "SENDER", "frame.ip.src_ip_address": "SENDERIP"}
            ev = Evaluator(env, LocalDefs(f.node))
            out, node, tr = walk(g, ev)
            if out == "unknown":
                raise AnalysisError(f"R8.2: cannot evaluate {unparse(node.ast)[:60]} in {f.short}")
            delivered = any(d.id in ev.visited for d in deliver)
            if not is_l3:
                want = True  # layer-2 port: forwards everything it receives
            elif is_host:
                want = mac == "MINE" or (mac == "ff:ff:ff:ff:ff:ff" and ip in ("MYIP", "BCASTIP"))
            else:
                want = mac in ("MINE", "ff:ff:ff:ff:ff:ff")
            rows += 1
            if delivered != want:
                bad.append(f"dst MAC {mac}, dst IP {ip}: delivered={delivered}, addressee={want}")
        n += 1
        kind = "host NIC" if is_host else ("layer-3 router/AP interface" if is_l3 else "layer-2 port")
        ctx.record("R8.2", ctx.key(f, "delivers exactly to the addressee"), f.loc(), not bad,
                   f"{c.short} ({kind}): {rows}-row table agrees" if not bad else f"{c.short} ({kind}) hands over frames it should not (or drops its own)", bad[:6])
    ctx.floor("R8.2", "interface receive_frame implementations", n, 4)


def r8_3(ctx: Ctx) -> None:
    ix = ctx.ix
    ctx.rule("R8.3", "self-recursive retry helpers are well-founded: each recursive call raises a flag on the edge "
                     "where it was low, and lowers none")
    n = 0
    for f in ix.functions:
        if isinstance(f.node, ast.Lambda) or f.cls is None:
            continue
        rec = [c for c in calls_in(f.node) if call_name(c) == f.name and isinstance(c.func, ast.Attribute)
               and isinstance(c.func.value, ast.Name) and c.func.value.id == "self"]
        if not rec:
            continue
        n += 1
        # a recursion justified as "once more after removing the stale entry" is a retry on the *same* subject: every argument is the
        # caller's own parameter of that position / name, passed through unchanged
        params_all = [a.arg for a in f.node.args.args[1:]]
        for c in (rec if f.short in RECURSION_EXCEPTIONS else []):  # the flag-based functions are checked below; these have no flag
            kwa = {k.arg: k.value for k in c.keywords if k.arg}
            for i, a in enumerate(c.args):
                if i < len(params_all):
                    kwa[params_all[i]] = a
            changed = [f"{p_}={unparse(v)[:40]}" for p_, v in kwa.items() if not (isinstance(v, ast.Constant) and isinstance(v.value, bool))
                       and not (isinstance(v, ast.Name) and v.id == p_) and not p_.startswith("is_")]
            ctx.record("R8.3", ctx.key(f, f"recursive call at `{unparse(c)[:50]}` retries the same subject"), f.loc(c), not changed,
                       "non-flag arguments are passed through unchanged" if not changed else
                       f"the recursive call replaces {changed}: the retry works on something other than what the caller was asked to handle")
        if f.short in RECURSION_EXCEPTIONS:
            ctx.ok("R8.3", ctx.key(f, "bounded recursion"), f.loc(), "justified exception: " + RECURSION_EXCEPTIONS[f.short], trivial=True)
            continue
        params = [a.arg for a in f.node.args.args[1:]]
        g = CFG(f.node)
        for c in rec:
            kw = {k.arg: k.value for k in c.keywords if k.arg}
            for i, a in enumerate(c.args):
                if i < len(params):
                    kw[params[i]] = a
            raised = [p for p, v in kw.items() if isinstance(v, ast.Constant) and v.value is True]
            lowered = [p for p, v in kw.items() if isinstance(v, ast.Constant) and v.value is False]
            site = [x for x in g.nodes if any(k is c for k in node_calls(x))]
            progress = []
            for p in raised:
                w = g.path_avoiding(site, lambda e, p=p: bool(e.label and e.label[0] == "cond" and unparse(e.label[1]) == p and e.label[2] is False))
                if w is None:
                    progress.append(p)
            # flags passed through unchanged are fine; a flag passed as an arbitrary expression is not recognised
            passthrough_ok = all(isinstance(v, ast.Constant) or unparse(v) == p or not p.startswith("is_") for p, v in kw.items())
            ok = bool(progress) and not lowered and passthrough_ok
            ctx.record("R8.3", ctx.key(f, f"recursive call raising {raised}"), f.loc(c), ok,
                       f"reached only while {progress} is False and sets it True; no flag lowered" if ok else
                       f"recursion is not bounded by a flag (raised {raised}, lowered {lowered}, guarded by {progress})")
    ctx.floor("R8.3", "self-recursive methods", n, 10)


def r8_5(ctx: Ctx) -> None:
    ix = ctx.ix
    ctx.rule("R8.5", "route selection: membership, then longer prefix or (equal prefix and lower metric); default "
                     "route only when nothing matched")
    f = ix.method("RouteTable.find_best_route")
    g = CFG(f.node)
    ld = LocalDefs(f.node)
    loops = [n for n in g.nodes if n.kind == "for" and unparse(n.ast.iter) == "self.routes"]
    if len(loops) != 1:
        raise AnalysisError("R8.5: loop over self.routes not found (selection rewritten - unrecognised form)")
    rv = unparse(loops[0].ast.target)
    rets = [n for n in g.nodes if n.kind == "stmt" and isinstance(n.ast, ast.Return) and n.ast.value is not None]
    if len(rets) != 1:
        raise AnalysisError("R8.5: expected a single return of the best route")
    best = unparse(rets[0].ast.value)
    upd = [n for n in g.nodes if n.kind == "stmt" and isinstance(n.ast, ast.Assign) and any(unparse(t) == best for t in n.ast.targets)
           and unparse(n.ast.value) == rv]
    if len(upd) != 1:
        raise AnalysisError(f"R8.5: expected one `{best} = {rv}` update inside the loop")
    u = upd[0]
    # every route is compared: the scan is not left early (a `break` after "the most specific possible" entry skips the metric
    # comparison among entries of that same prefix length)
    scan_loops = [x for x in ast.walk(f.node) if isinstance(x, ast.For) and "routes" in unparse(x.iter)]
    early = [f"line {y.lineno}: {type(y).__name__.lower()}" for lp in scan_loops for b in lp.body for y in ast.walk(b) if isinstance(y, (ast.Break, ast.Return))]
    ctx.record("R8.5", ctx.key(f, "the scan compares every route"), f.loc(), bool(scan_loops) and not early,
               "no break / return inside the loop over self.routes" if not early else
               "the route scan can stop before all routes were compared: a later route with the same prefix and a lower metric is ignored", early)
    # membership
    def member_edge(e) -> bool:
        if not (e.label and e.label[0] == "cond" and e.label[2] is True):
            return False
        x = e.label[1]
        return isinstance(x, ast.Compare) and isinstance(x.ops[0], ast.In) and "destination_ip" in unparse(x.left)

    p = g.path_avoiding([u], member_edge)
    ctx.record("R8.5", ctx.key(f, "candidate must contain the destination"), f.loc(u.ast), p is None,
               "update reached only on `destination_ip in route_network`" if p is None else "a route whose network does not contain the destination can be chosen", path_text(p))
    net_defs = [v for nm, ds in ld.defs.items() for v, i, _ in ds if isinstance(v, ast.Call) and call_name(v) == "IPv4Network"]
    ok_net = bool(net_defs) and all(f"{rv}.address" in unparse(v) and f"{rv}.subnet_mask" in unparse(v) for v in net_defs)
    ctx.record("R8.5", ctx.key(f, "network built from the route's address and mask"), f.loc(), ok_net, f"{[unparse(v)[:70] for v in net_defs]}")
    # the update guard: innermost condition(s) between membership and update
    guard_edges = []
    cur_if = None
    for n in ast.walk(f.node):
        if isinstance(n, ast.If) and any(s is u.ast for s in n.body):
            cur_if = n
    if cur_if is None:
        raise AnalysisError("R8.5: update is not directly guarded by an if")
    G = expand_test(ld, cur_if.test)
    pref_names = sorted({unparse(x) for x in ast.walk(G) if isinstance(x, (ast.Name, ast.Attribute)) and "prefix" in unparse(x)})
    met_names = sorted({unparse(x) for x in ast.walk(G) if isinstance(x, (ast.Name, ast.Attribute)) and "metric" in unparse(x)
                        and not any(isinstance(y, ast.Attribute) and y is not x and unparse(x) in unparse(y) for y in ast.walk(G) if isinstance(y, ast.Attribute) and y is not x)})
    stored = {unparse(t): unparse(s.value) for s in cur_if.body if isinstance(s, ast.Assign) for t in s.targets}
    if len(pref_names) != 2:
        raise AnalysisError(f"R8.5: cannot identify (candidate, best) operands for the prefix length: {pref_names}")
    if len(met_names) == 0:
        # the guard does not consult the metric at all: evaluate it anyway (it will fail the tie cases) using the metric
        # variables of the update block
        bm = next((t for t in stored if "metric" in t), "<best metric>")
        cm = stored.get(bm, "<candidate metric>")
        met_names = [bm, cm]
    elif len(met_names) != 2:
        raise AnalysisError(f"R8.5: cannot identify (candidate, best) operands for the metric: {met_names}")
    # which of each pair is the running best? the one stored in the update block
    bp = next((x for x in pref_names if x in stored), None)
    bm = next((x for x in met_names if x in stored), None)
    if bp is None or bm is None:
        raise AnalysisError("R8.5: running best prefix/metric are not updated together with the best route")
    cp = next(x for x in pref_names if x != bp)
    cm = next(x for x in met_names if x != bm)
    ok_upd = stored.get(bp) == cp and stored.get(bm) == cm and stored.get(best) == rv
    ctx.record("R8.5", ctx.key(f, "running best values updated together"), f.loc(u.ast), ok_upd, f"update block stores {stored}")
    rel = {"<": (1, 2), "=": (2, 2), ">": (3, 2)}
    bad = []
    for rp, rm in itertools.product(rel, rel):
        env = {cp: rel[rp][0], bp: rel[rp][1], cm: rel[rm][0], bm: rel[rm][1]}
        v = Evaluator(env).ev(G)
        if v is UNKNOWN:
            raise AnalysisError(f"R8.5: cannot evaluate the update guard {unparse(G)}")
        if rp == "=" and rm == "=":
            continue  # exact tie: left open by the property
        want = rp == ">" or (rp == "=" and rm == "<")
        if bool(v) != want:
            bad.append(f"prefix {rp} best, metric {rm} best: update={bool(v)}, expected {want}")
    ctx.record("R8.5", ctx.key(f, "longer prefix, then lower metric"), f.loc(cur_if), not bad,
               f"8 order cases of `{unparse(G)[:90]}` agree" if not bad else "route preference differs from longest-prefix / lowest-metric", bad)
    # initial values
    ip = [v for v, i, _ in ld.defs.get(bp, []) if isinstance(v, (ast.Constant, ast.UnaryOp))]
    im = [v for v, i, _ in ld.defs.get(bm, []) if isinstance(v, ast.Call)]
    okp = bool(ip) and Evaluator({}).ev(ip[0]) is not UNKNOWN and Evaluator({}).ev(ip[0]) < 0
    okm = bool(im) and unparse(im[0]).replace("'", '"') in ('float("inf")', "math.inf")
    ctx.record("R8.5", ctx.key(f, "running best starts below every prefix and above every metric"), f.loc(), okp and okm,
               f"{bp} starts at {unparse(ip[0]) if ip else '?'}, {bm} at {unparse(im[0]) if im else '?'}")
    # R8.4 default route
    dflt = [n for n in g.nodes if n.kind == "stmt" and isinstance(n.ast, ast.Assign) and any(unparse(t) == best for t in n.ast.targets)
            and unparse(n.ast.value) == "self.default_route"]
    if not dflt:
        ctx.fail("R8.4", ctx.key(f, "default route as last resort"), f.loc(), "the default route is never used")
    else:
        p = g.path_avoiding(dflt, lambda e: bool(e.label and e.label[0] == "cond" and unparse(e.label[1]) == best and e.label[2] is False))
        after_loop = all(loops[0].ast not in d.loops for d in dflt)
        ctx.record("R8.4", ctx.key(f, "default route as last resort"), f.loc(dflt[0].ast), p is None and after_loop,
                   "default route chosen only when no specific route matched, after the scan" if p is None and after_loop else
                   "the default route can override a specific route", path_text(p))


def r8_6(ctx: Ctx) -> None:
    ix = ctx.ix
    ctx.rule("R8.6", "hosts send on the interface whose subnet contains the destination, and fall back to the default "
                     "gateway only when no enabled local interface does")
    f = ix.method("SessionManager.resolve_outbound_network_interface")
    g = CFG(f.node)
    loops = [n for n in g.nodes if n.kind == "for" and "network_interfaces" in unparse(n.ast.iter)]
    if len(loops) != 1:
        raise AnalysisError("R8.6: interface scan not found in resolve_outbound_network_interface")
    lv = unparse(loops[0].ast.target)
    local_rets = [n for n in g.nodes if n.kind == "stmt" and isinstance(n.ast, ast.Return) and n.ast.value is not None and unparse(n.ast.value) == lv]
    gw_rets = [n for n in g.nodes if n.kind == "stmt" and isinstance(n.ast, ast.Return) and n.ast.value is not None and "default_gateway" in unparse(n.ast.value)]

    def member(e) -> bool:
        return bool(e.label and e.label[0] == "cond" and e.label[2] is True and isinstance(e.label[1], ast.Compare)
                    and isinstance(e.label[1].ops[0], ast.In) and unparse(e.label[1].left) == "dst_ip_address" and unparse(e.label[1].comparators[0]) == f"{lv}.ip_network")

    def enabled(e) -> bool:
        return bool(e.label and e.label[0] == "cond" and e.label[2] is True and unparse(e.label[1]) == f"{lv}.enabled")

    ok = bool(local_rets) and g.path_avoiding(local_rets, member) is None and g.path_avoiding(local_rets, enabled) is None
    ctx.record("R8.6", ctx.key(f, "local interface only for its own subnet, and only when enabled"), f.loc(), ok,
               "an interface is returned only past `dst in its ip_network` and `enabled`" if ok else "an interface outside the destination's subnet (or a disabled one) can be chosen")
    okg = bool(gw_rets) and all(loops[0].ast not in r.loops for r in gw_rets) and g.path_avoiding(
        gw_rets, lambda e: bool(e.label and e.label[0] == "iter" and e.label[2] is False)) is None
    ctx.record("R8.6", ctx.key(f, "default gateway only after every local interface was tried"), f.loc(), okg,
               "the gateway interface is returned only once the scan is exhausted" if okg else "the default gateway can pre-empt a directly connected subnet")
    d = ix.method("SessionManager.resolve_outbound_transmission_details")
    gd = CFG(d.node)
    gw = nodes_calling(gd, ["get_default_gateway_mac_address", "get_default_gateway_network_interface"])
    ld = LocalDefs(d.node)
    # the flag: a local whose every binding is a boolean constant (both values occur) and whose true edge guards the gateway
    # look-ups; the resolved MAC: the local bound to arp.get_arp_cache_mac_address(...) - found by shape, not by name
    flags = []
    for nm in ld.defs:
        vals = [v for v, _ in ld.all_values(nm) if v is not None]
        if vals and all(isinstance(v, ast.Constant) and isinstance(v.value, bool) for v in vals) and {v.value for v in vals} == {True, False}:
            flags.append(nm)
    flag = next((nm for nm in flags if gw and gd.path_avoiding(gw, lambda e, nm=nm: bool(
        e.label and e.label[0] == "cond" and unparse(e.label[1]) == nm and e.label[2] is True)) is None), None)
    p = None if flag else (gd.path_avoiding(gw, lambda e: False) if gw else None)
    macs = {t.id for n in ast.walk(d.node) if isinstance(n, ast.Assign) and isinstance(n.value, ast.Call) and call_name(n.value) == "get_arp_cache_mac_address"
            for t in n.targets if isinstance(t, ast.Name)}
    defs = [unparse(v) for v, _ in ld.all_values(flag) if v is not None] if flag else []
    # the flag is lowered only where a MAC address was resolved on a local subnet
    lowered = [n for n in gd.nodes if n.kind == "stmt" and isinstance(n.ast, ast.Assign) and any(unparse(t) == flag for t in n.ast.targets)
               and isinstance(n.ast.value, ast.Constant) and n.ast.value.value is False]
    pl = gd.path_avoiding(lowered, lambda e: bool(e.label and e.label[0] == "cond" and unparse(e.label[1]) in macs and e.label[2] is True))
    ok = bool(gw) and p is None and bool(lowered) and pl is None
    if not flag and gw and macs:
        # the same decision without a flag variable: `if <resolved mac>: ... else: <gateway look-ups>` - the gateway is consulted
        # only on the arm where the local resolution produced no MAC address
        pd = gd.path_avoiding(gw, lambda e: bool(e.label and e.label[0] == "cond" and unparse(e.label[1]) in macs and e.label[2] is False))
        ok = pd is None
        p = pd
    ctx.record("R8.6", ctx.key(d, "gateway MAC/interface used exactly when no local resolution succeeded"), d.loc(), ok,
               f"gateway look-ups only on the true edge of the flag `{flag}`; flag values {defs}; lowered only when a local MAC was resolved" if ok else
               "the default gateway is used for directly reachable hosts, or skipped for remote ones", path_text(p or pl))
    arps = [n for n in gd.nodes if any(call_name(c) == "get_arp_cache_mac_address" for c in node_calls(n))]
    pa = gd.path_avoiding(arps, lambda e: bool(e.label and e.label[0] == "cond" and e.label[2] is True and isinstance(e.label[1], ast.Compare)
                                               and isinstance(e.label[1].ops[0], ast.In) and "ip_network" in unparse(e.label[1].comparators[0])))
    ctx.record("R8.6", ctx.key(d, "ARP resolution only for destinations on a local subnet"), d.loc(), bool(arps) and pa is None,
               "direct ARP look-up only past `dst in interface.ip_network`")


ROUTES_WRITERS = {"RouteTable.add_route": "appends one entry built from its arguments"}


def r8_7(ctx: Ctx) -> None:
    """Longest-prefix matching can only choose among the routes that are in the table, and a router may hand a frame to a neighbour
    directly only when the destination is on that interface's subnet - everything else goes through the route table."""
    ix = ctx.ix
    ctx.rule("R8.7", "the route table holds what was added (add_route appends an entry built from all four arguments on every path, "
                     "rewrites no existing entry; single writer of `routes`); Router.process_frame sends directly only on the "
                     "`destination in <that interface>.ip_network` edge, otherwise it routes")
    f = ix.method("RouteTable.add_route")
    g = CFG(f.node)
    ld = LocalDefs(f.node)
    params = [a.arg for a in f.node.args.args[1:]]
    apps = []
    for n in g.nodes:
        for c in node_calls(n):
            if call_name(c) == "append" and unparse(c.func.value) == "self.routes" and c.args:
                v = ld.expand(c.args[0])
                built = isinstance(v, ast.Call) and call_name(v) == "RouteEntry" and all(
                    any(k.arg == p_ and isinstance(k.value, ast.Name) and k.value.id == p_ for k in v.keywords) for p_ in params)
                apps.append((n, built, unparse(v)[:90]))
    if not apps:
        raise AnalysisError("R8.7: RouteTable.add_route no longer appends to self.routes")
    for n, built, txt in apps:
        ctx.record("R8.7", ctx.key(f, "the appended entry carries address, mask, next hop and metric as given"), f.loc(n.ast), built, txt)

    def already_there(e) -> bool:
        # a return without appending is fine only when the very same entry is already in the table
        if not (e.label and e.label[0] == "cond" and e.label[2] is True):
            return False
        x = ld.expand(e.label[1])
        return isinstance(x, ast.Compare) and len(x.ops) == 1 and isinstance(x.ops[0], ast.In) and unparse(x.comparators[0]) == "self.routes" \
            and isinstance(ld.expand(x.left), ast.Call) and call_name(ld.expand(x.left)) == "RouteEntry"

    p = g.path_avoiding([g.exit], already_there, blocked_nodes={n.id for n, _, _ in apps})
    ctx.record("R8.7", ctx.key(f, "every call adds its route"), f.loc(), p is None,
               "every path to the end passes the append (or finds the identical entry already present)" if p is None else
               "add_route can return without the route being in the table: a more specific (or cheaper) route that was declared is "
               "missing when the best route is chosen", path_text(p))
    rewrites = [f"line {n.lineno}: {unparse(n)[:60]}" for n in ast.walk(f.node) if isinstance(n, (ast.Assign, ast.AugAssign)) and any(
        isinstance(t, ast.Attribute) and not (isinstance(t.value, ast.Name) and t.value.id == "self")
        for t in (n.targets if isinstance(n, ast.Assign) else [n.target]))]
    ctx.record("R8.7", ctx.key(f, "adding a route rewrites no other entry"), f.loc(), not rewrites,
               "no store to an attribute of another object" if not rewrites else "an existing route is altered by adding another", rewrites[:4])
    from ..inventory import stores_to_attr, only_called_from, recv_class
    n_w = 0
    rt = ix.cls("RouteTable")
    for s_ in stores_to_attr(ix, ["routes"]):
        rc = recv_class(ix, s_.fn, s_.recv) if s_.fn is not None else None
        if not ((rc is not None and ix.is_subclass(rc, rt)) or (s_.fn is not None and s_.fn.cls is not None and ix.is_subclass(s_.fn.cls, rt) and unparse(s_.recv) == "self")):
            continue
        n_w += 1
        ok = s_.owner in ROUTES_WRITERS or bool(only_called_from(ix, s_.fn, ROUTES_WRITERS))
        ctx.record("R8.7", f"{s_.path}::{s_.owner}::{s_.kind} routes", s_.where, ok,
                   ROUTES_WRITERS.get(s_.owner, "the route list is changed outside add_route"))
    ctx.floor("R8.7", "writers of RouteTable.routes", n_w, 1)
    # direct delivery
    pf = ix.method("Router.process_frame")
    gp = CFG(pf.node)
    ldp = LocalDefs(pf.node)
    sends = [(n, c) for n in gp.nodes for c in node_calls(n) if call_name(c) == "send_frame" and isinstance(c.func, ast.Attribute)]
    if not sends:
        raise AnalysisError("R8.7: Router.process_frame no longer sends frames itself")
    for n, c in sends:
        iface = unparse(c.func.value)

        def on_subnet(e, iface=iface) -> bool:
            if not (e.label and e.label[0] == "cond" and e.label[2] is True):
                return False
            x = ldp.expand(e.label[1])
            return isinstance(x, ast.Compare) and len(x.ops) == 1 and isinstance(x.ops[0], ast.In) and unparse(x.comparators[0]) == f"{iface}.ip_network" \
                and "dst_ip_address" in unparse(ldp.expand(x.left))

        p = gp.path_avoiding([n], on_subnet)
        ctx.record("R8.7", ctx.key(pf, f"direct delivery through {iface} only for destinations on its subnet"), pf.loc(n.ast), p is None,
                   f"send_frame is reached only on `destination in {iface}.ip_network`; other destinations go to route_frame" if p is None else
                   "a frame can be handed to a neighbour directly although its destination is not on that interface's subnet: the route "
                   "table (longest prefix, ACLs of the routed path) is bypassed", path_text(p))



def check(ctx: Ctx) -> None:
    ctx.rule("R8.4", "the default route is used only when no specific route matched")
    r8_6(ctx)
    r8_1(ctx)
    r8_2(ctx)
    r8_3(ctx)
    r8_5(ctx)
    r8_7(ctx)
    from .common import falsy_numeric
    falsy_numeric(ctx, "R8.8", r"metric|ttl", "route metrics and TTLs")
