"""C02 - every observation is a member of the declared observation space."""
from __future__ import annotations

import ast
from typing import Dict, List, Optional, Set, Tuple

from ..astutil import attr_chain, call_name, unparse, walk_shallow
from ..cfg import CFG, LocalDefs, path_text as cfg_path_text
from ..index import AnalysisError, ClassInfo, FuncInfo
from ..obsmodel import (ROOT_CALL, Interp, ObsClassModel, ObsModel, Tree, b_add, b_le, b_text, discrete_n, dnf_equiv,
                        dnf_text, path_text)
from ..report import Ctx

EXPLANATION = (
    "Static analysis (E6) of the 15 concrete observation classes against the schema computed from the describe_state "
    "implementations. Decided: R2.1 the key trees of `space`, of every non-default return of `observe`, and of "
    "`default_observation` (built in __init__, helper methods inlined, `{**self.default_observation}` expanded) carry "
    "the same keys with equivalent presence conditions (truth table over the enclosing `if` tests and loop iterables, "
    "so a state-dependent split whose two arms write the same key cancels) and the same slot key expression (index "
    "base); R2.2 every leaf declared `Discrete(n)` receives, from observe and from the default, an expression whose "
    "interval lies in [0, n-1]: constants, conditional expressions, min/max clamps, len, int(u*9)+1, the return values of "
    "_categorise_* helpers, enum ranges read from the enum classes, Bool/Count/Real state fields typed from the "
    "annotations of the simulator class the `where` path denotes, configured sizes as symbols (num_rules, "
    "len(ip_to_id)); an unbounded counter or real reaching a leaf unclamped fails; R2.3 inside observe a subscript on a "
    "mapping built in __init__ whose key is read from the simulation state has a default (`.get(k, d)`) or a membership "
    "guard; R2.4 `space` reads only attributes assigned in __init__ (or class-level fields) and none that observe "
    "stores or mutates, ObservationManager.space delegates to the cached component, and each environment class flattens "
    "the space and the observation with the same `observation_manager.space` expression. NOT decided: membership for "
    "configurations whose configured sizes contradict the simulation (num_rules larger than the ACL, duplicate entries "
    "in ip_list/port_list, a monitored port absent from the config) and numpy dtype details of flatten; values hidden "
    "behind untyped dictionaries (NetworkInterface.traffic / nmne) are taken at the annotation of the helper parameter "
    "that receives them."
)
TECHNIQUE = "static: symbolic dict-shape extraction of space/observe/default with presence conditions, interval evaluation of leaves against Discrete(n), state schema from describe_state"
ASSUMPTIONS = [
    "gymnasium.spaces.Discrete(n) contains exactly 0..n-1 and spaces.Dict requires exactly its keys",
    "an attribute annotated int is a non-negative counter, float a non-negative real, bool is 0/1 (E6 abstract values)",
    "config lists used to build id maps (ip_list, wildcard_list, port_list, protocol_list) have distinct entries, so "
    "len(map) == len(list)",
    "a state value of unknown type handed to a helper parameter annotated int/float is a non-negative number of that type",
    "atoms of presence conditions are independent booleans (same text = same value within one call)",
]

FLOOR_OBSERVE = 16  # 15 concrete + the abstract declaration
FLOOR_SPACE = 17  # 16 in the AbstractObservation hierarchy + ObservationManager.space


def _models(om: ObsModel) -> List[ObsClassModel]:
    return [m for m in om.models.values() if m.observe_b is not None and m.space_b is not None]


def _view_name(j: int, n: int) -> str:
    return "observe" if n == 1 else f"observe#{j + 1}"


def _kinds(t: Tree) -> Dict[tuple, Set[str]]:
    out: Dict[tuple, Set[str]] = {}
    for e in t.events:
        out.setdefault(e.path, set()).add(e.kind)
    return out


# --------------------------------------------------------------------------------------------------------------- R2.1
def r2_1(ctx: Ctx, om: ObsModel) -> None:
    ctx.rule("R2.1", "space, observe (non-default returns) and default_observation have the same keys under equivalent "
                     "presence conditions, with the same slot key expressions")
    n_pairs = 0
    for m in _models(om):
        S = m.space_tree()
        views: List[Tuple[str, FuncInfo, Tree]] = []
        D = m.default_view()
        if D is None:
            raise AnalysisError(f"R2.1: {m.cls.short}.__init__ does not build self.default_observation in a recognised way")
        views.append(("default_observation", m.init_fn, D))
        outs = [(o, t) for o, t, isd in m.observe_outcomes() if not isd]
        for j, (o, t) in enumerate(outs):
            views.append((_view_name(j, len(outs)), m.observe_fn, t))
        sp, sk = S.presence(), _kinds(S)
        for vname, fn, T in views:
            n_pairs += 1
            tp, tk = T.presence(), _kinds(T)
            failed: List[Tuple[tuple, str, str]] = []
            for p in sorted(set(sp) | set(tp), key=lambda x: (len(x), repr(x))):
                ds, dt = sp.get(p, []), tp.get(p, [])
                anc = next((f for f in failed if p[:len(f[0])] == f[0] and (dnf_text(ds), dnf_text(dt)) == (f[1], f[2])), None)
                if anc is not None:
                    continue  # same mismatch as an ancestor key: one construct, one instance
                key = ctx.key(fn, f"key {path_text(p)} present under the same condition as in space"
                              + (f" ({vname})" if vname.startswith("observe#") else ""))
                if not dnf_equiv(ds, dt):
                    failed.append((p, dnf_text(ds), dnf_text(dt)))
                    below = sum(1 for q in set(sp) | set(tp) if len(q) > len(p) and q[:len(p)] == p)
                    ctx.fail("R2.1", key, fn.loc(next((e.raw for e in T.at(p) if e.raw is not None), None)),
                             f"{m.cls.short}: key {path_text(p)} is in space when [{dnf_text(ds)}] but in {vname} when "
                             f"[{dnf_text(dt)}]" + (f" (and {below} keys below it)" if below else "") +
                             " - gymnasium's Dict.contains/flatten needs exactly the declared keys")
                    continue
                ks, kt = sk.get(p, set()), tk.get(p, set())
                if ks and kt and ks.isdisjoint(kt):
                    ctx.fail("R2.1", key, fn.loc(), f"{m.cls.short}: {path_text(p)} is a {'/'.join(sorted(ks))} in space but a "
                                                    f"{'/'.join(sorted(kt))} in {vname}")
                    continue
                ctx.ok("R2.1", key, fn.loc(next((e.raw for e in T.at(p) if e.raw is not None), None)),
                       f"{m.cls.short}.{vname}: [{dnf_text(dt)}] == space [{dnf_text(ds)}]")
        # the default is what observe returns on the absent branch (checked in C09 R9.4); here: it exists
        for bname, b, fn_ in (("__init__", m.init_b, m.init_fn), ("space", m.space_b, m.space_fn), ("observe", m.observe_b, m.observe_fn)):
            for raw, ptxt, loop in (b.overwrites if b is not None else []):
                ctx.fail("R2.1", ctx.key(fn_, f"keys under {ptxt} accumulate over the loop"), fn_.loc(raw),
                         f"{m.cls.short}.{bname}: inside the loop over {loop} the whole dictionary at {ptxt} is assigned anew on every "
                         f"iteration (the target does not depend on the loop variable): only the last iteration's key survives, the "
                         f"other keys the space declares are missing")
    ctx.floor("R2.1", "space/view pairs compared", n_pairs, 30)


# --------------------------------------------------------------------------------------------------------------- R2.2
def _is_delegate(e: Optional[ast.AST]) -> bool:
    """`x.space`, `x.observe(state)`, `x.default_observation`: the value is another component's (checked there)."""
    if e is None:
        return False
    if isinstance(e, ast.Attribute) and e.attr in ("space", "default_observation"):
        return True
    if isinstance(e, ast.Call) and isinstance(e.func, ast.Attribute) and e.func.attr == "observe":
        return True
    return False


def r2_2(ctx: Ctx, om: ObsModel) -> None:
    ctx.rule("R2.2", "every Discrete(n) leaf receives an expression whose interval is within [0, n-1]")
    n_leaves = 0
    n_deleg = 0
    for m in _models(om):
        ip = Interp(om, m)
        S = m.space_tree()
        views: List[Tuple[str, FuncInfo, Tree]] = [("default_observation", m.init_fn, m.default_view())]
        outs = [(o, t) for o, t, isd in m.observe_outcomes() if not isd]
        for j, (o, t) in enumerate(outs):
            views.append((_view_name(j, len(outs)), m.observe_fn, t))
        for p, evs in S.by_path().items():
            for se in evs:
                if se.kind != "leaf":
                    continue
                if _is_delegate(se.expr):
                    n_deleg += 1
                    continue
                nexpr = discrete_n(se.expr)
                if nexpr is None:
                    raise AnalysisError(f"R2.2: {m.cls.short}.space declares {unparse(se.expr)[:60]} at {path_text(p)}: only "
                                        f"Discrete(n) leaves and delegated sub-spaces are modelled")
                ip.init_only = True
                try:
                    N = ip.num(nexpr)
                finally:
                    ip.init_only = False
                if N is None or N.unknown or N.lo != N.hi:
                    raise AnalysisError(f"R2.2: size {unparse(nexpr)} of {m.cls.short} leaf {path_text(p)} is not a constant or a "
                                        f"configured size")
                top = b_add(N.lo, (None, -1.0))
                done: Dict[str, bool] = {}
                for vname, fn, T in views:
                    if T is None:
                        continue
                    for le in T.at(p):
                        if le.kind != "leaf":
                            continue
                        if _is_delegate(le.expr):
                            raise AnalysisError(f"R2.2: {m.cls.short}.{vname} delegates {path_text(p)} but space declares a Discrete")
                        n_leaves += 1
                        I = ip.num(le.expr)
                        key = ctx.key(fn, f"leaf {path_text(p)} = {unparse(le.raw if le.raw is not None else le.expr)[:120]} "
                                          f"within Discrete({unparse(nexpr)})")
                        where = (le.fn or fn).loc(le.raw)
                        if I is None:
                            ctx.fail("R2.2", key, where, f"{m.cls.short}: leaf can only be None, space is Discrete({unparse(nexpr)})")
                            continue
                        if I.unknown:
                            raise AnalysisError(f"R2.2: cannot evaluate {m.cls.short} leaf {path_text(p)} "
                                                f"({unparse(le.expr)[:80]}): {I.unknown[0]}")
                        lo_ok, hi_ok = b_le((None, 0.0), I.lo), b_le(I.hi, top)
                        if hi_ok is None and lo_ok and I.hi[0] is not None and top[0] is not None and I.hi[0] != top[0]:
                            # the value is bounded by one configured size, the space by another: nothing relates the two lists,
                            # so some configuration (longer first list) puts the value outside the space
                            ctx.fail("R2.2", key, where,
                                     f"{m.cls.short}.{vname}: the value ranges up to {b_text(I.hi)} but the space is Discrete({unparse(nexpr)}) = "
                                     f"[0, {b_text(top)}]: the two are sized by different configured lists ({I.hi[0]} vs {top[0]}), so a "
                                     f"scenario where the first is longer than the second takes the observation out of its space")
                            continue
                        if lo_ok is None or hi_ok is None:
                            raise AnalysisError(f"R2.2: bounds {I.text()} of {m.cls.short} leaf {path_text(p)} are not comparable "
                                                f"with Discrete({unparse(nexpr)})")
                        src = ("; from " + ", ".join(I.why[:3])) if I.why else ""
                        if done.get(key) == bool(lo_ok and hi_ok):
                            continue  # the same expression written on two branches
                        done[key] = bool(lo_ok and hi_ok)
                        if lo_ok and hi_ok:
                            ctx.ok("R2.2", key, where, f"{m.cls.short}.{vname}: {I.text()} within [0, {b_text(top)}]{src}")
                        else:
                            ctx.fail("R2.2", key, where,
                                     f"{m.cls.short}.{vname}: value range {I.text()} exceeds Discrete({unparse(nexpr)}) = [0, "
                                     f"{b_text(top)}]{src} - the value reaches the leaf unclamped, so the observation leaves "
                                     f"the declared space (flatten raises / contains is False)")
    ctx.count("R2.2:delegated sub-spaces", n_deleg)
    ctx.floor("R2.2", "Discrete leaves evaluated", n_leaves, 80)


# --------------------------------------------------------------------------------------------------------------- R2.3
def _mentions_state(e: ast.AST) -> bool:
    return any(isinstance(n, ast.Call) and call_name(n) == ROOT_CALL for n in ast.walk(e))


def r2_3(ctx: Ctx, om: ObsModel) -> None:
    ctx.rule("R2.3", "a config-built mapping looked up with a key read from the simulation state has a default or a "
                     "membership guard")
    n = 0
    for m in _models(om):
        maps = {a for a in m.attr_trees if a != "self.default_observation"}
        if not maps:
            continue
        sites: List[Tuple[str, str, ast.AST, ast.AST, frozenset, int]] = []  # (attr, how, key(subst), node, conds, line)
        seen: Set[Tuple[str, str, str]] = set()

        def visit(e: ast.AST, conds, lineno: int) -> None:
            for node in ast.walk(e):
                if isinstance(node, ast.Subscript) and unparse(node.value) in maps and isinstance(node.ctx, ast.Load):
                    if _mentions_state(node.slice):
                        k = (unparse(node.value), "subscript", unparse(node.slice))
                        if k not in seen:
                            seen.add(k)
                            sites.append((k[0], "subscript", node.slice, node, conds, lineno))
                elif isinstance(node, ast.Call) and isinstance(node.func, ast.Attribute) and node.func.attr == "get" \
                        and unparse(node.func.value) in maps and node.args and _mentions_state(node.args[0]):
                    k = (unparse(node.func.value), "get" if len(node.args) == 2 else "get-without-default", unparse(node.args[0]))
                    if k not in seen:
                        seen.add(k)
                        sites.append((k[0], k[1], node.args[0], node, conds, lineno))

        # substituted leaf expressions of the non-default outcomes carry every look-up that reaches the observation
        for o, t, isd in m.observe_outcomes():
            if isd:
                continue
            for ev in t.events:
                if ev.kind == "leaf" and ev.fn is m.observe_fn:
                    visit(ev.expr, ev.conds | o.conds, ev.lineno)
        with_default = sum(1 for s in sites if s[1] == "get")
        for attr, how, key, node, conds, lineno in sites:
            n += 1
            short_key = _state_key_text(m, key)
            k = ctx.key(m.observe_fn, f"{attr}[{short_key}] has a default")
            guarded = any(p and t.endswith(f" in {attr}") for t, p in conds)
            if how == "get" or guarded:
                ctx.ok("R2.3", k, f"{m.observe_fn.path}:{lineno}", f"{attr} looked up with {'.get(k, d)' if how == 'get' else 'a membership guard'}")
            else:
                ctx.fail("R2.3", k, f"{m.observe_fn.path}:{lineno}",
                         f"{m.cls.short}.observe: {attr}[...] is indexed with {short_key} read from the simulation state without a "
                         f"default; {with_default} of {len(sites)} state-keyed look-ups in this function use .get(k, d) - a "
                         f"value the mapping was not configured with raises KeyError out of observe()")
    ctx.floor("R2.3", "state-keyed look-ups on config-built mappings", n, 7)


def _state_key_text(m: ObsClassModel, e: ast.AST) -> str:
    """The state read a look-up key comes from, as `state[*]['src_ip_address']`."""
    chains = [c for c in m._chain(e) if c]
    if chains:
        return "state" + "".join(f"[{k!r}]" if t == "lit" else "[*]" for t, k, _ in chains[0])
    t = unparse(e)
    i = t.rfind("[")
    return "state" + (t[i:] if i >= 0 else "")


# --------------------------------------------------------------------------------------------------------------- R2.4
def _self_loads(fn_node: ast.AST) -> Dict[str, ast.AST]:
    out: Dict[str, ast.AST] = {}
    for n in walk_shallow(fn_node):
        if isinstance(n, ast.Attribute) and isinstance(n.value, ast.Name) and n.value.id == "self" and isinstance(n.ctx, ast.Load):
            out.setdefault(n.attr, n)
    return out


def _self_stores(fn_node: ast.AST) -> Set[str]:
    out: Set[str] = set()
    for n in walk_shallow(fn_node):
        tgt = None
        if isinstance(n, ast.Attribute) and isinstance(n.value, ast.Name) and n.value.id == "self" and isinstance(n.ctx, (ast.Store, ast.Del)):
            out.add(n.attr)
        if isinstance(n, ast.Subscript) and isinstance(n.ctx, (ast.Store, ast.Del)):
            tgt = n.value
            while isinstance(tgt, ast.Subscript):
                tgt = tgt.value
        if isinstance(n, ast.Call) and isinstance(n.func, ast.Attribute) and n.func.attr in (
                "append", "pop", "update", "clear", "remove", "extend", "insert", "add", "discard", "setdefault", "sort", "reverse"):
            tgt = n.func.value
            while isinstance(tgt, ast.Subscript):
                tgt = tgt.value
        if isinstance(tgt, ast.Attribute) and isinstance(tgt.value, ast.Name) and tgt.value.id == "self":
            out.add(tgt.attr)
    return out


def _closure(ix, cls: ClassInfo, fn: FuncInfo, depth: int = 3) -> List[FuncInfo]:
    """fn plus the self.helper() methods it calls (transitively)."""
    out, todo = [fn], [(fn, 0)]
    while todo:
        f, d = todo.pop()
        if d >= depth:
            continue
        for n in walk_shallow(f.node):
            if isinstance(n, ast.Call) and isinstance(n.func, ast.Attribute) and isinstance(n.func.value, ast.Name) and n.func.value.id == "self":
                h = ix.find_method(cls, n.func.attr)
                if h is not None and h not in out:
                    out.append(h)
                    todo.append((h, d + 1))
    return out


def space_reads(ix, m: ObsClassModel) -> Dict[str, ast.AST]:
    reads: Dict[str, ast.AST] = {}
    for f in _closure(ix, m.cls, m.space_fn):
        for a, node in _self_loads(f.node).items():
            meth = ix.find_method(m.cls, a)
            if meth is not None and not meth.is_property:
                continue
            reads.setdefault(a, node)
    return reads


def observe_stores(ix, m: ObsClassModel) -> Set[str]:
    out: Set[str] = set()
    for f in _closure(ix, m.cls, m.observe_fn):
        out |= _self_stores(f.node)
    return out


def r2_4(ctx: Ctx, om: ObsModel) -> None:
    ix = ctx.ix
    ctx.rule("R2.4", "space depends only on attributes fixed at construction; the environment flattens observation and "
                     "space with the same space expression")
    n_obs = len(ix.overrides(om.base, "observe"))
    n_space = len(ix.overrides(om.base, "space")) + (1 if "space" in ix.cls("ObservationManager").methods else 0)
    ctx.floor("R2.4", "observe implementations", n_obs, FLOOR_OBSERVE)
    ctx.floor("R2.4", "space implementations", n_space, FLOOR_SPACE)
    n = 0
    for m in _models(om):
        init_assigned: Set[str] = set()
        for k in ix.mro(m.cls):
            init = k.methods.get("__init__")
            if init is not None and k.module.name.startswith("primaite.game.agent.observations"):
                init_assigned |= _self_stores(init.node)
        stored = observe_stores(ix, m)
        reads = space_reads(ix, m)
        if not reads:
            ctx.ok("R2.4", ctx.key(m.space_fn, "space reads no instance attribute"), m.space_fn.loc(), f"{m.cls.short}.space is a constant", trivial=True)
        for a, node in sorted(reads.items()):
            n += 1
            fld = ix.find_field(m.cls, a)
            fixed = a in init_assigned or (fld is not None and fld[1].classvar is False and fld[1].ann is not None) or \
                (fld is not None and fld[1].classvar)
            key = ctx.key(m.space_fn, f"self.{a} is fixed at construction and not written by observe")
            if not fixed:
                ctx.fail("R2.4", key, m.space_fn.loc(node), f"{m.cls.short}.space reads self.{a}, which __init__ never assigns")
            elif a in stored:
                ctx.fail("R2.4", key, m.space_fn.loc(node), f"{m.cls.short}.space reads self.{a}, which observe() stores or mutates: the "
                                                            f"declared space can change between steps")
            else:
                ctx.ok("R2.4", key, m.space_fn.loc(node), f"self.{a}: assigned in __init__" + (" (class-level field)" if a not in init_assigned else "") +
                       "; observe does not write it")
    ctx.floor("R2.4", "attributes read by space properties", n, 25)
    # ObservationManager.space delegates to the cached component
    om_cls = ix.cls("ObservationManager")
    sp = ix.method("ObservationManager.space")
    rets = [x for x in walk_shallow(sp.node) if isinstance(x, ast.Return)]
    obs_m = om_cls.methods.get("obs")
    ok = len(rets) == 1 and unparse(rets[0].value) == "self.obs.space" and obs_m is not None and any(
        d.endswith("cached_property") for d in obs_m.decorators)
    ctx.record("R2.4", ctx.key(sp, "delegates to the component created once (cached_property obs)"), sp.loc(), ok,
               f"returns {unparse(rets[0].value) if rets else None}; obs decorators {obs_m.decorators if obs_m else None}")
    up = ix.method("ObservationManager.update")
    st = [x for x in walk_shallow(up.node) if isinstance(x, ast.Assign) and unparse(x.targets[0]) == "self.current_observation"]
    ok = len(st) == 1 and unparse(st[0].value) == "self.obs.observe(state)"
    ctx.record("R2.4", ctx.key(up, "current_observation comes from the same component as space"), up.loc(), ok,
               f"{unparse(st[0]) if st else 'no store to current_observation'}")
    # environments
    n_env = 0
    for cname in ("PrimaiteGymEnv", "PrimaiteRayMARLEnv"):
        c = ix.cls_opt(cname)
        if c is None:
            continue
        decl: List[Tuple[FuncInfo, ast.Call, str]] = []
        flat: List[Tuple[FuncInfo, ast.Call, str]] = []
        for f in c.methods.values():
            ld = LocalDefs(f.node)
            for call in [x for x in ast.walk(f.node) if isinstance(x, ast.Call)]:
                nm = call_name(call)
                if nm == "flatten_space" and call.args:
                    decl.append((f, call, _space_norm(ld.expand(call.args[0]))))
                elif nm == "flatten" and len(call.args) == 2 and "spaces" in (attr_chain(call.func) or []):
                    flat.append((f, call, _space_norm(ld.expand(call.args[0]))))
        if not decl or not flat:
            raise AnalysisError(f"R2.4: {cname} no longer calls both flatten_space and flatten")
        for f, call, nf in flat:
            n_env += 1
            want = {d[2] for d in decl}
            ctx.record("R2.4", ctx.key(f, "flatten(observation) uses the space expression given to flatten_space"), f.loc(call),
                       nf in want and nf.endswith("observation_manager.space"),
                       f"{cname}: flatten against `{nf}`; observation_space flattens {sorted(want)}")
    ctx.floor("R2.4", "environment flatten sites", n_env, 2)
    # un-flattened branch of PrimaiteGymEnv
    osp = ix.method("PrimaiteGymEnv.observation_space")
    go = ix.method("PrimaiteGymEnv._get_obs")
    r1 = sorted({_space_norm(r.value) for r in walk_shallow(osp.node) if isinstance(r, ast.Return) and not isinstance(r.value, ast.Call)})
    r2 = sorted({_space_norm(r.value) for r in walk_shallow(go.node) if isinstance(r, ast.Return) and not isinstance(r.value, ast.Call)})
    ctx.record("R2.4", ctx.key(go, "nested form: observation and space come from the same observation_manager"), go.loc(),
               r1 == ["observation_manager.space"] and r2 == ["observation_manager.current_observation"], f"space {r1}, observation {r2}")


def _space_norm(e: ast.AST) -> str:
    ch = attr_chain(e)
    if not ch:
        return unparse(e)
    if "observation_manager" in ch:
        ch = ch[ch.index("observation_manager"):]
    return ".".join(ch)


def r2_5(ctx: Ctx, om: ObsModel) -> None:
    """observe() never raises on its own memory: an attribute of the observation that observe subscripts (`self.a[...]`) is never
    bound to None - neither in __init__ nor in observe - unless every such subscript is behind a None test.  (An Optional cache reset
    to None on one step and indexed on a later one raises TypeError out of env.step.)"""
    ctx.rule("R2.5", "memory that observe() subscripts is never None: no `self.a = None` for an attribute read as `self.a[...]` without a "
                     "None test")
    n = 0
    for m in _models(om):
        fn = m.observe_fn
        if fn is None or isinstance(fn.node, ast.Lambda):
            continue
        subs = {}
        for x in ast.walk(fn.node):
            if isinstance(x, ast.Subscript) and isinstance(x.ctx, ast.Load) and isinstance(x.value, ast.Attribute) \
                    and isinstance(x.value.value, ast.Name) and x.value.value.id == "self":
                subs.setdefault(x.value.attr, x)
        for a, site in sorted(subs.items()):
            none_stores = []
            for f in [fn] + ([m.init_fn] if m.init_fn is not None else []):
                for st in ast.walk(f.node):
                    if isinstance(st, (ast.Assign, ast.AnnAssign)) and getattr(st, "value", None) is not None and isinstance(st.value, ast.Constant) \
                            and st.value.value is None and any(isinstance(t, ast.Attribute) and t.attr == a and isinstance(t.value, ast.Name)
                                                               and t.value.id == "self" for t in (st.targets if isinstance(st, ast.Assign) else [st.target])):
                        none_stores.append((f, st))
            if not none_stores:
                continue
            n += 1
            g = CFG(fn.node)
            reads = [nd for nd in g.nodes if nd.expr_root() is not None and any(
                isinstance(x, ast.Subscript) and isinstance(x.value, ast.Attribute) and x.value.attr == a and unparse(x.value.value) == "self"
                for x in ast.walk(nd.expr_root()))]

            def not_none(e) -> bool:
                if not (e.label and e.label[0] == "cond"):
                    return False
                t, pol = e.label[1], e.label[2]
                if isinstance(t, ast.Attribute) and t.attr == a:
                    return pol is True
                if isinstance(t, ast.Compare) and len(t.ops) == 1 and isinstance(t.left, ast.Attribute) and t.left.attr == a \
                        and isinstance(t.comparators[0], ast.Constant) and t.comparators[0].value is None:
                    return pol == isinstance(t.ops[0], (ast.IsNot, ast.NotEq))
                return False

            p = g.path_avoiding(reads, not_none)
            f0, st0 = none_stores[0]
            ctx.record("R2.5", ctx.key(fn, f"self.{a} is never None where it is subscripted"), f0.loc(st0), p is None,
                       f"every `self.{a}[...]` is behind a None test" if p is None else
                       f"{f0.short} binds self.{a} to None and observe reads `self.{a}[...]` without testing it: TypeError out of observe() / env.step()",
                       cfg_path_text(p) if p else None)
    ctx.count("R2.5:subscripted memory attributes that can be None", n)
    if n == 0:
        ctx.ok("R2.5", "src/primaite/game/agent/observations::<package>::no subscripted observation memory is ever bound to None", "",
               "no observation class binds an attribute that observe() subscripts to None")



def check(ctx: Ctx) -> None:
    om = ObsModel(ctx.ix)
    ctx.count("E6:describe_state implementations", len(om.schema.impls()))
    r2_1(ctx, om)
    r2_2(ctx, om)
    r2_3(ctx, om)
    r2_4(ctx, om)
    r2_5(ctx, om)
    ctx.count("E6:describe_state functions evaluated", len(om.schema.evaluated))
    ctx.count("E6:observation classes modelled", len(_models(om)))


# Self-test corpus (DESIGN section 6): textual edits applied as an in-memory overlay - Index(overlay={path: text}) -
# never written to /repo and never executed.  kind 'breaking': the check must report a NEW failing instance;
# 'benign': behaviour-preserving twin, no new failing instance; 'repair': a listed finding disappears and nothing new
# fires.  All entries were run once on the pinned tree (2026-09-26) with the expected outcome.
VARIANTS = [('host space slot base i (not i+1)',
  'breaking',
  'src/primaite/game/agent/observations/host_observations.py',
  [('shape["SERVICES"] = spaces.Dict({i + 1: service.space for i, service in enumerate(self.services)})',
    'shape["SERVICES"] = spaces.Dict({i: service.space for i, service in enumerate(self.services)})')]),
 ('host space users unconditional',
  'breaking',
  'src/primaite/game/agent/observations/host_observations.py',
  [('        if self.include_users:\n            shape["users"] = spaces.Dict(',
    '        if True:\n            shape["users"] = spaces.Dict(')]),
 ('host default drops NICS',
  'breaking',
  'src/primaite/game/agent/observations/host_observations.py',
  [('        if self.nics:\n'
    '            self.default_observation["NICS"] = {i + 1: n.default_observation for i, n in enumerate(self.nics)}',
    '        pass')]),
 ('link clamp removed',
  'breaking',
  'src/primaite/game/agent/observations/link_observation.py',
  [('return {"PROTOCOLS": {"ALL": min(utilisation_category, 10)}}',
    'return {"PROTOCOLS": {"ALL": utilisation_category}}')]),
 ('service op-state space 7 -> 6',
  'breaking',
  'src/primaite/game/agent/observations/software_observation.py',
  [('return spaces.Dict({"operating_status": spaces.Discrete(7), "health_status": spaces.Discrete(5)})',
    'return spaces.Dict({"operating_status": spaces.Discrete(6), "health_status": spaces.Discrete(5)})')]),
 ('SoftwareHealthState gains member 5',
  'breaking',
  'src/primaite/simulator/system/software.py',
  [('    OVERWHELMED = 4\n', '    OVERWHELMED = 4\n    BROKEN = 5\n')]),
 ('categorise returns 4',
  'breaking',
  'src/primaite/game/agent/observations/file_system_observations.py',
  [('        if num_access > self.high_file_access_threshold:\n            return 3',
    '        if num_access > self.high_file_access_threshold:\n            return 4')]),
 ('acl port lookup without default',
  'breaking',
  'src/primaite/game/agent/observations/acl_observation.py',
  [('src_port_id = self.port_to_id.get(src_port, 1)', 'src_port_id = self.port_to_id[src_port]')]),
 ('acl ids start at 3',
  'breaking',
  'src/primaite/game/agent/observations/acl_observation.py',
  [('self.protocol_to_id: Dict[str, int] = {p: i + 2 for i, p in enumerate(protocol_list)}',
    'self.protocol_to_id: Dict[str, int] = {p: i + 3 for i, p in enumerate(protocol_list)}')]),
 ('observe rewrites max_users',
  'breaking',
  'src/primaite/game/agent/observations/host_observations.py',
  [('        obs["operating_status"] = node_state["operating_state"]\n',
    '        obs["operating_status"] = node_state["operating_state"]\n        self.max_users = 5\n')]),
 ('remote sessions unclamped',
  'breaking',
  'src/primaite/game/agent/observations/host_observations.py',
  [('"remote_sessions": min(self.max_users, len(sess["active_remote_sessions"])),\n'
    '                }\n'
    '\n'
    '        obs["operating_status"]',
    '"remote_sessions": len(sess["active_remote_sessions"]),\n'
    '                }\n'
    '\n'
    '        obs["operating_status"]')]),
 ('env flattens against other space',
  'breaking',
  'src/primaite/session/environment.py',
  [('unflat_space = self.agent.observation_manager.space',
    'unflat_space = self.agent.observation_manager.obs.default_space')]),
 ('file obs num_access key unconditional in observe',
  'breaking',
  'src/primaite/game/agent/observations/file_system_observations.py',
  [('        if self.include_num_access:\n'
    '            obs["num_access"] = self._categorise_num_access(file_state["num_access"])',
    '        obs["num_access"] = self._categorise_num_access(file_state["num_access"])')]),
 ('rename loop vars in host space',
  'benign',
  'src/primaite/game/agent/observations/host_observations.py',
  [('shape["SERVICES"] = spaces.Dict({i + 1: service.space for i, service in enumerate(self.services)})',
    'shape["SERVICES"] = spaces.Dict({1 + k: svc.space for k, svc in enumerate(self.services)})')]),
 ('for-loop instead of comprehension',
  'benign',
  'src/primaite/game/agent/observations/host_observations.py',
  [('            shape["APPLICATIONS"] = spaces.Dict({i + 1: app.space for i, app in enumerate(self.applications)})',
    '            d = {}\n'
    '            for j, a in enumerate(self.applications):\n'
    '                d[j + 1] = a.space\n'
    '            shape["APPLICATIONS"] = spaces.Dict(d)')]),
 ('nested ifs / negated guard',
  'benign',
  'src/primaite/game/agent/observations/nic_observations.py',
  [('            if self.capture_nmne:\n                direction_dict',
    '            if not (not self.capture_nmne):\n                direction_dict')]),
 ('NMNE key emitted in both arms',
  'benign',
  'src/primaite/game/agent/observations/nic_observations.py',
  [('        if self.include_nmne:\n'
    '            # the space declares NMNE whenever it is included; without capture there is nothing to count\n'
    '            obs["NMNE"] = {"inbound": 0, "outbound": 0}\n',
    '        if self.include_nmne and not self.capture_nmne:\n'
    '            obs["NMNE"] = {"inbound": 0, "outbound": 0}\n'
    '        if self.include_nmne and self.capture_nmne:\n'
    '            obs["NMNE"] = {}\n'
    '        if self.include_nmne:\n')]),
 ('clamp written with max/min swap',
  'benign',
  'src/primaite/game/agent/observations/link_observation.py',
  [('return {"PROTOCOLS": {"ALL": min(utilisation_category, 10)}}',
    'cat = min(10, utilisation_category)\n        return {"PROTOCOLS": {"ALL": cat}}')]),
 ('is_on hoisted differently',
  'benign',
  'src/primaite/game/agent/observations/host_observations.py',
  [('        is_on = node_state["operating_state"] == 1\n'
    '        if not is_on:\n'
    '            obs = {**self.default_observation}\n',
    '        if node_state["operating_state"] != 1:\n            obs = {**self.default_observation}\n')]),
 ('ternary as if/else statement',
  'benign',
  'src/primaite/game/agent/observations/nic_observations.py',
  [('        obs = {"nic_status": 1 if nic_state["enabled"] else 2}\n',
    '        if nic_state["enabled"]:\n'
    '            st = 1\n'
    '        else:\n'
    '            st = 2\n'
    '        obs = {"nic_status": st}\n')]),
 ('revert 1b091b0: NMNE key only when capturing',
  'breaking',
  'src/primaite/game/agent/observations/nic_observations.py',
  [('        if self.include_nmne:\n'
    '            # the space declares NMNE whenever it is included; without capture there is nothing to count\n',
    '        if self.include_nmne and self.capture_nmne:\n')]),
 ('revert 3cca522: traffic band unclamped',
  'breaking',
  'src/primaite/game/agent/observations/nic_observations.py',
  [('        return min(int(bandwidth_utilisation * 9) + 1, 10)\n',
    '        return int(bandwidth_utilisation * 9) + 1\n')]),
 ('revert fb8cfdb: one file counter unclamped',
  'breaking',
  'src/primaite/game/agent/observations/host_observations.py',
  [('obs["num_file_deletions"] = min(node_state["file_system"]["num_file_deletions"], 3)',
    'obs["num_file_deletions"] = node_state["file_system"]["num_file_deletions"]')]),
 ('revert 1e820f3: dst ip lookup without default',
  'breaking',
  'src/primaite/game/agent/observations/acl_observation.py',
  [('dst_node_id = 1 if dst_ip is None else self.ip_to_id.get(dst_ip, 1)',
    'dst_node_id = 1 if dst_ip is None else self.ip_to_id[dst_ip]')])]
