"""C07 - ACL verdict = first matching rule by position, else the implicit action."""
from __future__ import annotations

import ast
import itertools
from typing import Dict, List, Optional, Set, Tuple

from ..absval import UNKNOWN, Evaluator, walk
from ..astutil import call_name, calls_in, kwarg, unparse
from ..cfg import CFG, CNode, LocalDefs, path_text
from ..index import AnalysisError, FuncInfo
from ..report import Ctx
from .common import node_calls, nodes_calling

EXPLANATION = (
    "Static analysis of the packet filter. Decided: R7.1 AccessControlList.is_permitted scans self._acl in list order "
    "(no sort/reverse/set), consults a rule only past the non-empty-slot edge, never continues the scan after a match, "
    "uses the implicit action exactly when no rule was recorded as the match, increments match_count exactly once per "
    "verdict on the deciding rule and returns that rule's verdict; R7.2 ACLRule.permit_frame_check evaluated as a truth "
    "table over stand-in values: an all-unspecified rule matches everything with permitted = (action == PERMIT); for "
    "each of protocol, source/destination address (exact and masked), source/destination port a specified-and-equal "
    "field matches and a specified-and-different field makes the rule not match and not permit; every per-field match "
    "value flows into the final conjunction; R7.3 add_rule/remove_rule store only self._acl[position] with the "
    "parameter as index, past a bounds test that admits exactly the valid indices of the list (order table at the "
    "boundaries); R7.4 the three front ends agree: the order of the action's request parameters vs the add_rule "
    "handler's request[i] -> keyword mapping (synonym table), the 'ALL'/'NONE' sentinels, and the seven from-config "
    "parsers (identical config-key -> keyword maps, mapping key passed as position, list named by the config key); R7.5 "
    "the wildcard match ip_matches_masked_range is a bit-parallel expression (only &, |, ^, ~, ==), so its 8-row "
    "per-bit truth table decides it exactly: match <=> mask bit set or address bit == base bit (a form that is not "
    "bit-parallel, e.g. with shifts or subtraction, is evaluated by the analyser's own expression evaluator on 32-bit words "
    "built from a few octet patterns: a disagreement with 'ignore the wildcard bits' is reported as a violation with the "
    "counterexample, sampled agreement proves nothing and ends fail-closed in ANALYSIS-ERROR). R7.6 the numeric settings this property depends on are never tested by truthiness (`x or default`, `if x:`) - 0 is a legal value for them. "
    "R7.7 who may change an ACL: the mutators are called only by the requests, the scenario loaders and construction (frozen table). "
    "NOT decided: IPv4Address equality itself and "
    "bounded-exhaustive verdict equivalence against a reference filter."
)
TECHNIQUE = "static: CFG structure of the scan loop, finite truth tables of the rule matcher and bounds tests over stand-in values, sibling agreement of the three front ends"
ASSUMPTIONS = ["ACLRule fields are only compared, never mutated, by permit_frame_check (checked: no stores)",
               "pydantic validate_call coerces the add_rule arguments as declared"]

FIELDS = ["protocol", "src_ip_address", "dst_ip_address", "src_port", "dst_port"]
SYNONYMS = {
    "permission": "action", "protocol_name": "protocol", "src_ip": "src_ip_address", "src_wildcard": "src_wildcard_mask",
    "src_port": "src_port", "dst_ip": "dst_ip_address", "dst_wildcard": "dst_wildcard_mask", "dst_port": "dst_port",
    "position": "position",
}


def r7_1(ctx: Ctx) -> None:
    ix = ctx.ix
    ctx.rule("R7.1", "first match in list order; implicit action iff no match; match_count += 1 exactly once on the "
                     "deciding rule")
    fn = ix.method("AccessControlList.is_permitted")
    g = CFG(fn.node)
    ld = LocalDefs(fn.node)
    loops = [n for n in g.nodes if n.kind == "for"]
    if len(loops) != 1:
        raise AnalysisError(f"R7.1: expected one scan loop in is_permitted, found {len(loops)}")
    loop = loops[0]
    it = unparse(loop.ast.iter)
    ctx.record("R7.1", ctx.key(fn, "scan in list order"), fn.loc(loop.ast), it in ("self._acl", "self.acl"),
               f"iterates {it}" + ("" if it in ("self._acl", "self.acl") else " - order of evaluation is no longer the position order"))
    lv = unparse(loop.ast.target)
    checks = [n for n in g.nodes if any(call_name(c) == "permit_frame_check" for c in node_calls(n))]
    if len(checks) != 1:
        raise AnalysisError("R7.1: expected exactly one permit_frame_check call in the loop")
    chk = checks[0]
    call = [c for c in node_calls(chk) if call_name(c) == "permit_frame_check"][0]
    ok_recv = unparse(call.func.value) == lv and call.args and unparse(call.args[0]) == "frame"
    ctx.record("R7.1", ctx.key(fn, "each rule judged on this frame"), fn.loc(chk.ast), ok_recv, f"{unparse(call)[:60]}")
    p = g.path_avoiding([chk], lambda e: bool(e.label and e.label[0] == "cond" and unparse(e.label[1]) == lv and e.label[2]))
    ctx.record("R7.1", ctx.key(fn, "empty slots skipped"), fn.loc(chk.ast), p is None,
               "permit_frame_check is reached only for non-empty slots" if p is None else "an empty slot can be dereferenced", path_text(p))
    # names bound by the tuple unpack
    if not (isinstance(chk.ast, ast.Assign) and isinstance(chk.ast.targets[0], ast.Tuple) and len(chk.ast.targets[0].elts) == 2):
        raise AnalysisError("R7.1: verdict is not unpacked as `permitted, matched = rule.permit_frame_check(frame)`")
    pvar, mvar = (unparse(e) for e in chk.ast.targets[0].elts)
    match_edges = [e for e in g.edges() if e.label and e.label[0] == "cond" and unparse(e.label[1]) == mvar and e.label[2] is True]
    if not match_edges:
        raise AnalysisError("R7.1: no branch on the rule-matched flag")
    cont = any(g.path_avoiding([loop], lambda e: False, start=me.dst) is not None or me.dst is loop for me in match_edges)
    ctx.record("R7.1", ctx.key(fn, "scan stops at the first match"), fn.loc(match_edges[0].src.ast), not cont,
               "no path from the match edge back to the loop head" if not cont else "the scan continues after a match (a later rule can override the first)")
    # the deciding rule is recorded on the match edge
    rets = [n for n in g.nodes if n.kind == "stmt" and isinstance(n.ast, ast.Return)]
    # a return that cannot be reached from the scan loop answers without looking at the list: its verdict must be the implicit
    # action's.  A constant verdict on a path that never tests the implicit action is wrong for one of the two implicit actions.
    early = [r for r in rets if g.path_avoiding([r], lambda e: False, start=loop) is None]
    for r in early:
        val = r.ast.value
        if not (isinstance(val, ast.Tuple) and len(val.elts) == 2):
            raise AnalysisError("R7.1: an early return of is_permitted is not a `(verdict, rule)` pair")
        tbl = [(ia, Evaluator({"self.implicit_action": ia, "ACLAction.PERMIT": "PERMIT", "ACLAction.DENY": "DENY"}, ld).ev(val.elts[0]))
               for ia in ("PERMIT", "DENY")]
        tied = all(x is not UNKNOWN and bool(x) == (ia == "PERMIT") for ia, x in tbl)
        tests_ia = g.path_avoiding([r], lambda e: bool(e.label and e.label[0] == "cond" and "implicit_action" in unparse(e.label[1]))) is None
        if not tied and not tests_ia and not isinstance(val.elts[0], ast.Constant):
            raise AnalysisError(f"R7.1: early return with a verdict `{unparse(val.elts[0])[:40]}` that cannot be evaluated")
        ctx.record("R7.1", ctx.key(fn, "a verdict given without scanning the list is the implicit action's"), fn.loc(r.ast), tied or tests_ia,
                   f"returns {unparse(val)[:60]}; by implicit action {tbl}" + ("" if tied or tests_ia else
                   " - the list's implicit action is not consulted: a list whose implicit action is the other one gets the wrong verdict"))
    rets = [r for r in rets if r not in early]
    if len(rets) != 1 or not isinstance(rets[0].ast.value, ast.Tuple) or len(rets[0].ast.value.elts) != 2:
        raise AnalysisError("R7.1: is_permitted does not end in a single `return permitted, rule`")
    rp, rr = (unparse(e) for e in rets[0].ast.value.elts)
    ctx.record("R7.1", ctx.key(fn, "returns the deciding rule's verdict"), fn.loc(rets[0].ast), rp == pvar,
               f"returns ({rp}, {rr}); verdict variable of permit_frame_check is {pvar}")
    rec = [n for n in g.nodes if n.kind == "stmt" and isinstance(n.ast, ast.Assign) and any(unparse(t) == rr for t in n.ast.targets)
           and unparse(n.ast.value) == lv]
    # the loop variable itself may be what is returned (`for rule in acl: ... if match: break` / `else: rule = implicit`): then
    # the matching rule is the deciding rule by construction, provided the scan stops at the match (checked above)
    same_var = rr == lv
    ok_rec = (same_var and not cont) or (bool(rec) and all(g.path_avoiding([r], lambda e: e in match_edges) is None for r in rec))
    ctx.record("R7.1", ctx.key(fn, "matching rule recorded as the deciding rule"), fn.loc(), ok_rec,
               (f"`{rr}` is the loop variable and the scan stops at the match" if same_var else f"`{rr} = {lv}` only on the match edge")
               if ok_rec else "deciding rule is not the matching rule")
    # implicit action iff nothing recorded
    imp = [n for n in g.nodes if n.kind == "stmt" and isinstance(n.ast, ast.Assign) and any(unparse(t) == pvar for t in n.ast.targets)
           and "implicit_action" in unparse(n.ast.value)]
    imp_rule = [n for n in g.nodes if n.kind == "stmt" and isinstance(n.ast, ast.Assign) and any(unparse(t) == rr for t in n.ast.targets)
                and unparse(n.ast.value) == "self.implicit_rule"]

    def no_rule_edge(e) -> bool:
        if not (e.label and e.label[0] == "cond"):
            return False
        x, pol = e.label[1], e.label[2]
        if unparse(x) == rr:
            return pol is False
        if isinstance(x, ast.Compare) and unparse(x.left) == rr and isinstance(x.comparators[0], ast.Constant) and x.comparators[0].value is None:
            return pol == isinstance(x.ops[0], ast.Is)
        return False

    def rule_set_edge(e) -> bool:
        """the opposite arm of the no-rule test: a deciding rule has been recorded"""
        if not (e.label and e.label[0] == "cond"):
            return False
        x, pol = e.label[1], e.label[2]
        if unparse(x) == rr:
            return pol is True
        if isinstance(x, ast.Compare) and unparse(x.left) == rr and isinstance(x.comparators[0], ast.Constant) and x.comparators[0].value is None:
            return pol != isinstance(x.ops[0], ast.Is)
        return False

    is_match = lambda e: any(e is me for me in match_edges)  # noqa: E731
    # (1) only when no rule matched: after a match edge the implicit stores are out of reach (the no-rule arm of a test on the
    #     recorded rule cannot be taken there: the rule was just recorded).  (2) always when no rule matched: a path that takes no
    #     match edge (so the recorded rule is still None and the rule-set arm cannot be taken) cannot reach the exit around them.
    #     Written this way the `if not rule:` form and the `for ... else:` form are the same thing.
    ok_imp = bool(imp) and bool(imp_rule) and all(
        g.path_avoiding(imp + imp_rule, no_rule_edge, start=me.dst) is None for me in match_edges)
    imp_ids = {x.id for x in imp}
    unavoidable = g.path_avoiding([g.exit], lambda e: is_match(e) or rule_set_edge(e), blocked_nodes=imp_ids | {x.id for x in early}) is None
    ctx.record("R7.1", ctx.key(fn, "implicit action exactly when no rule matched"), fn.loc(), ok_imp and unavoidable,
               "implicit verdict/rule are stored on, and only on, the no-match edge" if ok_imp and unavoidable else
               "implicit action is not tied to the no-match case")
    if imp:
        v = imp[0].ast.value
        tbl = []
        for ia in ("PERMIT", "DENY"):
            r = Evaluator({"self.implicit_action": ia, "ACLAction.PERMIT": "PERMIT", "ACLAction.DENY": "DENY"}).ev(v)
            tbl.append((ia, r))
        okt = all(r is not UNKNOWN and bool(r) == (ia == "PERMIT") for ia, r in tbl)
        ctx.record("R7.1", ctx.key(fn, "implicit verdict = (implicit_action == PERMIT)"), fn.loc(imp[0].ast), okt, f"table {tbl}")
    # the two results have no other source: the deciding rule is the rule under the scan or the implicit rule, the verdict is what
    # that rule's own check said or the implicit action (a remembered verdict, a verdict recomputed from the rule's action ... are
    # not the first-match verdict of *this* evaluation)
    foreign = []
    for v, i, st in ld.defs.get(rr, []):
        if v is None or (isinstance(v, ast.Constant) and v.value is None) or unparse(v) in (lv, "self.implicit_rule"):
            continue
        foreign.append(f"L{getattr(st, 'lineno', 0)}: {rr} = {unparse(v)[:50]}")
    for v, i, st in ld.defs.get(pvar, []):
        if v is None or (isinstance(v, ast.Constant) and v.value is False) or (i is not None and isinstance(v, ast.Call) and call_name(v) == "permit_frame_check") \
                or "implicit_action" in unparse(v):
            continue
        foreign.append(f"L{getattr(st, 'lineno', 0)}: {pvar} = {unparse(v)[:50]}")
    ctx.record("R7.1", ctx.key(fn, "verdict and deciding rule come only from the scan or the implicit rule"), fn.loc(), not foreign,
               f"`{pvar}` and `{rr}` are bound by the scan, the implicit rule and their initialisation only" if not foreign else
               "another source decides: " + "; ".join(foreign[:3]))
    init_none = [v for v, i, _ in ld.defs.get(rr, []) if isinstance(v, ast.Constant) and v.value is None]
    ctx.record("R7.1", ctx.key(fn, "no deciding rule before the scan"), fn.loc(), bool(init_none) or same_var,
               f"`{rr}` starts as None" if init_none else f"`{rr}` is the loop variable: nothing is recorded before the scan")
    incs = [n for n in g.nodes if n.kind == "stmt" and isinstance(n.ast, ast.AugAssign) and unparse(n.ast.target).endswith("match_count")]
    lo, hi = g.count_range(lambda n: n in incs)

    def counts_the_returned_rule(n: CNode) -> bool:
        recv = unparse(n.ast.target.value)
        if recv == rr:
            return True
        # an increment on a path that ends in an early return: the rule counted must be the rule that return hands back
        reached = [r for r in early + rets if g.path_avoiding([r], lambda e: False, start=n) is not None]
        return bool(reached) and all(r in early and unparse(r.ast.value.elts[1]) == recv for r in reached)

    ok_inc = (lo, hi) == (1, 1) and all(counts_the_returned_rule(n) and isinstance(n.ast.op, ast.Add)
                                        and isinstance(n.ast.value, ast.Constant) and n.ast.value.value == 1 for n in incs)
    ctx.record("R7.1", ctx.key(fn, "match_count += 1 exactly once on the deciding rule"), fn.loc(), ok_inc,
               f"{[unparse(n.ast) for n in incs]} executed {lo}..{hi} times per verdict")


def _eval_rule(fn: FuncInfo, g: CFG, env: Dict[str, object]):
    ev = Evaluator(env, None)
    out, node, tr = walk(g, ev)
    if out == "unknown":
        raise AnalysisError(f"R7.2: cannot evaluate {unparse(node.ast)[:70]} in permit_frame_check")
    if out != "return":
        return None
    v = ev.ev(node.ast.value)
    if v is UNKNOWN:
        raise AnalysisError(f"R7.2: cannot evaluate return value {unparse(node.ast.value)}")
    return v


def r7_2(ctx: Ctx) -> None:
    ix = ctx.ix
    ctx.rule("R7.2", "every specified field is consulted; an unspecified field matches anything (truth table)")
    fn = ix.method("ACLRule.permit_frame_check")
    g = CFG(fn.node)
    stores = [n for n in ast.walk(fn.node) if isinstance(n, (ast.Assign, ast.AugAssign)) and any(
        not isinstance(t, ast.Name) for t in (n.targets if isinstance(n, ast.Assign) else [n.target]))]
    ctx.record("R7.2", ctx.key(fn, "pure"), fn.loc(), not stores, "no stores to the rule or the frame")
    masked = [c for c in calls_in(fn.node) if call_name(c) == "ip_matches_masked_range"]
    base = {
        "self.protocol": None, "self.src_ip_address": None, "self.src_wildcard_mask": None, "self.dst_ip_address": None,
        "self.dst_wildcard_mask": None, "self.src_port": None, "self.dst_port": None,
        "frame.ip.protocol": "tcp", "frame.ip.src_ip_address": "10.0.0.1", "frame.ip.dst_ip_address": "10.0.0.2",
        "frame.tcp": "TCPHDR", "frame.udp": None, "frame.tcp.src_port": 1111, "frame.tcp.dst_port": 80,
        "ACLAction.PERMIT": "PERMIT", "ACLAction.DENY": "DENY",
    }
    for c in masked:
        base[unparse(c)] = False
    cases: List[Tuple[str, Dict[str, object], Tuple[bool, bool]]] = []
    for act in ("PERMIT", "DENY"):
        cases.append((f"all fields unspecified, action {act}", {"self.action": act}, (act == "PERMIT", True)))
    spec = {"protocol": ("self.protocol", "tcp", "udp"), "src address": ("self.src_ip_address", "10.0.0.1", "10.9.9.9"),
            "dst address": ("self.dst_ip_address", "10.0.0.2", "10.9.9.9"), "src port": ("self.src_port", 1111, 2222),
            "dst port": ("self.dst_port", 80, 443)}
    for name, (key, same, other) in spec.items():
        cases.append((f"{name} specified and equal", {"self.action": "PERMIT", key: same}, (True, True)))
        cases.append((f"{name} specified and different", {"self.action": "PERMIT", key: other}, (False, False)))
        cases.append((f"{name} specified and equal, DENY rule", {"self.action": "DENY", key: same}, (False, True)))
    # UDP frame: ports are read from the UDP header
    cases.append(("dst port on a UDP frame", {"self.action": "PERMIT", "self.dst_port": 53, "frame.tcp": None, "frame.udp": "UDPHDR",
                                              "frame.udp.src_port": 5, "frame.udp.dst_port": 53, "frame.ip.protocol": "udp"}, (True, True)))
    for pk in ("self.dst_port", "self.src_port"):
        cases.append((f"{pk[5:]} rule on a frame without ports", {"self.action": "PERMIT", pk: 53, "frame.tcp": None, "frame.udp": None,
                                                                 "frame.ip.protocol": "icmp"}, (False, False)))
        cases.append((f"{pk[5:]} DENY rule on a frame without ports", {"self.action": "DENY", pk: 53, "frame.tcp": None, "frame.udp": None,
                                                                      "frame.ip.protocol": "icmp"}, (False, False)))
    cases.append(("src port on a UDP frame", {"self.action": "PERMIT", "self.src_port": 5, "frame.tcp": None, "frame.udp": "UDPHDR",
                                              "frame.udp.src_port": 5, "frame.udp.dst_port": 53, "frame.ip.protocol": "udp"}, (True, True)))
    cases.append(("src port on a UDP frame, other port", {"self.action": "PERMIT", "self.src_port": 6, "frame.tcp": None, "frame.udp": "UDPHDR",
                                                          "frame.udp.src_port": 5, "frame.udp.dst_port": 6, "frame.ip.protocol": "udp"}, (False, False)))
    # masked ranges: the helper's answer decides
    for side in ("src", "dst"):
        for ans in (True, False):
            env = {"self.action": "PERMIT", f"self.{side}_ip_address": "10.0.0.0", f"self.{side}_wildcard_mask": "0.0.0.255"}
            for c in masked:
                if f"{side}_ip_address" in unparse(c):
                    env[unparse(c)] = ans
            cases.append((f"{side} masked range answers {ans}", env, (ans, ans)))
    bad = []
    for name, delta, want in cases:
        env = dict(base)
        env.update(delta)
        got = _eval_rule(fn, g, env)
        if not (isinstance(got, tuple) and len(got) == 2 and (bool(got[0]), bool(got[1])) == want):
            bad.append(f"{name}: (permitted, matches) = {got}, expected {want}")
    ctx.record("R7.2", ctx.key(fn, "field-by-field truth table"), fn.loc(), not bad,
               f"{len(cases)} cases agree with 'all specified fields equal => match; permitted = match and action == PERMIT'"
               if not bad else "permit_frame_check deviates from the matching rule", bad[:8])
    ctx.floor("R7.2", "masked-range helper calls", len(masked), 2)
    for c in masked:
        side = "src" if "src_ip_address" in unparse(c) else "dst"
        kws = {k.arg: unparse(k.value) for k in c.keywords}
        want = {"ip_to_check": f"frame.ip.{side}_ip_address", "base_ip": f"self.{side}_ip_address", "wildcard_mask": f"self.{side}_wildcard_mask"}
        ctx.record("R7.2", ctx.key(fn, f"{side} masked range uses the {side} address, base and mask"), fn.loc(c), kws == want, f"{kws}")


def r7_3(ctx: Ctx) -> None:
    ix = ctx.ix
    ctx.rule("R7.3", "add_rule/remove_rule store only self._acl[position]; the bounds test admits exactly the valid "
                     "indices of the list")
    init = ix.method("AccessControlList.__init__")
    size_expr = None
    for n in ast.walk(init.node):
        if isinstance(n, ast.Assign) and any(unparse(t) == "self._acl" for t in n.targets) and isinstance(n.value, ast.BinOp):
            size_expr = n.value.right if isinstance(n.value.left, ast.List) else n.value.left
    if size_expr is None:
        raise AnalysisError("R7.3: cannot find the size of self._acl in AccessControlList.__init__")
    M = 5
    length = Evaluator({"self.max_acl_rules": M}).ev(size_expr)
    if length is UNKNOWN:
        raise AnalysisError(f"R7.3: list length {unparse(size_expr)} is not a function of max_acl_rules")
    for mname, stored_none in (("add_rule", False), ("remove_rule", True)):
        fn = ix.method(f"AccessControlList.{mname}")
        g = CFG(fn.node)
        stores = [n for n in g.nodes if n.kind == "stmt" and isinstance(n.ast, ast.Assign) and any(
            isinstance(t, ast.Subscript) and unparse(t.value) == "self._acl" for t in n.ast.targets)]
        other = [n for n in g.nodes if any(isinstance(c.func, ast.Attribute) and unparse(c.func.value) == "self._acl" and c.func.attr in
                                           ("insert", "pop", "append", "remove", "sort", "reverse", "clear", "extend") for c in node_calls(n))]
        ok = len(stores) == 1 and not other and unparse(stores[0].ast.targets[0].slice) == "position"
        ctx.record("R7.3", ctx.key(fn, "only the addressed position is written"), fn.loc(), ok,
                   f"stores {[unparse(s.ast.targets[0]) for s in stores]}, list-shifting calls {len(other)}")
        if not stores:
            continue
        bad = []
        for pos in (-1, 0, length - 1, length, length + 1):
            ev = Evaluator({"position": pos, "self.max_acl_rules": M, "len(self._acl)": length, "self._acl[position]": None}, LocalDefs(fn.node))
            # follow conditions until the store or an exit
            cur = g.entry
            reached = False
            for _ in range(200):
                if cur is stores[0]:
                    reached = True
                    break
                succ = [e for e in g.succ[cur.id] if not (e.label and e.label[0] == "exc")]
                if not succ:
                    break
                if cur.kind == "cond":
                    v = ev.ev(cur.ast)
                    if v is UNKNOWN:
                        raise AnalysisError(f"R7.3: cannot evaluate {unparse(cur.ast)[:60]} in {mname}")
                    succ = [e for e in succ if e.label and e.label[2] == bool(v)]
                    if not succ:
                        break
                cur = succ[0].dst
            want = 0 <= pos < length
            if reached != want:
                bad.append(f"position {pos} with a list of {length} slots: store reached={reached}, valid index={want}")
        ctx.record("R7.3", ctx.key(fn, "bounds test admits exactly the valid indices"), fn.loc(), not bad,
                   f"positions -1, 0, {length - 1}, {length}, {length + 1} (list length {length} = {unparse(size_expr)} with max_acl_rules={M})"
                   if not bad else "an out-of-range position reaches the list store (IndexError) or a valid one is refused", bad)
        if mname == "add_rule":
            # adding over an occupied slot *replaces* the rule: the slot receives a rule object built from all the arguments of this
            # call (unspecified ones = None = match anything); the old object is not edited field by field
            ldf = LocalDefs(fn.node)
            fields = [a.arg for a in fn.node.args.args[1:] + fn.node.args.kwonlyargs if a.arg != "position"]
            v = ldf.expand(stores[0].ast.value)
            built = isinstance(v, ast.Call) and call_name(v) == "ACLRule" and all(
                any(k.arg == fld and any(isinstance(x, ast.Name) and x.id == fld for x in ast.walk(k.value)) for k in v.keywords) for fld in fields)
            ctx.record("R7.3", ctx.key(fn, "the slot receives a rule built from all arguments of the call"), fn.loc(stores[0].ast), built,
                       f"self._acl[position] = {unparse(v)[:80]}" if built else
                       f"the stored value `{unparse(v)[:80]}` is not an ACLRule built from every argument ({fields})")
            # occupied slot: the store is still reached for every valid position
            ev = Evaluator({"position": 0, "self.max_acl_rules": M, "len(self._acl)": length, "self._acl[position]": "OLD"}, ldf)
            out, node, _tr = walk(g, ev)
            reached_occ = stores[0].id in getattr(ev, "visited", [])
            edits = [f"line {x.lineno}: {unparse(x)[:60]}" for x in ast.walk(fn.node) if (isinstance(x, ast.Call) and isinstance(x.func, ast.Name) and x.func.id == "setattr")
                     or (isinstance(x, (ast.Assign, ast.AugAssign)) and any(isinstance(t, ast.Attribute) and not (isinstance(t.value, ast.Name) and t.value.id == "self")
                                                                            for t in (x.targets if isinstance(x, ast.Assign) else [x.target])))]
            ctx.record("R7.3", ctx.key(fn, "an occupied position is overwritten, not merged"), fn.loc(), reached_occ and not edits,
                       "with the slot occupied the same store is reached and no existing rule object is edited" if reached_occ and not edits else
                       "adding a rule at an occupied position does not replace the rule: criteria of the old rule survive (a field the new rule "
                       "leaves unspecified keeps the old value), so later verdicts follow a rule nobody declared", edits[:3])


def r7_4(ctx: Ctx) -> None:
    ix = ctx.ix
    ctx.rule("R7.4", "the request front end, the action front end and the scenario-file front ends agree")
    irm = ix.method("AccessControlList._init_request_manager")
    add = [c for c in calls_in(irm.node) if call_name(c) == "add_rule"]
    lam_calls = [c for n in ast.walk(irm.node) if isinstance(n, ast.Lambda) for c in ast.walk(n.body) if isinstance(c, ast.Call) and call_name(c) == "add_rule"]
    req_param = "request"
    if len(lam_calls) != 1:
        # the handler may be a named method registered as `RequestType(func=self._handler)`
        lam_calls = []
        for reg in calls_in(irm.node):
            if call_name(reg) == "add_request" and reg.args and isinstance(reg.args[0], ast.Constant) and reg.args[0].value == "add_rule":
                for rt in ast.walk(reg):
                    if isinstance(rt, ast.Call) and call_name(rt) == "RequestType":
                        fv = kwarg(rt, "func", 0)
                        if isinstance(fv, ast.Attribute) and isinstance(fv.value, ast.Name) and fv.value.id == "self":
                            h = ix.find_method(ix.cls("AccessControlList"), fv.attr)
                            if h is not None and not isinstance(h.node, ast.Lambda):
                                lam_calls = [c for c in ast.walk(h.node) if isinstance(c, ast.Call) and call_name(c) == "add_rule"]
                                ps = [a.arg for a in h.node.args.args if a.arg != "self"]
                                req_param = ps[0] if ps else "request"
    if len(lam_calls) != 1:
        raise AnalysisError("R7.4: add_rule request handler (lambda or named method) not found")
    hc = lam_calls[0]
    idx_of: Dict[str, int] = {}
    sentinel_of: Dict[str, Optional[str]] = {}
    for kw in hc.keywords:
        idxs = sorted({s.slice.value for s in ast.walk(kw.value) if isinstance(s, ast.Subscript) and unparse(s.value) == req_param
                       and isinstance(s.slice, ast.Constant)})
        if len(idxs) != 1:
            raise AnalysisError(f"R7.4: keyword {kw.arg} of the add_rule handler reads request indices {idxs}")
        idx_of[kw.arg] = idxs[0]
        sent = None
        if isinstance(kw.value, ast.IfExp) and isinstance(kw.value.test, ast.Compare) and isinstance(kw.value.test.comparators[0], ast.Constant) \
                and isinstance(kw.value.body, ast.Constant) and kw.value.body.value is None:
            sent = kw.value.test.comparators[0].value
        sentinel_of[kw.arg] = sent
    sig = ix.method("AccessControlList.add_rule")
    params = [a.arg for a in sig.node.args.args[1:]]
    ctx.record("R7.4", ctx.key(irm, "handler passes every add_rule parameter"), irm.loc(), set(idx_of) == set(params),
               f"handler keywords {sorted(idx_of)}; add_rule parameters {sorted(params)}")
    for aname in ("RouterACLAddRuleAction", "FirewallACLAddRuleAction"):
        ac = ix.cls(aname)
        form = ix.find_method(ac, "form_request")
        rets = [n for n in ast.walk(form.node) if isinstance(n, ast.Return) and isinstance(n.value, ast.List)]
        if len(rets) != 1:
            raise AnalysisError(f"R7.4: {aname}.form_request is not a single list literal")
        elts = rets[0].value.elts
        try:
            k = next(i for i, e in enumerate(elts) if isinstance(e, ast.Constant) and e.value == "add_rule")
        except StopIteration:
            raise AnalysisError(f"R7.4: 'add_rule' not in {aname}.form_request")
        params_sent = elts[k + 1:]
        bad = []
        cfg = ix.cls(f"ACLAddRuleAbstractAction.ConfigSchema")
        for i, e in enumerate(params_sent):
            names = [n.attr for n in ast.walk(e) if isinstance(n, ast.Attribute) and isinstance(n.value, ast.Name) and n.value.id == "config"]
            if len(names) != 1 or names[0] not in SYNONYMS:
                bad.append(f"parameter {i}: {unparse(e)} is not a known rule field")
                continue
            kwn = SYNONYMS[names[0]]
            if idx_of.get(kwn) != i:
                bad.append(f"parameter {i} carries {names[0]} but the handler reads request[{idx_of.get(kwn)}] as {kwn}"
                           f" (request[{i}] is read as {[k2 for k2, v in idx_of.items() if v == i]})")
            # sentinel agreement
            fld = cfg.fields.get(names[0])
            lits = sorted({c.value for c in ast.walk(fld.ann) if isinstance(c, ast.Constant) and isinstance(c.value, str)}) if fld and fld.ann is not None else []
            lits = [l for l in lits if l in ("ALL", "NONE")]
            hs = sentinel_of.get(kwn)
            if (lits or hs) and lits != ([hs] if hs else []):
                bad.append(f"{names[0]}: action allows sentinel {lits} but the handler maps {hs!r} to 'unspecified'")
        if len(params_sent) != len(idx_of):
            bad.append(f"{len(params_sent)} parameters sent, handler reads {len(idx_of)}")
        ctx.record("R7.4", ctx.key(form, "parameter order and sentinels match the add_rule handler"), form.loc(), not bad,
                   "each position carries the field the handler reads there; 'ALL'/'NONE' sentinels agree" if not bad else
                   "action and handler disagree", bad[:6])
    # from-config parsers
    sites = []
    for spec in ("Router.from_config", "Firewall.from_config"):
        f = ix.method(spec)
        for loop in [n for n in ast.walk(f.node) if isinstance(n, ast.For)]:
            for c in [c for b in loop.body for c in calls_in(b) if call_name(c) == "add_rule"]:
                sites.append((f, loop, c))
    ctx.floor("R7.4", "scenario-file ACL parsers", len(sites), 7)
    norm: List[Tuple[str, Dict[str, str]]] = []
    for f, loop, c in sites:
        if not (isinstance(loop.target, ast.Tuple) and len(loop.target.elts) == 2):
            raise AnalysisError(f"R7.4: ACL loop in {f.short} does not unpack (position, rule config)")
        kvar, cvar = (unparse(e) for e in loop.target.elts)
        # what each rule field is built from, independent of spelling: the config keys read (locals expanded), the look-up tables
        # indexed, whether an absent value maps to None, and whether it is the loop key itself
        from .c20 import _expand_deep
        ldf = LocalDefs(f.node)
        m: Dict[str, str] = {}
        for kw in c.keywords:
            ex = _expand_deep(ldf, kw.value)
            if unparse(ex) == kvar:
                m[kw.arg] = "KEY"
                continue
            keys = sorted({x.value for x in ast.walk(ex) if isinstance(x, ast.Constant) and isinstance(x.value, str)})
            tables = sorted({x.value.id for x in ast.walk(ex) if isinstance(x, ast.Subscript) and isinstance(x.value, ast.Name) and x.value.id.isupper()}
                            | {x.value.id for x in ast.walk(ex) if isinstance(x, ast.Subscript) and isinstance(x.value, ast.Name) and x.value.id[:1].isupper()
                               and x.value.id != cvar})
            none = any(isinstance(x, ast.Constant) and x.value is None for x in ast.walk(ex))
            from_cfg = any(isinstance(x, ast.Name) and x.id == cvar for x in ast.walk(ex))
            m[kw.arg] = f"keys={keys} tables={tables} none_if_absent={none} from_entry={from_cfg}"
        acl_recv = unparse(c.func.value)
        src = unparse(loop.iter)
        norm.append((f"{f.short}:{acl_recv}", m))
        okpos = m.get("position") == "KEY"
        ctx.record("R7.4", ctx.key(f, f"{acl_recv}: mapping key is the rule position"), f.loc(c), okpos, f"position={m.get('position')}")
        # the list written is the one the config key names
        attr = acl_recv.split(".")[-1]
        okname = attr in src or (attr == "acl" and "acl" in src)
        ctx.record("R7.4", ctx.key(f, f"{acl_recv}: rules come from the config entry of the same name"), f.loc(c), okname, f"iterates {src}")
    ref = norm[0][1]
    for name, m in norm[1:]:
        diff = {k: (ref.get(k), m.get(k)) for k in set(ref) | set(m) if ref.get(k) != m.get(k)}
        ctx.record("R7.4", f"src/primaite/simulator/network/hardware/nodes/network::{name}::same key->keyword map as {norm[0][0]}",
                   "", not diff, "identical parsing of a rule entry" if not diff else f"parsers disagree on {diff}")
    for k in ("src_ip_address", "dst_ip_address", "src_wildcard_mask", "dst_wildcard_mask", "src_port", "dst_port", "protocol", "action"):
        ctx.record("R7.4", f"src/primaite/simulator/network/hardware/nodes/network/router.py::Router.from_config::rule field {k} is read from the file",
                   "", k in ref, f"{k} <- {ref.get(k)}")


def r7_5(ctx: Ctx) -> None:
    """Wildcard matching decided per bit: the expression must be bit-parallel, then a 1-bit truth table is exact."""
    ix = ctx.ix
    ctx.rule("R7.5", "ip_matches_masked_range is a bit-parallel expression whose per-bit table is: match <=> wildcard bit "
                     "set or (address bit == base bit) - exact for 32-bit words because every operator acts bit by bit")
    f = ix.module_func("primaite.simulator.network.hardware.nodes.network.router", "ip_matches_masked_range")
    params = [a.arg for a in f.node.args.args]
    if len(params) != 3:
        raise AnalysisError("R7.5: ip_matches_masked_range no longer takes (ip_to_check, base_ip, wildcard_mask)")
    ld = LocalDefs(f.node)
    rets = [r for r in ast.walk(f.node) if isinstance(r, ast.Return) and r.value is not None]
    if len(rets) != 1:
        raise AnalysisError("R7.5: expected a single return expression")

    # inline the single-assignment locals to obtain one expression over the three parameters
    import copy

    class Inline(ast.NodeTransformer):
        def visit_Name(self, node):  # noqa: N802
            if isinstance(node.ctx, ast.Load) and node.id not in params:
                d = ld.single(node.id)
                if d and d[0] is not None and d[1] is None:
                    return self.visit(copy.deepcopy(d[0]))
            return node

    expr = Inline().visit(copy.deepcopy(rets[0].value))
    allowed = (ast.BinOp, ast.BitAnd, ast.BitOr, ast.BitXor, ast.UnaryOp, ast.Invert, ast.Not, ast.Compare, ast.Eq, ast.NotEq,
               ast.Name, ast.Load, ast.Call, ast.BoolOp, ast.And, ast.Or)
    # comparing with the constant 0 is bit-parallel too ("all bits zero" = every bit zero)
    bad_nodes = [type(n).__name__ for n in ast.walk(expr) if not isinstance(n, allowed)
                 and not (isinstance(n, ast.Constant) and n.value == 0 and type(n.value) is int)]
    calls = [n for n in ast.walk(expr) if isinstance(n, ast.Call)]
    ip_p, base_p, wild_p = params
    if bad_nodes or any(not (isinstance(c.func, ast.Name) and c.func.id == "int" and len(c.args) == 1) for c in calls):
        # Not bit-parallel: the per-bit argument does not apply.  The expression is still integer arithmetic over the three
        # words, so it can be *refuted* by evaluating the syntax tree (our evaluator, nothing of PrimAITE runs) on 32-bit
        # words built from a few bit patterns per octet; a disagreement with "ignore the wildcard bits" at real width is a
        # counterexample.  Without one the form stays undecided (exit 2) - sampled agreement proves nothing.
        octets = (0, 1, 2, 128, 254, 255)
        words = sorted({(a << 24) | (b << 16) | (c << 8) | d for a in (0, 192) for b in (0, 255) for c in octets for d in octets})
        masks = sorted({(a << 24) | (b << 16) | (c << 8) | d for a in (0, 255) for b in (0, 255) for c in (0, 1, 254, 255) for d in (0, 1, 254, 255)})
        cex = None
        for w in masks:
            for base in words[:40]:
                for ip in (base, base ^ 1, base ^ 256, base ^ 0x10000, base ^ 0x01000000, base ^ 0x80, base ^ 0xFE, base ^ 0x0100FE):
                    ip &= 0xFFFFFFFF
                    env = {f"int({ip_p})": ip, f"int({base_p})": base, f"int({wild_p})": w, ip_p: ip, base_p: base, wild_p: w}
                    v = Evaluator(env).ev(expr)
                    if v is UNKNOWN:
                        raise AnalysisError(f"R7.5: the masked-range test is not bit-parallel (uses {sorted(set(bad_nodes))[:4]}) and "
                                            "cannot be evaluated on words either - this clause cannot be decided statically for this form")
                    want = (ip & ~w & 0xFFFFFFFF) == (base & ~w & 0xFFFFFFFF)
                    if bool(v) != want:
                        cex = (ip, base, w, bool(v), want)
                        break
                if cex:
                    break
            if cex:
                break
        if cex is None:
            raise AnalysisError(f"R7.5: the masked-range test is not bit-parallel (uses {sorted(set(bad_nodes))[:4]}): the per-bit "
                                "argument does not apply and no counterexample was found on the sampled words - this clause cannot "
                                "be decided statically for this form")
        from ipaddress import IPv4Address as _A
        ctx.fail("R7.5", ctx.key(f, "per-bit table of the wildcard match"), f.loc(),
                 "wildcard matching differs from 'ignore the bits set in the mask'",
                 [f"`{unparse(expr)[:100]}`", f"address {_A(cex[0])}, base {_A(cex[1])}, wildcard {_A(cex[2])}: matches={cex[3]}, expected {cex[4]} "
                  "(word-level evaluation of the expression)"])
        return
    bad = []
    for ip_b, base_b, wild_b in itertools.product((0, 1), repeat=3):
        env = {f"int({ip_p})": ip_b, f"int({base_p})": base_b, f"int({wild_p})": wild_b, ip_p: ip_b, base_p: base_b, wild_p: wild_b}
        v = Evaluator(env).ev(expr)
        if v is UNKNOWN:
            raise AnalysisError("R7.5: cannot evaluate the masked-range expression")
        want = bool(wild_b) or ip_b == base_b
        if bool(v) != want:
            bad.append(f"address bit {ip_b}, base bit {base_b}, wildcard bit {wild_b}: matches={bool(v)}, expected {want}")
    ctx.record("R7.5", ctx.key(f, "per-bit table of the wildcard match"), f.loc(), not bad,
               f"`{unparse(expr)[:90]}`: 8-row per-bit table holds" if not bad else "wildcard matching differs from 'ignore the bits set in the mask'", bad)


# who may change the content of an access control list (add_rule / remove_rule / stores into the rule array), one reason each
ACL_WRITERS = {
    "AccessControlList.add_rule": "the mutator itself",
    "AccessControlList.remove_rule": "the mutator itself",
    "AccessControlList.__init__": "construction: the empty rule array and the implicit rule",
    "AccessControlList.model_post_init": "construction",
    "AccessControlList._init_request_manager": "the add_rule / remove_rule requests",
    "Router.__init__": "construction: built-in ARP / ICMP permits (via _set_default_acl)",
    "Router._set_default_acl": "the built-in permits, installed once at construction",
    "Router.from_config": "scenario loader",
    "Firewall.from_config": "scenario loader",
    "Firewall.__init__": "construction of the six lists with their built-in permits",
    "Firewall._set_default_acl": "built-in permits at construction",
    "WirelessRouter.from_config": "scenario loader",
    "Router._init_request_manager": "request wiring",
    "arcd_uc2_network": "example-network builder (module networks.py): builds a network in code instead of from a file",
    "client_server_routed": "example-network builder (module networks.py)",
    "OfficeLANAdder.add_nodes_to_net": "node-set builder used by the scenario loader",
}


def r7_7(ctx: Ctx) -> None:
    """"Adding or removing a rule changes only the addressed position" also needs that nothing else changes the list behind the
    agent's back: the rule array is written only by the two mutators, and the mutators are called only by the requests, the scenario
    loaders and construction (a frozen who-may-call table; a caller outside it - an episode set-up hook, a tick - rewrites positions
    the scenario or the agent filled)."""
    from ..inventory import call_sites, only_called_from
    ix = ctx.ix
    ctx.rule("R7.7", "who may change an ACL: add_rule / remove_rule are called only by the requests, the scenario loaders and construction")
    n = 0
    acl = ix.cls("AccessControlList")
    # a named method registered as the handler of a request (`RequestType(func=self.<name>)` inside a listed request-wiring function)
    # is the request, like the lambdas it replaces
    handlers: Set[str] = set()
    for f_ in ix.all_functions():
        if isinstance(f_.node, ast.Lambda) or f_.short not in ACL_WRITERS or not f_.name.endswith("_init_request_manager"):
            continue
        for rt in ast.walk(f_.node):
            if isinstance(rt, ast.Call) and call_name(rt) == "RequestType":
                fv = kwarg(rt, "func", 0)
                if isinstance(fv, ast.Attribute) and isinstance(fv.value, ast.Name) and fv.value.id == "self" and f_.cls is not None:
                    handlers.add(f"{f_.cls.short}.{fv.attr}")
    for cs in call_sites(ix, ["add_rule", "remove_rule", "_set_default_acl"]):
        if cs.fn is None or not cs.path.startswith("src/primaite/simulator/"):
            continue
        n += 1
        ok = cs.owner in ACL_WRITERS or cs.owner in handlers or bool(only_called_from(ix, cs.fn, ACL_WRITERS)) \
            or cs.in_lambda and cs.owner.endswith("_init_request_manager")
        ctx.record("R7.7", f"{cs.path}::{cs.owner}::calls {unparse(cs.call.func)[:50]}", cs.where, ok,
                   ACL_WRITERS.get(cs.owner, "inside a function that only the listed writers call") if ok else
                   "the content of an access control list is changed outside the requests, the loaders and construction")
    ctx.floor("R7.7", "ACL mutator call sites in the simulator", n, 8)


def check(ctx: Ctx) -> None:
    r7_5(ctx)
    r7_1(ctx)
    r7_2(ctx)
    r7_3(ctx)
    r7_4(ctx)
    r7_7(ctx)
    from .common import falsy_numeric
    falsy_numeric(ctx, "R7.6", r"position", "ACL positions (position 0 is the first rule)")
