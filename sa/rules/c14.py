"""C14 - visible health changes only by scanning; fixes and scans take their set time (DESIGN.md section 3, C14)."""
from __future__ import annotations

import ast
from typing import Dict, List, Optional, Sequence, Set, Tuple

from ..astutil import call_name, calls_in, kwarg, store_targets, unparse
from ..cfg import CFG, CNode, Edge, LocalDefs, path_text
from ..index import AnalysisError, ClassInfo, Index
from ..inventory import only_called_from, call_sites, recv_class, stores_to_attr
from ..report import Ctx
from ..stateflow import state_flow, store_of_field
from .common import edge_state_set, enum_member, node_calls, nodes_calling

EXPLANATION = (
    "Static analysis (whole-repo store / call inventories, per-function CFG with guard edges, reaching definitions of "
    "locals) of the health bookkeeping of software, files and folders. Decided: R14.1 the only writers of the visible "
    "health fields (health_state_visible, visible_health_status) are the scan functions and the database restore that "
    "carries the old visible value over, and the only callers of a scan are the scan requests and the scan-completion "
    "functions; instant scans are started only when the node scan countdown has run out; R14.2 Software.scan and "
    "File.scan store the same object's true-health field, the folder writers sit past the scan-completed edge "
    "(countdown elapsed, resp. the instant flag) after the folder's files were scanned, and restore_backup writes only a "
    "value read from a visible field; R14.3 the only writers of true health (health_state_actual, health_status) and "
    "the only callers of Software.set_health_state are the explicit-event functions of a frozen table; R14.4 each "
    "countdown is loaded only from its own duration in its start function, ticked only in its timestep function; fix "
    "is accepted only from COMPROMISED/GOOD and enters FIXING together with loading the countdown; fix completion "
    "(countdown elapsed edge) sets GOOD; Software.apply_timestep runs the fix countdown exactly when FIXING and every "
    "override along the Software hierarchy (apply_timestep, _update_fix_status) calls super() on every path; the node "
    "scan fans out to processes, services, applications and the file system only on the elapsed edge; R14.6 (a) *_duration "
    "values travel through like-named hops and the `is not None` guard tests the setting that is stored, (b) a countdown "
    "whose completion is tested with `== 0` after the decrement is armed only with values provably >= 1 (max(duration, 1)) - "
    "armed with a configured 0 it never completes -, (c) the completed node scan scans every process, service and application "
    "unconditionally. R14.7 the numeric settings this property depends on are never tested by truthiness (`x or default`, `if x:`) - 0 is a legal value for them. "
    "R14.3 also: the health-conditional cures (add_connection -> GOOD, first start/run -> GOOD) are reached only with the true health known "
    "to be the condition they cure (OVERWHELMED, UNUSED; enum-state dataflow). "
    "NOT decided: "
    "'exactly N ticks' (counter arithmetic, including durations 0 and 1); what happens to a running fix when another "
    "event (compromise, overwhelm, web request) overwrites FIXING (needs a reference model); File(**model_dump()) in "
    "FileSystem.copy_file copies both health fields of the source into the new object (construction, not a store)."
)
TECHNIQUE = "static: who-may-write inventories for visible/true health, def-use of scan copies, countdown source checks, CFG must-pass on completion edges"
ASSUMPTIONS = [
    "no setattr/exec/keyword-constructor writes to the health fields (census: none in analysed scope; keyword sites are counted)",
    "pydantic assigns field defaults at construction only",
    "class-hierarchy analysis over-approximates dynamic dispatch",
]

VISIBLE_ATTRS = ["health_state_visible", "visible_health_status"]
TRUE_ATTRS = ["health_state_actual", "health_status"]

# R14.1: writer function -> reason
VISIBLE_WRITERS = {
    "Software.scan": "a software scan copies actual -> visible",
    "File.scan": "a file scan copies health_status -> visible_health_status",
    "Folder._scan_timestep": "completion of a timed folder scan",
    "Folder.scan": "instant scan (node-wide scan fan-out): the folder shows CORRUPT when a just-scanned file is visibly corrupt",
    "DatabaseService.restore_backup": "carries the previous visible value over to the replacement database file (reveals nothing new)",
}
# R14.1: who may call <x>.scan(...): caller -> reason
SCAN_CALLERS = {
    "Software._init_request_manager": "'scan' request on software",
    "Service._init_request_manager": "'scan' request on a running service",
    "Application._init_request_manager": "'scan' request on a running application",
    "FileSystemItemABC._init_request_manager": "'scan' request on a file / folder (folder: starts the timed scan)",
    "Node._init_request_manager": "'os scan' request: starts the node scan countdown",
    "Node.apply_timestep": "node scan completion fans out to processes, services, applications and the file system",
    "FileSystem.scan": "fan-out of a file-system scan to every folder",
    "Folder._scan_timestep": "timed folder scan completion scans the folder's files",
    "Folder.scan": "instant folder scan scans the folder's files",
}
# R14.3: writer function -> reason
TRUE_WRITERS = {
    "Software.__init__": "initial health from the configured starting_health_state",
    "Software.set_health_state": "the single setter used by every software health event (callers are frozen below)",
    "Application.apply_timestep": "installation completed -> GOOD",
    "File.repair": "repair request: CORRUPT -> GOOD",
    "File.corrupt": "corrupt request (attack): GOOD -> CORRUPT",
    "File.restore": "restore request: CORRUPT -> GOOD",
    "Folder._scan_timestep": "folder health is an aggregate (worst file) recomputed when a folder scan completes",
    "Folder._restoring_timestep": "timed folder restore completed -> GOOD",
    "Folder.repair": "repair request -> GOOD",
    "Folder.restore": "restore request -> RESTORING (timed)",
    "Folder.corrupt": "corrupt request (attack) -> CORRUPT",
    "FTPServiceABC._store_data": "a file received over FTP keeps the health it had at the sender",
    "DatabaseService._process_sql": "database query effects (DELETE -> COMPROMISED, ENCRYPT -> CORRUPT on file and folder)",
}
# R14.3: who may call set_health_state: caller -> reason
HEALTH_SETTER_CALLERS = {
    "Software._init_request_manager": "'compromise' request: the attack event",
    "Software.fix": "fix start -> FIXING",
    "Software._update_fix_status": "fix completion -> GOOD",
    "IOSoftware.add_connection": "connection capacity (DoS): OVERWHELMED when full, back to GOOD when there is room again",
    "Service.start": "first start of UNUSED software -> GOOD",
    "Application.run": "first run of UNUSED software -> GOOD",
    "DatabaseService.restore_backup": "database restored from backup -> GOOD",
    "WebServer._handle_get_request": "database query effect: GOOD when the users query succeeds, COMPROMISED when it fails",
}
# R14.3: health-conditional cures: caller -> (value set, the only true-health states from which it may be set).  Each of these
# events cures one specific condition; taken from any other state it would end a compromise or a fix without the fix having run.
HEALTH_SET_FROM = {
    "IOSoftware.add_connection": ("GOOD", {"OVERWHELMED"}, "room for connections again ends an OVERWHELMED condition, nothing else"),
    "Service.start": ("GOOD", {"UNUSED"}, "first start brings UNUSED software to GOOD; a restart does not cure anything"),
    "Application.run": ("GOOD", {"UNUSED"}, "first run brings UNUSED software to GOOD; a re-run does not cure anything"),
}
# R14.4: countdown -> (class, start function, duration field, receiver texts of the duration, tick function)
TIMERS = {
    "_fixing_countdown": ("Software", "Software.fix", "fixing_duration", ("self.config",), "Software._update_fix_status"),
    "scan_countdown": ("Folder", "Folder.scan", "scan_duration", ("self",), "Folder._scan_timestep"),
    "restore_countdown": ("Folder", "Folder.restore", "restore_duration", ("self",), "Folder._restoring_timestep"),
    "node_scan_countdown": ("Node", "Node.scan", "node_scan_duration", ("self.config",), "Node.apply_timestep"),
}
HEALTH = {"UNUSED", "GOOD", "FIXING", "COMPROMISED", "OVERWHELMED"}


# ===================================================================================================== helpers
def _elapsed_edge(e: Edge, field: str, ld: LocalDefs) -> bool:
    """Edge on which `self.<field>` is known to have run out (`<= 0`, `< 1`, `== 0`, not `> 0`; either operand order)."""
    if not e.label or e.label[0] != "cond":
        return False
    ex, pol = ld.expand(e.label[1]), e.label[2]
    if isinstance(ex, ast.Attribute) and ex.attr == field and unparse(ex.value) == "self":
        return pol is False  # `if not self.<field>:` - zero (or None) is falsy
    if not (isinstance(ex, ast.Compare) and len(ex.ops) == 1):
        return False
    left, op, right = ex.left, ex.ops[0], ex.comparators[0]
    swap = {ast.Lt: ast.Gt, ast.Gt: ast.Lt, ast.LtE: ast.GtE, ast.GtE: ast.LtE, ast.Eq: ast.Eq, ast.NotEq: ast.NotEq}
    if isinstance(right, ast.Attribute) and right.attr == field and isinstance(left, ast.Constant):
        if type(op) not in swap:
            return False
        left, right, op = right, left, swap[type(op)]()
    if not (isinstance(left, ast.Attribute) and left.attr == field and unparse(left.value) == "self"
            and isinstance(right, ast.Constant) and isinstance(right.value, (int, float)) and not isinstance(right.value, bool)):
        return False
    v = right.value
    true_out = (isinstance(op, ast.LtE) and v == 0) or (isinstance(op, ast.Lt) and v == 1) or (isinstance(op, ast.Eq) and v == 0)
    false_out = (isinstance(op, ast.Gt) and v == 0) or (isinstance(op, ast.GtE) and v == 1) or (isinstance(op, ast.NotEq) and v == 0)
    return (true_out and pol) or (false_out and not pol)


def _elapsed_must_pass(g: CFG, sinks: List[CNode], field: str, ld: LocalDefs, what: str) -> Optional[List[Edge]]:
    """Witness path to a sink that avoids every `<field> has run out` edge (None = every path passes one).

    A condition that mentions the countdown but cannot be put into the elapsed/not-elapsed normal form is not evidence
    of a defect: exit 2."""
    p = g.path_avoiding(sinks, lambda e: _elapsed_edge(e, field, ld))
    if p is not None:
        for n in g.nodes:
            if n.kind != "cond":
                continue
            ex = ld.expand(n.ast)
            if not any(isinstance(x, ast.Attribute) and x.attr == field for x in ast.walk(ex)):
                continue
            if any(_elapsed_edge(e, field, ld) for e in g.succ[n.id]):
                continue
            plain = isinstance(ex, ast.Compare) and len(ex.ops) == 1 and all(
                isinstance(o, ast.Constant) or (isinstance(o, ast.Attribute) and o.attr == field) for o in [ex.left] + ex.comparators)
            if not plain:  # comparisons with a literal (`>= 0`, `is None`) are understood: they are just not 'elapsed' tests
                raise AnalysisError(f"{what}: countdown test `{unparse(ex)[:60]}` is not in a recognised elapsed/not-elapsed form")
    return p


def _attr_store_nodes(g: CFG, attrs: Sequence[str]) -> List[Tuple[CNode, ast.Attribute, Optional[ast.AST]]]:
    """(node, target, value) for plain / annotated assignments `<x>.<attr> = value` in the CFG."""
    out = []
    for n in g.nodes:
        a = n.ast
        if n.kind != "stmt" or not isinstance(a, (ast.Assign, ast.AnnAssign)):
            continue
        for t in (a.targets if isinstance(a, ast.Assign) else [a.target]):
            if isinstance(t, ast.Attribute) and t.attr in attrs:
                out.append((n, t, a.value))
    return out


def _reaching_defs(g: CFG, name: str) -> Dict[int, Set[int]]:
    """node id -> ids of the CFG nodes whose assignment to local `name` may reach the *entry* of that node."""
    def defines(n: CNode) -> bool:
        a = n.ast
        if n.kind != "stmt":
            return False
        if isinstance(a, ast.Assign):
            return any(isinstance(t, ast.Name) and t.id == name for t in a.targets)
        if isinstance(a, (ast.AnnAssign, ast.AugAssign)):
            return isinstance(a.target, ast.Name) and a.target.id == name
        return False

    inset: Dict[int, Set[int]] = {n.id: set() for n in g.nodes}
    work = [g.entry.id]
    seen: Set[int] = set()
    while work:
        i = work.pop()
        n = g.nodes[i]
        out = {i} if defines(n) else set(inset[i])
        seen.add(i)
        for e in g.succ[i]:
            if not out <= inset[e.dst.id] or e.dst.id not in seen:
                inset[e.dst.id] |= out
                work.append(e.dst.id)
    return inset


def _every_path_passes(g: CFG, marks: List[CNode]) -> Optional[List[str]]:
    p = g.path_avoiding([g.exit], lambda e: False, blocked_nodes={m.id for m in marks})
    if p is None:
        return None
    return path_text(p) or ["(straight-line path: no such call at all)"]


def _is_subclass_named(ix: Index, c: Optional[ClassInfo], names: Sequence[str]) -> bool:
    return c is not None and any(k.name in names for k in ix.mro(c))


def _inline_state_aliases(fn_node: ast.AST, field: str, what: str) -> ast.AST:
    """`st = self.<field>` ... `if st == X:` -> `if self.<field> == X:` so that the shared guard normaliser sees the test.

    Only done when it is sound: the alias has a single definition and no store to the field (or call that may change it)
    can reach a use of the alias; otherwise the idiom is reported as not normalisable (exit 2).
    """
    ld = LocalDefs(fn_node)
    aliases: Dict[str, ast.AST] = {}
    for name, defs in ld.defs.items():
        vals = [v for v, idx, _ in defs if isinstance(v, ast.Attribute) and v.attr == field and idx is None]
        if not vals:
            continue
        if len(defs) != 1 or name in ld.params:
            raise AnalysisError(f"{what}: local '{name}' holds {field} but has several definitions - cannot normalise the guards")
        aliases[name] = vals[0]
    if not aliases:
        return fn_node
    g = CFG(fn_node)
    uses = [n for n in g.nodes if n.expr_root() is not None and not isinstance(n.expr_root(), (ast.FunctionDef, ast.ClassDef))
            and any(isinstance(x, ast.Name) and x.id in aliases and isinstance(x.ctx, ast.Load) for x in ast.walk(n.expr_root()))]
    changers = [n for n in g.nodes if n.kind == "stmt" and isinstance(n.ast, (ast.Assign, ast.AnnAssign, ast.AugAssign)) and any(
        isinstance(t, ast.Attribute) and t.attr == field for t, _, _ in store_targets(n.ast))]
    for c in changers:
        reach = g.reachable(start=c)
        if any(u.id in reach and u.id != c.id for u in uses):
            raise AnalysisError(f"{what}: a local copy of {field} is tested after the field was stored - cannot normalise")
    import copy

    class _Sub(ast.NodeTransformer):
        def visit_Name(self, node: ast.Name):  # noqa: N802
            if isinstance(node.ctx, ast.Load) and node.id in aliases:
                return copy.deepcopy(aliases[node.id])
            return node

    return ast.fix_missing_locations(_Sub().visit(copy.deepcopy(fn_node)))


# ===================================================================================================== R14.1
def r14_1(ctx: Ctx) -> None:
    ix = ctx.ix
    ctx.rule("R14.1", "who-may-write the visible health fields (frozen table); who-may-call scan (requests and "
                      "scan-completion functions only); instant scans only when the node scan countdown has run out")
    n = 0
    for s in stores_to_attr(ix, VISIBLE_ATTRS):
        n += 1
        ok = (s.owner in VISIBLE_WRITERS or bool(only_called_from(ix, s.fn, VISIBLE_WRITERS))) and not s.in_lambda
        ctx.record("R14.1", f"{s.path}::{s.owner}::store {s.attr}", s.where, ok,
                   VISIBLE_WRITERS.get(s.owner, "visible health written outside a scan: the agent would see a change no scan produced"))
    ctx.floor("R14.1", "stores to visible health fields", n, 5)
    # constructor keywords would bypass the store inventory
    kw = 0
    for f in ix.functions:
        for c in ast.walk(f.node):
            if isinstance(c, ast.Call):
                for k in c.keywords:
                    if k.arg in VISIBLE_ATTRS + TRUE_ATTRS:
                        kw += 1
                        ctx.fail("R14.1", ctx.key(f, f"keyword {k.arg}= in a constructor call"), f.loc(c),
                                 f"{unparse(c)[:80]} sets a health field by keyword - not covered by the writer tables")
    ctx.count("health fields passed as constructor keywords", kw)
    # who may call scan
    n_calls = 0
    for cs in call_sites(ix, ["scan"]):
        f = cs.call.func
        if not isinstance(f, ast.Attribute) or cs.fn is None:
            continue
        if unparse(f.value).startswith("super()"):
            continue
        n_calls += 1
        ok = cs.owner in SCAN_CALLERS or (cs.fn is not None and cs.fn.name == "_init_request_manager") or bool(
            only_called_from(ctx.ix, cs.fn, SCAN_CALLERS))  # any scan *request* registration is an explicit scan
        ctx.record("R14.1", f"{cs.path}::{cs.owner}::call {unparse(f)[:50]}()", cs.where, ok,
                   SCAN_CALLERS.get(cs.owner, "scan started from a function that is neither a scan request nor a scan completion"))
        inst = kwarg(cs.call, "instant_scan")
        if inst is not None:
            if isinstance(inst, ast.Name) and inst.id in LocalDefs(cs.fn.node).params:
                ctx.ok("R14.1", ctx.key(cs.fn, "instant flag is passed through unchanged"), cs.where,
                       f"instant_scan={inst.id} is the caller's own parameter")
            elif isinstance(inst, ast.Constant) and inst.value is True:
                g = CFG(cs.fn.node)
                ld = LocalDefs(cs.fn.node)
                sinks = [x for x in g.nodes if any(c is cs.call for c in node_calls(x))]
                p = _elapsed_must_pass(g, sinks, "node_scan_countdown", ld, f"R14.1 {cs.owner}")
                ctx.record("R14.1", ctx.key(cs.fn, "instant scan only when the node scan countdown has run out"), cs.where,
                           p is None and bool(sinks), "reached only past the `node_scan_countdown` elapsed edge" if p is None else
                           "an instant (duration-free) scan can start without the node scan having completed", path_text(p))
            elif isinstance(inst, ast.Constant) and not inst.value:
                pass
            else:
                raise AnalysisError(f"R14.1: instant_scan argument at {cs.where} is neither a literal nor a passed-through parameter")
    ctx.floor("R14.1", "scan call sites", n_calls, 10)


# ===================================================================================================== R14.2
def _same_object_copy(target: ast.Attribute, value: Optional[ast.AST], ld: LocalDefs, pairs: Dict[str, str]) -> bool:
    v = ld.expand(value) if value is not None else None
    return (isinstance(v, ast.Attribute) and v.attr == pairs.get(target.attr) and unparse(v.value) == unparse(target.value))


def r14_2(ctx: Ctx) -> None:
    ix = ctx.ix
    ctx.rule("R14.2", "a scan copies the truth: software/file scans store the same object's true-health field; folder "
                      "writers sit past the scan-completed edge after the files were scanned; restore_backup writes "
                      "only a previously visible value")
    pairs = {"health_state_visible": "health_state_actual", "visible_health_status": "health_status"}
    n = 0
    for base, attr in (("Software", "health_state_visible"), ("File", "visible_health_status")):
        b = ix.cls(base)
        for f in ix.overrides(b, "scan"):
            g = CFG(f.node)
            ld = LocalDefs(f.node)
            st = _attr_store_nodes(g, [attr])
            if not st:
                sup = nodes_calling(g, ["scan"], lambda c: unparse(c.func) == "super().scan")
                w = _every_path_passes(g, sup) if f.cls is not b else ["the base scan stores nothing"]
                n += 1
                ctx.record("R14.2", ctx.key(f, "scan copies the true health"), f.loc(), w is None,
                           "delegates to super().scan() on every path" if w is None else "scan neither copies nor delegates", w)
                continue
            for node, tgt, val in st:
                n += 1
                ok = _same_object_copy(tgt, val, ld, pairs)
                ctx.record("R14.2", ctx.key(f, f"{attr} <- same object's {pairs[attr]}"), f.loc(node.ast), ok,
                           f"stores `{unparse(val)[:50]}` into `{unparse(tgt)}`" + ("" if ok else " - not the object's own true health"))
            rets = [x for x in g.nodes if x.kind == "stmt" and isinstance(x.ast, ast.Return) and isinstance(x.ast.value, ast.Constant)
                    and x.ast.value.value is True]
            for r in rets:
                p = g.path_avoiding([r], lambda e: False, blocked_nodes={x[0].id for x in st})
                ctx.record("R14.2", ctx.key(f, "reports success only after the copy"), f.loc(r.ast), p is None,
                           "every `return True` lies after the copy" if p is None else "scan can report success without updating the visible value",
                           path_text(p))
    ctx.floor("R14.2", "software/file scan copies", n, 2)
    # folder writers
    fs = ix.method("Folder._scan_timestep")
    g = CFG(fs.node)
    ld = LocalDefs(fs.node)
    st = _attr_store_nodes(g, ["visible_health_status"])
    if not st:
        raise AnalysisError("R14.2: Folder._scan_timestep no longer stores visible_health_status")
    for node, tgt, val in st:
        p = _elapsed_must_pass(g, [node], "scan_countdown", ld, "R14.2 Folder._scan_timestep")
        ctx.record("R14.2", ctx.key(fs, "visible folder health written only when scan_countdown has run out"), fs.loc(node.ast), p is None,
                   "store lies past the `scan_countdown` elapsed edge" if p is None else "folder visible health can change before the scan completes",
                   path_text(p))
        loops = [x for x in g.nodes if x.kind == "for" and "files" in unparse(x.ast.iter)
                 and any(call_name(c) == "scan" for b in x.ast.body for c in calls_in(b))]
        p2 = g.path_avoiding([node], lambda e: False, blocked_nodes={x.id for x in loops}) if loops else []
        ctx.record("R14.2", ctx.key(fs, "files are scanned before the folder value is published"), fs.loc(node.ast), p2 is None,
                   "a loop over the folder's files calling scan() precedes the store on every path" if p2 is None else
                   "folder visible health published without scanning its files", path_text(p2) if p2 else None)
        ok = _same_object_copy(tgt, val, ld, pairs)
        ctx.record("R14.2", ctx.key(fs, "visible_health_status <- same object's health_status"), fs.loc(node.ast), ok,
                   f"stores `{unparse(val)[:50]}`" + ("" if ok else " - not the folder's own (aggregate) health"))
    fi = ix.method("Folder.scan")
    g = CFG(fi.node)
    ld = LocalDefs(fi.node)
    st = _attr_store_nodes(g, ["visible_health_status"])
    universe = set(ix.enum_members(ix.cls("FileSystemItemHealthStatus")))
    for node, tgt, val in st:
        def instant(e: Edge) -> bool:
            return bool(e.label and e.label[0] == "cond" and e.label[2] is True and isinstance(e.label[1], ast.Name)
                        and e.label[1].id in ld.params)
        p = g.path_avoiding([node], instant)
        ctx.record("R14.2", ctx.key(fi, "visible folder health written only by an instant (completed) scan"), fi.loc(node.ast), p is None,
                   "store lies past the instant-scan flag; the timed path only loads the countdown" if p is None else
                   "starting a timed scan already changes the visible value", path_text(p))
        scans = nodes_calling(g, ["scan"], lambda c: isinstance(c.func, ast.Attribute) and not unparse(c.func.value).startswith(("self", "super")))
        p2 = g.path_avoiding([node], lambda e: False, blocked_nodes={x.id for x in scans}) if scans else []
        ctx.record("R14.2", ctx.key(fi, "a file scan precedes the folder value"), fi.loc(node.ast), p2 is None,
                   "the store is dominated by a `<file>.scan()` call" if p2 is None else "folder value written without scanning a file",
                   path_text(p2) if p2 else None)
        m = enum_member(val) if val is not None else None
        if m is not None and m[1] in universe:
            def shown(e: Edge, member=m[1]) -> bool:
                es = edge_state_set(e, ["visible_health_status"], universe, ld)
                return es is not None and not es[0].startswith("self") and set(es[1]) <= {member}
            p3 = g.path_avoiding([node], shown)
            ctx.record("R14.2", ctx.key(fi, f"constant {m[1]} mirrors a scanned file's visible value"), fi.loc(node.ast), p3 is None,
                       f"{m[1]} is stored only past `<file>.visible_health_status == {m[1]}`" if p3 is None else
                       f"{m[1]} written without a file showing it", path_text(p3))
        elif not _same_object_copy(tgt, val, ld, pairs):
            ctx.fail("R14.2", ctx.key(fi, "instant folder value is derived from scanned values"), fi.loc(node.ast),
                     f"stores `{unparse(val)[:60]}` - neither the folder's own health nor a value shown by a scanned file")
    if not st:
        ctx.ok("R14.2", ctx.key(fi, "visible folder health written only by an instant (completed) scan"), fi.loc(),
               "Folder.scan does not write the visible value itself", trivial=True)
    # restore_backup: visible -> visible only
    rb = ix.method("DatabaseService.restore_backup")
    g = CFG(rb.node)
    ld = LocalDefs(rb.node)
    st = _attr_store_nodes(g, ["visible_health_status"])
    for node, tgt, val in st:
        srcs: List[ast.AST] = []
        if isinstance(val, ast.Name):
            rd = _reaching_defs(g, val.id)[node.id]
            if not rd:
                raise AnalysisError(f"R14.2: no definition of {val.id} reaches the store in restore_backup")
            for i in rd:
                a = g.nodes[i].ast
                srcs.append(a.value if isinstance(a, (ast.Assign, ast.AnnAssign)) else a)
        elif val is not None:
            srcs.append(val)
        bad = [unparse(s)[:50] for s in srcs if not (isinstance(s, ast.Attribute) and s.attr == "visible_health_status")]
        ctx.record("R14.2", ctx.key(rb, "restored file inherits a previously visible value"), rb.loc(node.ast), not bad,
                   f"every definition reaching the store reads a visible_health_status field ({len(srcs)} definition(s))" if not bad else
                   f"visible health of the restored file may come from {bad}: not a scanned value")
        # the value must land on the *replacement* file: the receiver is looked up after the copy, not a stale local
        copies = nodes_calling(g, ["copy_file"])
        recv = tgt.value if isinstance(tgt, ast.Attribute) else None
        fresh = False
        why = ""
        if recv is not None and copies:
            dom = g.dominators()
            after_copy = any(c.id in dom.get(node.id, set()) for c in copies)
            if isinstance(recv, ast.Name):
                rd = _reaching_defs(g, recv.id)[node.id]
                fresh = bool(rd) and all(any(c.id in dom.get(i, set()) for c in copies) for i in rd)
                why = f"`{recv.id}` is bound at line(s) {[g.nodes[i].lineno for i in rd]}, " + ("after" if fresh else "before") + " the copy"
            else:
                fresh = after_copy
                why = f"`{unparse(recv)}` is evaluated at the store, " + ("after" if fresh else "before") + " the copy"
            ctx.record("R14.2", ctx.key(rb, "the carried-over visible value lands on the replacement file"), rb.loc(node.ast), fresh,
                       why if fresh else why + ": the remembered visible health is written to the old (deleted) file object, so the "
                       "replacement shows its default visible health although nothing was scanned")


# ===================================================================================================== R14.3
def r14_3(ctx: Ctx) -> None:
    ix = ctx.ix
    ctx.rule("R14.3", "who-may-write true health (health_state_actual, health_status) and who-may-call set_health_state: "
                      "explicit-event functions only (frozen tables, one reason each)")
    n = 0
    seen: Dict[str, int] = {}

    def uniq(key: str) -> str:
        seen[key] = seen.get(key, 0) + 1
        return key if seen[key] == 1 else f"{key} #{seen[key]}"

    for s in stores_to_attr(ix, TRUE_ATTRS):
        n += 1
        ok = (s.owner in TRUE_WRITERS or bool(only_called_from(ix, s.fn, TRUE_WRITERS))) and not s.in_lambda
        ctx.record("R14.3", uniq(f"{s.path}::{s.owner}::store {s.attr} = {unparse(s.value)[:40]}"), s.where, ok,
                   TRUE_WRITERS.get(s.owner, "true health changed outside the explicit events (attack, start/install, fix/repair/restore)"))
    ctx.floor("R14.3", "stores to true health fields", n, 16)
    m = 0
    for cs in call_sites(ix, ["set_health_state"]):
        if cs.fn is None:
            continue
        m += 1
        ok = cs.owner in HEALTH_SETTER_CALLERS or bool(only_called_from(ctx.ix, cs.fn, HEALTH_SETTER_CALLERS)) or (
            cs.fn is not None and "/red_applications/" in cs.fn.path)  # an attack application compromising software is an explicit event
        arg = unparse(cs.call.args[0])[:40] if cs.call.args else "?"
        ctx.record("R14.3", uniq(f"{cs.path}::{cs.owner}::call set_health_state({arg})"), cs.where, ok,
                   HEALTH_SETTER_CALLERS.get(cs.owner, "software health set from a function that is not an explicit health event"))
    ctx.floor("R14.3", "set_health_state call sites", m, 10)
    # health-conditional cures are taken only from the condition they cure
    for owner, (val, srcs, why) in HEALTH_SET_FROM.items():
        f = ix.method(owner)
        g = CFG(f.node)
        flow = state_flow(g, "self", ["health_state_actual"], HEALTH)
        sites = [x for x in nodes_calling(g, ["set_health_state"]) if any(
            call_name(c) == "set_health_state" and c.args and unparse(c.args[0]).endswith("." + val) for c in node_calls(x))]
        if not sites:
            raise AnalysisError(f"R14.3: {owner} no longer calls set_health_state({val})")
        for x in sites:
            got = set(flow.get(x.id, frozenset(HEALTH)))
            ctx.record("R14.3", ctx.key(f, f"set_health_state({val}) only from {sorted(srcs)}"), f.loc(x.ast), got <= srcs,
                       f"reached with true health in {sorted(got)}: {why}" if got <= srcs else
                       f"set_health_state({val}) is reached with true health in {sorted(got)}: {why} - from {sorted(got - srcs)} it ends "
                       "that condition without its own cure")
    # the setter itself stores exactly its argument into the same object
    sh = ix.method("Software.set_health_state")
    g = CFG(sh.node)
    st = _attr_store_nodes(g, ["health_state_actual"])
    params = [a.arg for a in sh.node.args.args if a.arg != "self"]
    ok = len(st) == 1 and isinstance(st[0][2], ast.Name) and st[0][2].id in params and unparse(st[0][1].value) == "self"
    ctx.record("R14.3", ctx.key(sh, "stores its argument"), sh.loc(), ok,
               "self.health_state_actual = <parameter>" if ok else "set_health_state does not simply store its argument")
    ov = [f for f in ix.overrides(ix.cls("Software"), "set_health_state") if f.cls is not sh.cls]
    for f in ov:
        g = CFG(f.node)
        w = _every_path_passes(g, nodes_calling(g, ["set_health_state"], lambda c: unparse(c.func) == "super().set_health_state"))
        ctx.record("R14.3", ctx.key(f, "override delegates to super().set_health_state"), f.loc(), w is None,
                   "delegates on every path" if w is None else "an override may swallow a health event", w)


# ===================================================================================================== R14.4
def r14_4(ctx: Ctx) -> None:
    ix = ctx.ix
    ctx.rule("R14.4", "timers start from their own duration (loaded only in the start function, ticked only in the "
                      "timestep function); fix accepted only from COMPROMISED/GOOD and enters FIXING with the countdown "
                      "loaded; fix completion on the elapsed edge sets GOOD; apply_timestep overrides call super(); "
                      "node scan fans out on the elapsed edge")
    health = set(ix.enum_members(ix.cls("SoftwareHealthState")))
    if health != HEALTH:
        raise AnalysisError(f"SoftwareHealthState members changed: {sorted(health)}")
    stores = stores_to_attr(ix, list(TIMERS))
    n_load = 0
    for cd, (cls_name, start, dur, dur_recv, tick) in TIMERS.items():
        owner_cls = ix.cls(cls_name)
        mine = []
        for s in stores:
            if s.attr != cd:
                continue
            rc = recv_class(ix, s.fn, s.recv)
            if rc is not None and not (ix.is_subclass(rc, owner_cls) or ix.is_subclass(owner_cls, rc)):
                continue  # same attribute name on an unrelated class
            mine.append(s)
        if not mine:
            raise AnalysisError(f"R14.4: no store to {cd} found")
        for s in mine:
            v = s.value
            if s.kind == "aug":
                ok = s.owner == tick and isinstance(s.node, ast.AugAssign) and isinstance(s.node.op, ast.Sub)
                ctx.record("R14.4", f"{s.path}::{s.owner}::{cd} ticks down", s.where, ok,
                           f"decrement inside {tick}" if ok else f"{cd} is modified outside its timestep function {tick}")
            elif isinstance(v, ast.Constant):
                ok = s.owner in (tick, start) or (s.fn is not None and s.fn.name == "__init__")
                ctx.record("R14.4", f"{s.path}::{s.owner}::{cd} reset to {v.value!r}", s.where, ok,
                           "cleared by its own start/timestep function" if ok else f"{cd} reset outside {start}/{tick}")
            else:
                n_load += 1
                # max(<duration>, 1): a zero duration completes on the next tick (R14.6 b) - still loaded from its own duration
                if isinstance(v, ast.Call) and isinstance(v.func, ast.Name) and v.func.id == "max" and len(v.args) == 2 and not v.keywords:
                    non_const = [a_ for a_ in v.args if not isinstance(a_, ast.Constant)]
                    consts = [a_ for a_ in v.args if isinstance(a_, ast.Constant)]
                    if len(non_const) == 1 and len(consts) == 1 and consts[0].value == 1:
                        v = non_const[0]
                ok = (s.owner == start and isinstance(v, ast.Attribute) and v.attr == dur and unparse(v.value) in dur_recv
                      and unparse(s.recv) == "self")
                ctx.record("R14.4", f"{s.path}::{s.owner}::{cd} <- {dur}", s.where, ok,
                           f"loaded from {unparse(v)[:50]}" + ("" if ok else f" - expected {dur_recv[0]}.{dur} inside {start}"))
    ctx.floor("R14.4", "countdown loads", n_load, 4)
    # a folder's scan / restore timer is armed only when it is not running: a repeated request while the operation is in progress
    # must not push its completion back ("completes after the configured duration" counts from the first request)
    for cd in ("scan_countdown", "restore_countdown"):
        cls_name, start, dur, dur_recv, tick = TIMERS[cd]
        f = ix.method(start)
        g = CFG(f.node)
        ld = LocalDefs(f.node)
        loads = [x for x in g.nodes if x.kind == "stmt" and isinstance(x.ast, ast.Assign) and any(
            isinstance(t, ast.Attribute) and t.attr == cd for t in x.ast.targets) and not isinstance(x.ast.value, ast.Constant)]
        if not loads:
            raise AnalysisError(f"R14.4: {start} does not load {cd}")
        for x in loads:
            p = g.path_avoiding([x], lambda e: _elapsed_edge(e, cd, ld))
            ctx.record("R14.4", ctx.key(f, f"{cd} is armed only when it has run out"), f.loc(x.ast), p is None,
                       f"the load of {cd} is reached only on the `{cd} <= 0` edge" if p is None else
                       f"{cd} can be re-armed while it is still running: every repeated request postpones the completion", path_text(p))
    # ---- fix
    fx = ix.method("Software.fix")
    fx_node = _inline_state_aliases(fx.node, "health_state_actual", "R14.4 Software.fix")
    g = CFG(fx_node)
    ld = LocalDefs(fx_node)

    def from_ok(e: Edge) -> bool:
        es = edge_state_set(e, ["health_state_actual"], health, ld)
        return es is not None and es[0] == "self" and set(es[1]) <= {"COMPROMISED", "GOOD"}

    def is_set(c: ast.Call, member: str) -> bool:
        return call_name(c) == "set_health_state" and bool(c.args) and (enum_member(c.args[0]) or ("", ""))[1] == member

    fixing = [n for n in g.nodes if any(is_set(c, "FIXING") for c in node_calls(n))] + [
        n for n, t, v in _attr_store_nodes(g, ["health_state_actual"]) if v is not None and (enum_member(v) or ("", ""))[1] == "FIXING"]
    loads = [n for n, t, v in _attr_store_nodes(g, ["_fixing_countdown"])]
    rets = [n for n in g.nodes if n.kind == "stmt" and isinstance(n.ast, ast.Return) and not (
        isinstance(n.ast.value, ast.Constant) and n.ast.value.value in (False, None))]
    if not fixing:
        raise AnalysisError("R14.4: Software.fix never enters FIXING")
    p = g.path_avoiding(fixing + loads + rets, from_ok)
    ctx.record("R14.4", ctx.key(fx, "fix accepted only from COMPROMISED/GOOD"), fx.loc(), p is None,
               "FIXING, the countdown load and the accepting return all lie past `health_state_actual in (COMPROMISED, GOOD)`"
               if p is None else "fix can start from another health state", path_text(p))
    for n in fixing:
        pre = g.path_avoiding([n], lambda e: False, blocked_nodes={x.id for x in loads})
        post = g.path_avoiding([g.exit], lambda e: False, start=n, blocked_nodes={x.id for x in loads})
        ok = pre is None or post is None
        ctx.record("R14.4", ctx.key(fx, "entering FIXING loads the countdown"), fx.loc(n.ast), ok,
                   "every path through FIXING also sets _fixing_countdown" if ok else "FIXING entered with a stale/None countdown")
    # ---- completion
    uf = ix.method("Software._update_fix_status")
    g = CFG(uf.node)
    ld = LocalDefs(uf.node)
    good = [n for n in g.nodes if any(is_set(c, "GOOD") for c in node_calls(n))] + [
        n for n, t, v in _attr_store_nodes(g, ["health_state_actual"]) if v is not None and (enum_member(v) or ("", ""))[1] == "GOOD"]
    others = [n for n in g.nodes if any(call_name(c) == "set_health_state" for c in node_calls(n)) and n not in good]
    p = _elapsed_must_pass(g, good, "_fixing_countdown", ld, "R14.4 Software._update_fix_status") if good else []
    ctx.record("R14.4", ctx.key(uf, "fix completion sets GOOD on the elapsed edge only"), uf.loc(), bool(good) and p is None and not others,
               "set_health_state(GOOD) lies past the `_fixing_countdown` elapsed edge; no other health is set here"
               if good and p is None and not others else "fix completion is not tied to the countdown / sets another state", path_text(p) if p else None)
    # on the elapsed edge GOOD is always set
    elapsed_dsts = [e.dst for e in g.edges() if _elapsed_edge(e, "_fixing_countdown", ld)]
    miss = None
    for d in elapsed_dsts:
        if d in good:
            continue
        miss = miss or g.path_avoiding([g.exit], lambda e: False, start=d, blocked_nodes={x.id for x in good})
    if elapsed_dsts:  # without any countdown test the instance above has already failed
        ctx.record("R14.4", ctx.key(uf, "an elapsed countdown always ends the fix"), uf.loc(), miss is None,
                   "every path from the elapsed edge sets GOOD" if miss is None else "countdown can elapse while the software stays FIXING",
                   path_text(miss))
    # ---- apply_timestep runs the countdown exactly when FIXING
    at = ix.method("Software.apply_timestep")
    at_node = _inline_state_aliases(at.node, "health_state_actual", "R14.4 Software.apply_timestep")
    g = CFG(at_node)
    ld = LocalDefs(at_node)
    upd = nodes_calling(g, ["_update_fix_status"])

    def fixing_edge(e: Edge, want: bool) -> bool:
        es = edge_state_set(e, ["health_state_actual"], health, ld)
        if es is None or es[0] != "self":
            return False
        return (set(es[1]) <= {"FIXING"}) if want else ("FIXING" not in es[1])

    p1 = g.path_avoiding(upd, lambda e: fixing_edge(e, True)) if upd else []
    p2 = g.path_avoiding([g.exit], lambda e: fixing_edge(e, False), blocked_nodes={x.id for x in upd})
    ctx.record("R14.4", ctx.key(at, "fix countdown runs exactly while FIXING"), at.loc(), bool(upd) and p1 is None and p2 is None,
               "_update_fix_status is called on the FIXING edge and only there" if upd and p1 is None and p2 is None else
               "the fix countdown is skipped while FIXING, or runs in another state", path_text(p1 or p2))
    # ---- overrides along the Software hierarchy
    sw = ix.cls("Software")
    n_ov = 0
    for mname in ("apply_timestep", "_update_fix_status"):
        for f in ix.overrides(sw, mname):
            if f.cls is sw:
                continue
            n_ov += 1
            g = CFG(f.node)
            marks = nodes_calling(g, [mname], lambda c: unparse(c.func) == f"super().{mname}")
            w = _every_path_passes(g, marks)
            ctx.record("R14.4", ctx.key(f, f"override calls super().{mname}() on every path"), f.loc(), w is None,
                       "the fix countdown of the base class keeps running" if w is None else
                       f"{f.short} can return without super().{mname}(): a fix on this software never completes", w)
    ctx.floor("R14.4", "apply_timestep/_update_fix_status overrides in the Software hierarchy", n_ov, 8)
    # ---- folder restore completion
    fr = ix.method("Folder._restoring_timestep")
    g = CFG(fr.node)
    ld = LocalDefs(fr.node)
    st = [n for n, t, v in _attr_store_nodes(g, ["health_status"])] + nodes_calling(g, ["restore_file"])
    p = _elapsed_must_pass(g, st, "restore_countdown", ld, "R14.4 Folder._restoring_timestep") if st else []
    ctx.record("R14.4", ctx.key(fr, "restore completes only when restore_countdown has run out"), fr.loc(), bool(st) and p is None,
               "files are restored and health set only past the elapsed edge" if st and p is None else "restore can complete early",
               path_text(p) if p else None)
    # ---- node scan fan-out
    na = ix.method("Node.apply_timestep")
    g = CFG(na.node)
    ld = LocalDefs(na.node)
    for coll in ("processes", "services", "applications"):
        loops = [x for x in g.nodes if x.kind == "for" and unparse(x.ast.iter).startswith(f"self.{coll}")
                 and any(call_name(c) == "scan" for b in x.ast.body for c in calls_in(b))]
        p = _elapsed_must_pass(g, loops, "node_scan_countdown", ld, "R14.4 Node.apply_timestep") if loops else []
        ctx.record("R14.4", ctx.key(na, f"node scan completion scans every member of {coll}"), na.loc(), bool(loops) and p is None,
                   f"loop over self.{coll} calling scan() lies past the `node_scan_countdown` elapsed edge" if loops and p is None else
                   f"{coll} are not scanned on node-scan completion (or are scanned before it)", path_text(p) if p else None)
    fsn = nodes_calling(g, ["scan"], lambda c: unparse(c.func) == "self.file_system.scan")
    p = _elapsed_must_pass(g, fsn, "node_scan_countdown", ld, "R14.4 Node.apply_timestep") if fsn else []
    ctx.record("R14.4", ctx.key(na, "node scan completion scans the file system"), na.loc(), bool(fsn) and p is None,
               "self.file_system.scan(...) lies past the elapsed edge" if fsn and p is None else "file system not scanned on completion",
               path_text(p) if p else None)
    fss = ix.method("FileSystem.scan")
    loops = [x for x in ast.walk(fss.node) if isinstance(x, ast.For) and "folders" in unparse(x.iter)
             and any(call_name(c) == "scan" for b in x.body for c in calls_in(b))
             and not any(isinstance(y, (ast.If, ast.Continue, ast.Break)) for b in x.body for y in ast.walk(b))]
    ctx.record("R14.4", ctx.key(fss, "file-system scan reaches every folder"), fss.loc(), bool(loops),
               "unconditional loop over self.folders calling scan()" if loops else "some folders may be skipped")


def r14_5(ctx: Ctx) -> None:
    ix = ctx.ix
    ctx.rule("R14.5", "folder restore completion returns the folder to GOOD from every state it can be in at completion "
                      "(RESTORING, or CORRUPT when corrupted again mid-restore) - frozen completion table")
    f = ix.method("Folder._restoring_timestep")
    g = CFG(f.node)
    uni = set(ix.enum_members(ix.cls("FileSystemItemHealthStatus")))
    flow = state_flow(g, "self", ["health_status"], uni, havoc_call=lambda c: call_name(c) in ("restore_file", "repair", "corrupt"))
    stores = [n for n in g.nodes if store_of_field(n, "self", ["health_status"]) is not None]
    if not stores:
        raise AnalysisError("R14.5: Folder._restoring_timestep no longer stores health_status")
    for n in stores:
        m = enum_member(store_of_field(n, "self", ["health_status"]))
        tgt = m[1] if m else "?"
        srcs = set(flow[n.id])
        need = {"RESTORING", "CORRUPT"}
        ok = tgt == "GOOD" and need <= srcs
        ctx.record("R14.5", ctx.key(f, "restore completion -> GOOD from RESTORING and CORRUPT"), f.loc(n.ast), ok,
                   f"sources {sorted(srcs)} -> {tgt}" + ("" if ok else f"; a folder that is {sorted(need - srcs)} when its restore completes stays that way"))


def _dur_words(name: str) -> Set[str]:
    stem = {"fixing": "fix", "restoring": "restore", "scanning": "scan", "restarting": "restart", "installing": "install"}
    return {stem.get(w, w) for w in name.strip("_").split("_") if w and w not in ("duration", "default")}


def _dur_source_name(v: ast.AST) -> Optional[str]:
    """The configured-duration name a value reads: attribute name, string key of [..] / .get(..); through int()/float()."""
    while isinstance(v, ast.Call) and isinstance(v.func, ast.Name) and v.func.id in ("int", "float") and v.args:
        v = v.args[0]
    if isinstance(v, ast.Attribute):
        return v.attr
    if isinstance(v, ast.Subscript) and isinstance(v.slice, ast.Constant) and isinstance(v.slice.value, str):
        return v.slice.value
    if isinstance(v, ast.Call) and isinstance(v.func, ast.Attribute) and v.func.attr == "get" and v.args and isinstance(v.args[0], ast.Constant) \
            and isinstance(v.args[0].value, str):
        return v.args[0].value
    return None


def r14_6(ctx: Ctx) -> None:
    """'... take their set time': (a) a duration reaches the object through like-named hops (a folder's restore_duration is filled
    from the *restore* default, under the guard that tests that same default); (b) a countdown that is decremented without a `> 0`
    guard is tested for completion with `<= 0`, not `== 0` (a configured duration of 0 steps below zero on the first tick);
    (c) the completed node scan scans every process, service and application unconditionally, and the file system."""
    ix = ctx.ix
    ctx.rule("R14.6", "(a) *_duration values travel through like-named hops, guard and source agree; (b) countdowns decremented without a "
                      "`> 0` guard complete on `<= 0`; (c) the node-scan fan-out is unconditional")
    n_a = 0
    for fn in ix.functions:
        if isinstance(fn.node, ast.Lambda) or not fn.path.startswith(("src/primaite/simulator/", "src/primaite/game/game.py")):
            continue
        for st in ast.walk(fn.node):
            if not (isinstance(st, ast.Assign) and len(st.targets) == 1 and isinstance(st.targets[0], ast.Attribute) and st.targets[0].attr.endswith("_duration")):
                continue
            src = _dur_source_name(st.value)
            if src is None or not src.endswith("_duration"):
                continue
            n_a += 1
            a, b = _dur_words(st.targets[0].attr), _dur_words(src)
            ok = a <= b or b <= a
            ctx.record("R14.6", ctx.key(fn, f"{unparse(st.targets[0])[:50]} is filled from its own setting"), fn.loc(st), ok,
                       f"{unparse(st.targets[0])} = {unparse(st.value)[:60]}" + ("" if ok else
                       f": `{st.targets[0].attr}` takes the value configured for `{src}` - the operation then lasts as long as a different one"))
        for iff in ast.walk(fn.node):
            if isinstance(iff, ast.If) and len(iff.body) == 1 and isinstance(iff.body[0], ast.Assign) and isinstance(iff.test, ast.Compare) \
                    and len(iff.test.ops) == 1 and isinstance(iff.test.ops[0], ast.IsNot) and isinstance(iff.test.comparators[0], ast.Constant) \
                    and iff.test.comparators[0].value is None:
                g_name, v_name = _dur_source_name(iff.test.left), _dur_source_name(iff.body[0].value)
                if g_name and v_name and g_name.endswith("_duration") and v_name.endswith("_duration"):
                    n_a += 1
                    ctx.record("R14.6", ctx.key(fn, f"guard on {g_name} stores {g_name}"), fn.loc(iff), g_name == v_name,
                               f"if {unparse(iff.test)}: {unparse(iff.body[0])[:70]}" + ("" if g_name == v_name else " - the guard tests one setting, the store reads another"))
    ctx.floor("R14.6", "duration hops", n_a, 8)
    # arming stores per countdown attribute (anywhere in the simulator): value provably >= 1?
    arming: Dict[str, List[Tuple[FuncInfo, ast.AST, bool]]] = {}
    for fn in ix.functions:
        if isinstance(fn.node, ast.Lambda) or not fn.path.startswith("src/primaite/simulator/"):
            continue
        for st in ast.walk(fn.node):
            if isinstance(st, ast.Assign) and len(st.targets) == 1 and isinstance(st.targets[0], ast.Attribute) \
                    and st.targets[0].attr.lstrip("_").endswith("countdown") and not isinstance(st.value, ast.Constant):
                v = st.value
                ge1 = isinstance(v, ast.Call) and isinstance(v.func, ast.Name) and v.func.id == "max" and any(
                    isinstance(a_, ast.Constant) and isinstance(a_.value, (int, float)) and a_.value >= 1 for a_ in v.args)
                arming.setdefault(st.targets[0].attr, []).append((fn, st, ge1))
    n_b = 0
    for fn in ix.functions:
        if isinstance(fn.node, ast.Lambda) or not fn.path.startswith("src/primaite/simulator/"):
            continue
        decs = [x for x in ast.walk(fn.node) if isinstance(x, ast.AugAssign) and isinstance(x.op, ast.Sub) and isinstance(x.target, ast.Attribute)
                and x.target.attr.lstrip("_").endswith("countdown")]
        if not decs:
            continue
        g = CFG(fn.node)
        for d in decs:
            cd = unparse(d.target)
            dn = next((n for n in g.nodes if n.ast is d), None)
            if dn is None:
                continue
            eqs = [n for n in g.nodes if n.kind == "cond" and isinstance(n.ast, ast.Compare) and len(n.ast.ops) == 1 and isinstance(n.ast.ops[0], (ast.Eq, ast.NotEq))
                   and unparse(n.ast.left) == cd and isinstance(n.ast.comparators[0], ast.Constant) and n.ast.comparators[0].value == 0
                   and n.id in g.reachable(dn)]
            n_b += 1
            weak = [(f_, st) for f_, st, ge1 in arming.get(d.target.attr, []) if not ge1]
            ok = not eqs or not weak
            ctx.record("R14.6", ctx.key(fn, f"{cd}: completion test fits the values it is armed with"), fn.loc(d), ok,
                       ("completion is tested with an ordering comparison" if not eqs else "every arming store is max(<duration>, 1) or larger") if ok else
                       f"completion of {cd} is tested with `== 0` after the decrement (line {eqs[0].lineno}), but {weak[0][0].short} arms it with "
                       f"`{unparse(weak[0][1].value)[:50]}`, which can be 0 (durations of 0 are allowed): armed with 0 it never reaches the "
                       "completion test at 0 again and the operation never completes")
    ctx.floor("R14.6", "countdown decrements", n_b, 6)
    f = ix.method("Node.apply_timestep")
    scans = [lp for lp in ast.walk(f.node) if isinstance(lp, ast.For) and any(call_name(c) == "scan" for b in lp.body for c in calls_in(b))]
    colls = {"processes", "services", "applications"}
    seen_c: Set[str] = set()
    for lp in scans:
        which = next((k for k in colls if f"self.{k}" in unparse(lp.iter)), None)
        if which is None:
            continue
        seen_c.add(which)
        cond = any(isinstance(x, (ast.If, ast.IfExp, ast.Continue, ast.Break)) for b in lp.body for x in ast.walk(b))
        ctx.record("R14.6", ctx.key(f, f"node scan covers every member of {which}"), f.loc(lp), not cond,
                   f"unconditional scan() on every member of self.{which}" if not cond else
                   f"the completed node scan skips some {which}: their visible health keeps a stale value although the scan covered them")
    fs = any(call_name(c) == "scan" and "file_system" in unparse(c.func.value) for c in calls_in(f.node))
    ctx.record("R14.6", ctx.key(f, "node scan covers processes, services, applications and the file system"), f.loc(), seen_c == colls and fs,
               f"fan-out over {sorted(seen_c)} and file_system={fs}")



def check(ctx: Ctx) -> None:
    r14_5(ctx)
    r14_1(ctx)
    r14_2(ctx)
    r14_3(ctx)
    r14_4(ctx)
    r14_6(ctx)
    from .common import falsy_numeric
    falsy_numeric(ctx, "R14.7", r"duration", "configured durations (0 = completes at once / next tick)")
