"""C12 - power states gate everything a node does."""
from __future__ import annotations

import ast
from typing import Dict, FrozenSet, List, Optional, Set, Tuple

from ..astutil import call_name, calls_in, unparse
from ..cfg import CFG, CNode, LocalDefs, path_text
from ..index import AnalysisError, ClassInfo, FuncInfo
from ..inventory import call_sites, recv_class, stores_to_attr
from ..inventory import only_called_from
from ..report import Ctx
from ..reqtree import RequestTree
from ..stateflow import state_flow, store_of_field
from .common import edge_state_set, enum_member, node_calls, nodes_calling, state_test

EXPLANATION = (
    "Static analysis of the node power state machine and its gates. Decided: R12.1 the only writers of a node's "
    "operating_state are Node.__init__/power_on/power_off/apply_timestep and the two from_config loaders, and the "
    "transitions extracted by a forward dataflow of the state field over their CFGs are within ON->SHUTTING_DOWN->OFF->"
    "BOOTING->ON plus the zero-duration shortcuts (taken only on the `duration <= 0` edge); reset = is_resetting + "
    "power_off, consumed on the SHUTTING_DOWN->OFF edge by a power_on; R12.2 every path that may take the node out of "
    "ON disables all its interfaces, and every NetworkInterface.enable implementation passes the 'node is ON' edge "
    "before setting enabled=True; R12.3 every request registered at node level (all Node subclasses, reconstructed "
    "request tree) carries the node-is-on validator, start-up the node-is-off validator; R12.4 every Node.receive_frame "
    "override either tests the power state itself or is fed only by interface receive_frame functions that test "
    "`enabled` (the invariant R12.2 then makes a non-ON node deaf); R12.5 the ->OFF / ->ON stores are accompanied by "
    "_shut_down_actions / _start_up_actions, which stop/close resp. start/run every service and application, and "
    "IOSoftware._can_perform_action refuses when the node is not ON; the node-is-on / node-is-off guards are true exactly "
    "in ON / exactly in OFF (R12.3); R12.6 a countdown armed inside Node.apply_timestep (the reset's automatic power_on) "
    "is not decremented later in the same call, so BOOTING lasts as long after a reset as after a request; _start_up_actions "
    "is reached only past the store of ON (start()/run() refuse before it); R12.7 Node.apply_timestep ticks processes, services, "
    "applications and the file system only on the `operating_state == ON` edge, and every path through the is_resetting edge "
    "clears the flag; every store of OFF (timed in apply_timestep, at once in power_off) is followed on every path by the test of "
    "is_resetting. R12.8 = C13's R13.7 (a lifecycle request is refused only by the node-power guard or its own source-state test) applied here: software comes back up when the node does. "
    "NOT decided: "
    "the number of ticks spent in BOOTING / SHUTTING_DOWN as an arithmetic fact."
)
TECHNIQUE = "static: forward dataflow of the power-state enum over CFGs (transition extraction), must-pass on interface enabling, request-tree validator inventory"
ASSUMPTIONS = ["no setattr/exec writes to operating_state (dynamic-feature census)",
               "requests reach a node only through its request manager"]

ALLOWED_WRITERS = {
    "Node.__init__": "initial state from the scenario (ON unless declared otherwise)",
    "Node.power_on": "OFF->BOOTING, or ->ON when start_up_duration <= 0",
    "Node.power_off": "ON->SHUTTING_DOWN, or ->OFF when shut_down_duration <= 0",
    "Node.apply_timestep": "BOOTING->ON and SHUTTING_DOWN->OFF when the countdown has elapsed",
    "Router.from_config": "declared initial state of a router",
    "WirelessRouter.from_config": "declared initial state of a wireless router",
}
ALLOWED_TRANSITIONS = {("ON", "SHUTTING_DOWN"), ("SHUTTING_DOWN", "OFF"), ("OFF", "BOOTING"), ("BOOTING", "ON")}


def _is_zero_duration_edge(e, field: str) -> bool:
    """edge on which `<x>.<field> <= 0` (or `< 1`, `== 0`, `not > 0`) holds."""
    if not e.label or e.label[0] != "cond":
        return False
    ex, pol = e.label[1], e.label[2]
    if isinstance(ex, ast.Compare) and len(ex.ops) == 1 and isinstance(ex.left, ast.Attribute) and ex.left.attr == field:
        op, rhs = ex.ops[0], ex.comparators[0]
        if isinstance(rhs, ast.Constant) and isinstance(rhs.value, (int, float)):
            true_means_zero = (isinstance(op, ast.LtE) and rhs.value == 0) or (isinstance(op, ast.Lt) and rhs.value == 1) or (
                isinstance(op, ast.Eq) and rhs.value == 0)
            false_means_zero = (isinstance(op, ast.Gt) and rhs.value == 0) or (isinstance(op, ast.GtE) and rhs.value == 1)
            return (true_means_zero and pol) or (false_means_zero and not pol)
    return False


def r12_1(ctx: Ctx, uni: Set[str]) -> Dict[str, Dict[int, FrozenSet[str]]]:
    ix = ctx.ix
    ctx.rule("R12.1", "who-may-write Node.operating_state; extracted transitions within the documented cycle; "
                      "zero-duration shortcuts only on the `duration <= 0` edge; reset = is_resetting + power_off")
    node = ix.cls("Node")
    n_store = 0
    writers_of_state: Set[str] = set()
    for s in stores_to_attr(ix, ["operating_state"]):
        m = enum_member(s.value) if s.value is not None else None
        rc = recv_class(ix, s.fn, s.recv)
        is_node = (rc is not None and ix.is_subclass(rc, node)) or (m is not None and m[0] == "NodeOperatingState") or (
            s.value is not None and "NodeOperatingState" in unparse(s.value))
        if rc is not None and not ix.is_subclass(rc, node):
            is_node = False
        if not is_node:
            continue
        n_store += 1
        owner = s.owner
        via = None if owner in ALLOWED_WRITERS else only_called_from(ix, s.fn, ALLOWED_WRITERS)
        ok = owner in ALLOWED_WRITERS or bool(via)
        writers_of_state.add(owner)
        ctx.record("R12.1", f"{s.path}::{owner}::store operating_state = {unparse(s.value)[:50]}", s.where, ok,
                   ALLOWED_WRITERS.get(owner, f"helper called only from {via}" if via else
                                       "writer of a node's power state outside the power state machine"))
    ctx.floor("R12.1", "stores to Node.operating_state", n_store, 8)
    flows: Dict[str, Dict[int, FrozenSet[str]]] = {}
    changers = {"power_on", "power_off", "reset", "apply_timestep"}
    for mname, dur_field in (("power_on", "start_up_duration"), ("power_off", "shut_down_duration"), ("apply_timestep", None)):
        fn = ix.method(f"Node.{mname}")
        g = CFG(fn.node)
        flow = state_flow(g, "self", ["operating_state"], uni,
                          havoc_call=lambda c: call_name(c) in changers and unparse(c.func).startswith("self."))
        flows[mname] = flow
        for n in g.nodes:
            v = store_of_field(n, "self", ["operating_state"])
            if v is None:
                continue
            m = enum_member(v)
            if m is None or m[1] not in uni:
                raise AnalysisError(f"R12.1: non-literal state stored in Node.{mname}: {unparse(v)}")
            tgt = m[1]
            srcs = flow[n.id]
            # is this store only reachable through a zero-duration edge?
            shortcut = False
            if dur_field:
                p = g.path_avoiding([n], lambda e: _is_zero_duration_edge(e, dur_field))
                shortcut = p is None
            if shortcut:
                want_tgt = "ON" if mname == "power_on" else "OFF"
                ok = tgt == want_tgt
                ctx.record("R12.1", ctx.key(fn, f"zero-duration shortcut -> {tgt}"), fn.loc(n.ast), ok,
                           f"store of {tgt} is reachable only on the `{dur_field} <= 0` edge (instantaneous transition)")
            else:
                bad = sorted(s for s in srcs if (s, tgt) not in ALLOWED_TRANSITIONS)
                ctx.record("R12.1", ctx.key(fn, f"transition -> {tgt}"), fn.loc(n.ast), not bad,
                           f"possible source states {sorted(srcs)} -> {tgt}" + (f"; undocumented: {bad} -> {tgt}" if bad else ""))
    # reset
    rs = ix.method("Node.reset")
    txt_calls = [unparse(c.func) for c in calls_in(rs.node)]
    sets_flag = any(isinstance(n, ast.Assign) and any(unparse(t).endswith("is_resetting") for t in n.targets)
                    and isinstance(n.value, ast.Constant) and n.value.value is True for n in ast.walk(rs.node))
    ok = "self.power_off" in txt_calls and sets_flag
    ctx.record("R12.1", ctx.key(rs, "reset = is_resetting + power_off"), rs.loc(), ok,
               f"reset calls {txt_calls} and sets is_resetting={sets_flag}")
    # the flag is up before the shutdown is issued: with a zero shut-down duration the whole shutdown (and the restart it triggers)
    # happens inside power_off(), which reads the flag
    grs = CFG(rs.node)
    flag_nodes = [n for n in grs.nodes if n.kind == "stmt" and isinstance(n.ast, ast.Assign) and any(unparse(t).endswith("is_resetting") for t in n.ast.targets)
                  and isinstance(n.ast.value, ast.Constant) and n.ast.value.value is True]
    for n in nodes_calling(grs, ["power_off"]):
        p = grs.path_avoiding([n], lambda e: False, blocked_nodes={x.id for x in flag_nodes})
        ctx.record("R12.1", ctx.key(rs, "the reset flag is set before power_off is called"), rs.loc(n.ast), p is None,
                   "is_resetting = True precedes power_off() on every path" if p is None else
                   "power_off() can run before the reset flag is set: a shutdown that completes at once finds no reset pending", path_text(p))
    at = ix.method("Node.apply_timestep")
    g = CFG(at.node)
    pon = [n for n in nodes_calling(g, ["power_on"])]
    # the restart of a reset comes after everything the shutdown does: nothing of the shutdown (stopping the software, the OFF
    # store) may run after the automatic power_on - with a zero start-up duration the node is ON again by then
    for f2, g2 in ((at, g), (ix.method("Node.power_off"), CFG(ix.method("Node.power_off").node))):
        for n in nodes_calling(g2, ["power_on"]):
            late = nodes_calling(g2, ["_shut_down_actions"]) + [x for x in g2.nodes if x.kind == "stmt" and isinstance(x.ast, ast.Assign) and any(
                unparse(t) == "self.operating_state" for t in x.ast.targets) and unparse(x.ast.value).endswith(".OFF")]
            p = g2.path_avoiding(late, lambda e: False, start=n) if late else None
            ctx.record("R12.1", ctx.key(f2, "nothing of the shutdown runs after the automatic restart"), f2.loc(n.ast), p is None,
                       "power_on() of a reset is the last thing the completed shutdown does" if p is None else
                       "shutdown work (stopping the software / the OFF store) can run after the restart was issued", path_text(p))
    flow = flows["apply_timestep"]
    okp = bool(pon)
    for n in pon:
        # reached only after the ->OFF store on the is_resetting-true edge
        p = g.path_avoiding([n], lambda e: bool(e.label and e.label[0] == "cond" and "is_resetting" in unparse(e.label[1]) and e.label[2]))
        okp = okp and p is None and flow[n.id] <= {"OFF"}
    ctx.record("R12.1", ctx.key(at, "reset restarts the node after it reached OFF"), at.loc(), okp,
               "power_on in apply_timestep is reached only in state OFF on the is_resetting edge" if okp else
               "automatic restart is not confined to the is_resetting/OFF edge")
    return flows


def _disable_loops(g: CFG) -> List[CNode]:
    out = []
    for n in g.nodes:
        if n.kind == "for" and "network_interface" in unparse(n.ast.iter):
            if any(call_name(c) == "disable" for b in n.ast.body for c in calls_in(b)):
                out.append(n)
    return out


def _on_every_path_through(g: CFG, s: CNode, marks: List[CNode]) -> Optional[List[str]]:
    """None if every entry->exit path through s also passes one of marks; else a witness."""
    if not marks:
        return ["no such statement in the function"]
    bn = {m.id for m in marks}
    pre = g.path_avoiding([s], lambda e: False, blocked_nodes=bn)
    if pre is None:
        return None
    post = g.path_avoiding([g.exit], lambda e: False, start=s, blocked_nodes=bn)
    if post is None:
        return None
    return path_text(pre) + ["... store ..."] + path_text(post)


def r12_2(ctx: Ctx, uni: Set[str], flows) -> None:
    ix = ctx.ix
    ctx.rule("R12.2", "every path that may take a node out of ON disables all interfaces; interfaces are enabled only "
                      "past the node-is-ON edge")
    for mname in ("power_off", "apply_timestep", "power_on"):
        fn = ix.method(f"Node.{mname}")
        g = CFG(fn.node)
        flow = flows[mname]
        loops = _disable_loops(g)
        for n in g.nodes:
            v = store_of_field(n, "self", ["operating_state"])
            if v is None:
                continue
            tgt = enum_member(v)[1]
            if tgt == "ON" or "ON" not in flow[n.id]:
                continue
            w = _on_every_path_through(g, n, loops)
            ctx.record("R12.2", ctx.key(fn, f"leaving ON for {tgt} disables the interfaces"), fn.loc(n.ast), w is None,
                       f"state may be ON before this store of {tgt}; " + ("all interfaces are disabled on every such path"
                                                                          if w is None else "a path keeps the interfaces enabled"), w)
    # enable implementations
    ni = ix.cls("NetworkInterface")
    n_impl = 0
    for f in ix.overrides(ni, "enable"):
        g = CFG(f.node)
        sets = [n for n in g.nodes if n.kind == "stmt" and isinstance(n.ast, ast.Assign) and any(
            isinstance(t, ast.Attribute) and t.attr == "enabled" and unparse(t.value) == "self" for t in n.ast.targets)
            and isinstance(n.ast.value, ast.Constant) and n.ast.value.value is True]
        if not sets:
            delegating = any(unparse(c.func) == "super().enable" for c in calls_in(f.node))
            ctx.ok("R12.2", ctx.key(f, "enable gated by node ON"), f.loc(),
                   "no `enabled = True` store here" + (" (delegates to super().enable())" if delegating else " (abstract stub)"),
                   trivial=True)
            continue
        n_impl += 1
        ld = LocalDefs(f.node)

        def sat(e) -> bool:
            es = edge_state_set(e, ["operating_state"], uni, ld)
            return es is not None and es[0] == "self._connected_node" and set(es[1]) <= {"ON"}

        p = g.path_avoiding(sets, sat)
        ctx.record("R12.2", ctx.key(f, "enable gated by node ON"), f.loc(sets[0].ast), p is None,
                   "`enabled = True` is reached only past `_connected_node.operating_state == ON`" if p is None else
                   "an interface can be enabled while its node is not ON", path_text(p))
    ctx.floor("R12.2", "enable implementations that set enabled=True", n_impl, 2)


def r12_3(ctx: Ctx) -> None:
    ix = ctx.ix
    ctx.rule("R12.3", "every request registered on a node's root manager carries the node-is-on validator "
                      "('startup': node-is-off)")
    tree = RequestTree(ix)
    if tree.problems:
        raise AnalysisError("request tree: " + "; ".join(tree.problems[:3]))
    node = ix.cls("Node")
    n = 0
    for c in ix.subclasses(node, include_self=True):
        for e in tree.slots.get((c.qualname, "root"), []):
            n += 1
            names = [v.name for v in e.validators]
            want = "Node._NodeIsOffValidator" if e.key == "startup" else "Node._NodeIsOnValidator"
            ok = want in names
            ctx.record("R12.3", f"{e.site.path}::{e.site.owner}::node request {e.key_text()}", e.where, ok,
                       f"validators {names or 'none'}; required {want}")
    ctx.floor("R12.3", "node-level request registrations", n, 14)
    # the two guards compute the predicate their name promises: true exactly in ON / exactly in OFF
    uni = set(ix.enum_members(ix.cls("NodeOperatingState")))
    for cname, want in (("Node._NodeIsOnValidator", {"ON"}), ("Node._NodeIsOffValidator", {"OFF"})):
        f = ix.method(cname + ".__call__")
        rets = [x for x in ast.walk(f.node) if isinstance(x, ast.Return) and x.value is not None]
        if len(rets) != 1:
            raise AnalysisError(f"R12.3: {cname}.__call__ has {len(rets)} return statements; expected the single-expression form")
        e = LocalDefs(f.node).expand(rets[0].value)
        st = state_test(e, ["operating_state"], uni)
        ok = st is not None and set(st[1]) == want
        ctx.record("R12.3", ctx.key(f, f"guard true exactly in {sorted(want)}"), f.loc(), ok,
                   f"returns {unparse(e)} -> true in {sorted(st[1]) if st else '?'}"
                   + ("" if ok else "; a request is let through in a transitional state (e.g. start-up while SHUTTING_DOWN)"))


def r12_4(ctx: Ctx, uni: Set[str]) -> None:
    ix = ctx.ix
    ctx.rule("R12.4", "a node that is not ON ignores frames: each Node.receive_frame override tests the power state "
                      "before any effect, or is called only from interface receive_frame functions gated on `enabled`")
    node = ix.cls("Node")
    ni = ix.cls("NetworkInterface")
    # callers of <node>.receive_frame
    callers_ok = True
    caller_desc = []
    for cs in call_sites(ix, ["receive_frame"]):
        f = cs.call.func
        if not isinstance(f, ast.Attribute) or cs.fn is None:
            continue
        recv_txt = unparse(f.value)
        if recv_txt != "self._connected_node":
            continue
        owner = cs.fn.cls
        g = CFG(cs.fn.node)
        tgt = [n for n in g.nodes if any(c is cs.call for c in node_calls(n))]
        p = g.path_avoiding(tgt, lambda e: bool(e.label and e.label[0] == "cond" and unparse(e.label[1]) == "self.enabled" and e.label[2]))
        caller_desc.append(f"{cs.owner}@{cs.where.split(':')[-1]}:{'gated' if p is None else 'UNGATED'}")
        if p is not None or owner is None or not ix.is_subclass(owner, ni):
            callers_ok = False
    n = 0
    for f in ix.overrides(node, "receive_frame"):
        n += 1
        g = CFG(f.node)
        ld = LocalDefs(f.node)

        def sat(e) -> bool:
            es = edge_state_set(e, ["operating_state"], uni, ld)
            return es is not None and es[0] == "self" and set(es[1]) <= {"ON"}

        effects = [x for x in g.nodes if x.kind in ("stmt", "cond", "for", "with") and any(
            not unparse(c.func).startswith(("self.sys_log", "_LOGGER", "super().receive_frame")) for c in node_calls(x))]
        p = g.path_avoiding(effects, sat) if effects else None
        own = p is None
        ok = own or callers_ok
        ctx.record("R12.4", ctx.key(f, "frames ignored unless ON"), f.loc(), ok,
                   ("tests operating_state == ON before any effect" if own else
                    "no own power test; relies on: every caller is an interface receive_frame gated on `enabled` "
                    f"({', '.join(caller_desc)}) and R12.2 keeps interfaces of a non-ON node disabled"))
    ctx.floor("R12.4", "Node.receive_frame implementations", n, 4)


def r12_5(ctx: Ctx, uni: Set[str], flows) -> None:
    ix = ctx.ix
    ctx.rule("R12.5", "->OFF runs _shut_down_actions, ->ON runs _start_up_actions; these stop/close resp. start/run "
                      "all services and applications; IOSoftware._can_perform_action refuses unless the node is ON")
    for mname in ("power_off", "apply_timestep", "power_on"):
        fn = ix.method(f"Node.{mname}")
        g = CFG(fn.node)
        for n in g.nodes:
            v = store_of_field(n, "self", ["operating_state"])
            if v is None:
                continue
            tgt = enum_member(v)[1]
            if tgt not in ("ON", "OFF"):
                continue
            act = "_start_up_actions" if tgt == "ON" else "_shut_down_actions"
            marks = nodes_calling(g, [act])
            w = _on_every_path_through(g, n, marks)
            ctx.record("R12.5", ctx.key(fn, f"-> {tgt} runs {act}"), fn.loc(n.ast), w is None,
                       f"every path through the store of {tgt} calls {act}" if w is None else f"{act} can be skipped", w)
        # start()/run() refuse while the node is not ON (last clause of this rule), so the start-up actions only work *after* the
        # store of ON: the call must not be reachable without passing such a store
        on_stores = {n.id for n in g.nodes if (lambda v: v is not None and enum_member(v)[1] == "ON")(store_of_field(n, "self", ["operating_state"]))}
        for m_ in nodes_calling(g, ["_start_up_actions"]):
            p_ = g.path_avoiding([m_], lambda e: False, blocked_nodes=on_stores)
            ctx.record("R12.5", ctx.key(fn, "_start_up_actions runs after the node is ON"), fn.loc(m_.ast), p_ is None,
                       "the call is reached only past the store of ON" if p_ is None else
                       "_start_up_actions is called while the node is still BOOTING: every start()/run() is refused by the power test "
                       "and the software stays down after the boot", path_text(p_))
    for act, pairs in (("_shut_down_actions", (("services", "stop"), ("applications", "close"))),
                       ("_start_up_actions", (("services", "start"), ("applications", "run")))):
        fn = ix.method(f"Node.{act}")
        for coll, meth in pairs:
            loops = [n for n in ast.walk(fn.node) if isinstance(n, ast.For) and unparse(n.iter).startswith(f"self.{coll}")
                     and any(call_name(c) == meth for b in n.body for c in calls_in(b))
                     and not any(isinstance(x, (ast.If, ast.Continue, ast.Break)) for b in n.body for x in ast.walk(b))]
            ctx.record("R12.5", ctx.key(fn, f"{meth}() on every member of {coll}"), fn.loc(), bool(loops),
                       f"unconditional loop over self.{coll} calling {meth}()" if loops else f"no unconditional {coll}.{meth}() loop")
    cp = ix.method("IOSoftware._can_perform_action")
    g = CFG(cp.node)
    ld = LocalDefs(cp.node)
    # every `return True`-capable exit passes the node-ON edge, unless there is no software manager
    rets_true = [n for n in g.nodes if n.kind == "stmt" and isinstance(n.ast, ast.Return) and not (
        isinstance(n.ast.value, ast.Constant) and n.ast.value.value is False)]

    def sat(e) -> bool:
        es = edge_state_set(e, ["operating_state"], uni, ld)
        if es is not None and es[0].endswith("software_manager.node") and set(es[1]) <= {"ON"}:
            return True
        # not attached to a node yet: `self.software_manager` falsy
        return bool(e.label and e.label[0] == "cond" and unparse(e.label[1]) == "self.software_manager" and e.label[2] is False)

    p = g.path_avoiding(rets_true, sat)
    ctx.record("R12.5", ctx.key(cp, "software acts only when its node is ON"), cp.loc(), p is None,
               "returns a non-False value only past `node.operating_state == ON` (or when not yet installed on a node)"
               if p is None else "software may act while its node is not ON", path_text(p))
    # Service.start / Application.run pass _can_perform_action
    for spec, field in (("Service.start", "operating_state"), ("Application.run", "operating_state")):
        fn = ix.method(spec)
        g = CFG(fn.node)
        stores = [n for n in g.nodes if store_of_field(n, "self", [field]) is not None]
        p = g.path_avoiding(stores, lambda e: bool(e.label and e.label[0] == "cond" and isinstance(e.label[1], ast.Call)
                                                  and call_name(e.label[1]) == "_can_perform_action" and e.label[2]))
        ctx.record("R12.5", ctx.key(fn, "passes _can_perform_action"), fn.loc(), p is None and bool(stores),
                   "state is changed only past _can_perform_action()" if p is None else "state change without the power test",
                   path_text(p))


def r12_6(ctx: Ctx) -> None:
    """A request arms a countdown before apply_timestep of the same step runs (PrimaiteGame: actions, then time).  Inside
    apply_timestep the only arming is the reset's automatic power_on; for the time spent BOOTING to be the same after a reset
    as after a start-up request, a countdown armed during apply_timestep must not be decremented again in that call."""
    ix = ctx.ix
    ctx.rule("R12.6", "a countdown armed inside Node.apply_timestep (reset's automatic start) is not decremented in the same call")
    at = ix.method("Node.apply_timestep")
    node = ix.cls("Node")
    g = CFG(at.node)
    decs: Dict[str, List[CNode]] = {}
    for n in g.nodes:
        a = n.ast
        if isinstance(a, ast.AugAssign) and isinstance(a.op, ast.Sub) and isinstance(a.target, ast.Attribute) and a.target.attr.endswith("_countdown"):
            decs.setdefault(a.target.attr, []).append(n)
    if "start_up_countdown" not in decs or "shut_down_countdown" not in decs:
        raise AnalysisError(f"R12.6: power countdown decrements not found in Node.apply_timestep (found {sorted(decs)})")
    n_arm = 0
    for n in g.nodes:
        for c in node_calls(n):
            if not (isinstance(c.func, ast.Attribute) and unparse(c.func.value) == "self"):
                continue
            h = ix.find_method(node, c.func.attr)
            if h is None or isinstance(h.node, ast.Lambda):
                continue
            armed = set()
            for x in ast.walk(h.node):
                if isinstance(x, ast.Assign):
                    for t in x.targets:
                        if isinstance(t, ast.Attribute) and t.attr.endswith("_countdown") and t.attr in decs:
                            armed.add(t.attr)
            for cd in sorted(armed):
                n_arm += 1
                p = g.path_avoiding(decs[cd], lambda e: False, start=n)
                # the arming node itself being a decrement node is not a path
                ctx.record("R12.6", ctx.key(at, f"{c.func.attr}() arms {cd}: no decrement of it later in the same call"), at.loc(n.ast),
                           p is None,
                           f"{cd} is decremented before {c.func.attr}() can arm it; the first decrement after arming happens in the next tick"
                           if p is None else
                           f"{c.func.attr}() arms {cd} and the same apply_timestep call then decrements it: the transitional state "
                           f"lasts one tick less after a reset than after a request", path_text(p))
    ctx.floor("R12.6", "arming calls inside apply_timestep", n_arm, 1)
    # each power countdown is armed from its own duration: start_up_countdown <- start_up_duration, shut_down_countdown <- shut_down_duration
    n_h = 0
    for mname in ("power_on", "power_off", "apply_timestep", "reset"):
        fm = ix.method(f"Node.{mname}")
        for st in ast.walk(fm.node):
            if isinstance(st, ast.Assign) and len(st.targets) == 1 and isinstance(st.targets[0], ast.Attribute) and st.targets[0].attr.endswith("_countdown") \
                    and isinstance(st.value, ast.Attribute) and st.value.attr.endswith("_duration"):
                n_h += 1
                a, b = st.targets[0].attr[:-len("_countdown")], st.value.attr[:-len("_duration")]
                ctx.record("R12.6", ctx.key(fm, f"{st.targets[0].attr} is armed from its own duration"), fm.loc(st), a == b,
                           f"{unparse(st)[:80]}" + ("" if a == b else f" - the {a} phase lasts as long as the {b} phase is configured to"))
    ctx.floor("R12.6", "countdowns armed from a duration", n_h, 2)



def r12_7(ctx: Ctx, uni: Set[str]) -> None:
    """Software does no work while the node is not ON; the reset flag is consumed where it is acted on."""
    ix = ctx.ix
    ctx.rule("R12.7", "Node.apply_timestep ticks processes / services / applications / the file system only on the `operating_state == ON` "
                      "edge; every path through the `is_resetting` edge clears the flag before the call ends")
    fn = ix.method("Node.apply_timestep")
    g = CFG(fn.node)
    ld = LocalDefs(fn.node)
    colls = ("processes", "services", "applications", "file_system")
    ticks = []
    for n in g.nodes:
        for c in node_calls(n):
            if call_name(c) == "apply_timestep" and isinstance(c.func, ast.Attribute) and any(f"self.{k}" in unparse(c.func.value) for k in colls):
                ticks.append((n, c))
    if len(ticks) < 4:
        raise AnalysisError(f"R12.7: Node.apply_timestep ticks only {len(ticks)} of processes/services/applications/file_system")

    def on_edge(e) -> bool:
        es = edge_state_set(e, ["operating_state"], uni, ld)
        return es is not None and es[0] == "self" and set(es[1]) <= {"ON"}

    for n, c in ticks:
        p = g.path_avoiding([n], on_edge)
        ctx.record("R12.7", ctx.key(fn, f"{unparse(c.func.value)[:40]} ticks only while ON"), fn.loc(n.ast), p is None,
                   "reached only past `self.operating_state == ON`" if p is None else
                   "software keeps working (restarts finish, installs complete, scans run) while the node is OFF / BOOTING / SHUTTING_DOWN",
                   path_text(p))
    # a reset is "shutdown, then an automatic start": wherever a node reaches OFF (timed or at once) the reset flag is consulted
    for mname in ("power_off", "apply_timestep"):
        fm = ix.method(f"Node.{mname}")
        gm = CFG(fm.node)
        ldm = LocalDefs(fm.node)
        tests = {n.id for n in gm.nodes if n.kind == "cond" and unparse(ldm.expand(n.ast)).endswith("is_resetting")}
        for n in gm.nodes:
            v = store_of_field(n, "self", ["operating_state"])
            if v is None or enum_member(v)[1] != "OFF":
                continue
            p_ = gm.path_avoiding([gm.exit], lambda e: False, start=n, blocked_nodes=tests)
            ctx.record("R12.7", ctx.key(fm, "reaching OFF consults the reset flag"), fm.loc(n.ast), p_ is None,
                       "every path from the store of OFF tests is_resetting (and restarts the node when it is set)" if p_ is None else
                       f"Node.{mname} can take the node to OFF without looking at is_resetting: a reset that goes through this store never "
                       "restarts the node", path_text(p_))
    flag_edges = [e for e in g.edges() if e.label and e.label[0] == "cond" and e.label[2] is True and unparse(ld.expand(e.label[1])).endswith("is_resetting")]
    if not flag_edges:
        raise AnalysisError("R12.7: Node.apply_timestep no longer tests is_resetting")
    clears = {n.id for n in g.nodes if n.kind == "stmt" and isinstance(n.ast, ast.Assign) and any(unparse(t).endswith("is_resetting") for t in n.ast.targets)
              and isinstance(n.ast.value, ast.Constant) and n.ast.value.value is False}
    for e in flag_edges:
        p = None if e.dst.id in clears else g.path_avoiding([g.exit], lambda x: False, start=e.dst, blocked_nodes=clears)
        ctx.record("R12.7", ctx.key(fn, "the reset flag is cleared when the automatic start is issued"), fn.loc(e.label[1]), p is None,
                   "every path through the is_resetting edge passes `is_resetting = False`" if p is None else
                   "the reset flag can survive the restart it caused: the next ordinary shutdown then restarts the node by itself", path_text(p))



def check(ctx: Ctx) -> None:
    uni = set(ctx.ix.enum_members(ctx.ix.cls("NodeOperatingState")))
    if uni != {"ON", "OFF", "BOOTING", "SHUTTING_DOWN"}:
        raise AnalysisError(f"NodeOperatingState members changed: {sorted(uni)}")
    flows = r12_1(ctx, uni)
    r12_2(ctx, uni, flows)
    r12_3(ctx)
    r12_4(ctx, uni)
    r12_5(ctx, uni, flows)
    r12_6(ctx)
    r12_7(ctx, uni)
    # "when the node returns to ON its services and applications come back up": the bulk start-up calls start()/run(), which must
    # not refuse stopped software for any reason but the node's power - C13's R13.7
    from . import c13
    svc = set(ctx.ix.enum_members(ctx.ix.cls("ServiceOperatingState")))
    app = set(ctx.ix.enum_members(ctx.ix.cls("ApplicationOperatingState")))
    with ctx.borrowed({"R13.7": "R12.8"}):
        c13.r13_7(ctx, svc, app)
