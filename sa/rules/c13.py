"""C13 - services and applications follow their lifecycle; only running software works (DESIGN.md section 3, C13)."""
from __future__ import annotations

import ast
from typing import Callable, Dict, List, Optional, Set, Tuple

from ..astutil import call_name, calls_in, kwarg, store_targets, unparse
from ..cfg import CFG, CNode, Edge, LocalDefs, path_text
from ..index import AnalysisError, ClassInfo, FuncInfo, Index
from ..inventory import only_called_from, call_sites, recv_class, stores_to_attr
from ..purity import PURE_BUILTINS, is_logging_call
from ..report import Ctx
from ..reqtree import RequestTree
from ..stateflow import state_flow, store_of_field
from .common import edge_state_set, enum_member, node_calls, nodes_calling, state_test

EXPLANATION = (
    "Static analysis of the software lifecycle (ast, per-function CFG with guard edges, forward dataflow of the "
    "operating_state enum, reconstructed request tree, whole-repo store inventories). Decided: R13.1 the only writers "
    "of a service's/application's operating_state are the lifecycle methods of Service/Application (+ the CLOSED "
    "initialisation in SoftwareManager.install); the (possible source states -> stored target) table extracted from "
    "each lifecycle method equals the documented table (stop, start, pause, resume, restart, disable, enable, restart "
    "completion; run, close, install, install completion); timed transitions load their countdown from their own "
    "duration and complete only on the countdown-elapsed edge; the state demanded by each lifecycle request's "
    "validator is one its method accepts; subclass overrides call super() on every path and never store the state; "
    "R13.2 every concrete Service/Application class handles a payload only when running: either the three dispatch "
    "sites of SoftwareManager.receive_payload_from_session_manager test the receiver's RUNNING state, or the "
    "MRO-resolved receive passes _can_perform_action()/super().receive() (which test RUNNING) before any effect; "
    "_can_perform_action / _can_perform_network_action implementations return True only past the RUNNING edge; "
    "R13.3 get_open_ports/check_port_is_open list a port only past the RUNNING edge of its owner and every hand-over of "
    "a frame to the session manager is reachable only past an open-port test (or the justified ICMP / running-nmap "
    "exceptions); R13.4 install adds to and uninstall removes from the same registries (software, "
    "port_protocol_mapping, node.services|applications, request route) under the same isinstance guard, no "
    "SoftwareManager registry is consulted or popped without ever being populated, a package that shares its "
    "(port, protocol) with another shipped class cannot silently evict that class's dispatch entry (key-free test on "
    "install, a multi-valued table, or re-pointing on uninstall), and the node-level install/uninstall requests "
    "delegate to the software manager; R13.5 every call of the node's bulk start-up routine (the method that starts all "
    "services and runs all applications) comes, on every path, after the store operating_state = ON, because Service.start and "
    "Application.run refuse on a node that is not ON. R13.7 accepted means done: in every lifecycle method the operating_state store is unavoidable past the node-power guard and the accepting arm of the method's own source-state test (no other early refusal). "
    "R13.6 = C12's R12.5 (the node-power guard of the software base classes is exact) applied here. "
    "NOT decided: the number of ticks a restart/install "
    "takes (counter arithmetic), conformance of arbitrary request sequences to a reference model (behavioural), and "
    "whether the handler reached past the gate does the right thing."
)
TECHNIQUE = "static: enum-state dataflow per lifecycle method vs frozen transition table, dispatch-site/receive gate must-pass over the class hierarchy, registry pairing"
ASSUMPTIONS = [
    "no setattr/exec writes to operating_state or to the SoftwareManager registries (dynamic-feature census)",
    "payloads reach software only through SoftwareManager.receive_payload_from_session_manager (call inventory of "
    "`.receive(` confirms: the other call sites are super().receive delegations)",
    "class-hierarchy analysis over-approximates dynamic dispatch; super() is resolved along the C3 MRO",
]

SVC_STATES = {"RUNNING", "STOPPED", "PAUSED", "DISABLED", "INSTALLING", "RESTARTING"}
APP_STATES = {"RUNNING", "CLOSED", "INSTALLING"}
ALL = "*"

# Documented transition tables, confirmed against docs/source/action_masking.rst (accepted source state per request),
# docs/source/simulation_components/system/software.rst and the method docstrings: method -> {target: sources}.
TABLES: Dict[str, Dict[str, Dict[str, object]]] = {
    "Service": {
        "stop": {"STOPPED": {"RUNNING", "PAUSED"}},  # 'Stop the service' - a running or paused service stops
        "start": {"RUNNING": {"STOPPED"}},  # only a stopped service starts (disabled must be enabled first)
        "pause": {"PAUSED": {"RUNNING"}},  # only a running service pauses
        "resume": {"RUNNING": {"PAUSED"}},  # 'Resume paused service'
        "restart": {"RESTARTING": {"RUNNING", "PAUSED"}},  # 'Restart running service' (paused ones too)
        "disable": {"DISABLED": ALL},  # unconditional (docs: 'Node is on.' only)
        "enable": {"STOPPED": {"DISABLED"}},  # 'Enable the disabled service' -> stopped, not running
        "apply_timestep": {"RUNNING": {"RESTARTING"}},  # restart completion
    },
    "Application": {
        "run": {"RUNNING": {"CLOSED"}},  # 'Open the Application'
        "close": {"CLOSED": {"RUNNING"}},  # 'Close the Application'
        "install": {"INSTALLING": {"CLOSED"}},  # installation starts from a closed application
        "apply_timestep": {"RUNNING": {"INSTALLING"}},  # install completion
    },
}
# timed transitions: (class, starting method, state entered, countdown field, duration field)
TIMERS = [
    ("Service", "restart", "RESTARTING", "restart_countdown", "restart_duration"),
    ("Application", "install", "INSTALLING", "install_countdown", "install_duration"),
]

# who may write a service's / application's operating_state: function -> reason
SW_STATE_WRITERS = {
    "Service.stop": "RUNNING/PAUSED -> STOPPED",
    "Service.start": "STOPPED -> RUNNING",
    "Service.pause": "RUNNING -> PAUSED",
    "Service.resume": "PAUSED -> RUNNING",
    "Service.restart": "RUNNING/PAUSED -> RESTARTING",
    "Service.disable": "any -> DISABLED",
    "Service.enable": "DISABLED -> STOPPED",
    "Service.apply_timestep": "RESTARTING -> RUNNING when the restart countdown has elapsed",
    "Application.run": "CLOSED -> RUNNING",
    "Application.close": "RUNNING -> CLOSED",
    "Application.install": "CLOSED -> INSTALLING",
    "Application.apply_timestep": "INSTALLING -> RUNNING when the install countdown has elapsed",
    "SoftwareManager.install": "a freshly constructed application is registered CLOSED (initialisation, before any request)",
}

# ways a frame may be handed to the session manager besides the open-port test: kind -> reason
DELIVERY_EXCEPTIONS = {
    "icmp": "ICMP has no port; the frame goes to the ICMP service whose own running gate is R13.2's business",
    "nmap-running": "port-scan payloads are accepted on any port, but only while the local NMAP application is RUNNING",
}

PURE_METHODS = {"get", "keys", "values", "items", "copy", "lower", "upper", "startswith", "endswith", "format"}


# ===================================================================================================== helpers
def _expect_enum(ix: Index, name: str, want: Set[str]) -> Set[str]:
    got = set(ix.enum_members(ix.cls(name)))
    if got != want:
        raise AnalysisError(f"{name} members changed: {sorted(got)} (the frozen lifecycle table was confirmed for {sorted(want)})")
    return got


def _on_every_path_through(g: CFG, s: CNode, marks: List[CNode]) -> Optional[List[str]]:
    """None if every entry->exit path through s also passes one of marks; else a witness."""
    if not marks:
        return ["no such statement in the function"]
    bn = {m.id for m in marks}
    if s.id in bn:
        return None
    pre = g.path_avoiding([s], lambda e: False, blocked_nodes=bn)
    if pre is None:
        return None
    post = g.path_avoiding([g.exit], lambda e: False, start=s, blocked_nodes=bn)
    if post is None:
        return None
    return path_text(pre) + ["... store ..."] + path_text(post)


def _elapsed_edge(e: Edge, field: str, ld: LocalDefs) -> bool:
    """Edge on which `self.<field>` is known to have run out (`<= 0`, `< 1`, `== 0`, not `> 0`, either operand order)."""
    if not e.label or e.label[0] != "cond":
        return False
    ex, pol = ld.expand(e.label[1]), e.label[2]
    if isinstance(ex, ast.Attribute) and ex.attr == field and unparse(ex.value) == "self":
        return pol is False  # `if not self.<field>:` - zero (or None) is falsy
    if not (isinstance(ex, ast.Compare) and len(ex.ops) == 1):
        return False
    left, op, right = ex.left, ex.ops[0], ex.comparators[0]
    swap = {ast.Lt: ast.Gt, ast.Gt: ast.Lt, ast.LtE: ast.GtE, ast.GtE: ast.LtE, ast.Eq: ast.Eq, ast.NotEq: ast.NotEq}
    if isinstance(right, ast.Attribute) and right.attr == field and isinstance(left, ast.Constant):
        if type(op) not in swap:
            return False
        left, right, op = right, left, swap[type(op)]()
    if not (isinstance(left, ast.Attribute) and left.attr == field and unparse(left.value) == "self"
            and isinstance(right, ast.Constant) and isinstance(right.value, (int, float)) and not isinstance(right.value, bool)):
        return False
    v = right.value
    true_means_out = (isinstance(op, ast.LtE) and v == 0) or (isinstance(op, ast.Lt) and v == 1) or (isinstance(op, ast.Eq) and v == 0)
    false_means_out = (isinstance(op, ast.Gt) and v == 0) or (isinstance(op, ast.GtE) and v == 1) or (isinstance(op, ast.NotEq) and v == 0)
    return (true_means_out and pol) or (false_means_out and not pol)


def _elapsed_must_pass(g: CFG, sinks: List[CNode], field: str, ld: LocalDefs, what: str) -> Optional[List[Edge]]:
    """Witness path to a sink that avoids every `<field> has run out` edge (None = every path passes one).

    A condition that mentions the countdown but cannot be put into the elapsed/not-elapsed normal form is not evidence
    of a defect: exit 2."""
    p = g.path_avoiding(sinks, lambda e: _elapsed_edge(e, field, ld))
    if p is not None:
        for n in g.nodes:
            if n.kind != "cond":
                continue
            ex = ld.expand(n.ast)
            if not any(isinstance(x, ast.Attribute) and x.attr == field for x in ast.walk(ex)):
                continue
            if any(_elapsed_edge(e, field, ld) for e in g.succ[n.id]):
                continue
            plain = isinstance(ex, ast.Compare) and len(ex.ops) == 1 and all(
                isinstance(o, ast.Constant) or (isinstance(o, ast.Attribute) and o.attr == field) for o in [ex.left] + ex.comparators)
            if not plain:  # comparisons with a literal (`>= 0`, `is None`) are understood: they are just not 'elapsed' tests
                raise AnalysisError(f"{what}: countdown test `{unparse(ex)[:60]}` is not in a recognised elapsed/not-elapsed form")
    return p


def _stores_attr(n: CNode, subject: str, attr: str) -> Optional[ast.AST]:
    return store_of_field(n, subject, [attr])


def _is_abstract(ix: Index, c: ClassInfo) -> bool:
    """Python semantics: a class is abstract iff the first definition along the MRO of some name is an abstractmethod."""
    seen: Set[str] = set()
    for k in ix.mro(c):
        for name, f in k.methods.items():
            if name in seen:
                continue
            seen.add(name)
            if f.is_abstract:
                return True
    return False


def _next_in_mro(ix: Index, c: ClassInfo, after: ClassInfo, name: str) -> Optional[FuncInfo]:
    mro = ix.mro(c)
    if after not in mro:
        raise AnalysisError(f"{after.short} is not in the MRO of {c.short}")
    for k in mro[mro.index(after) + 1:]:
        if name in k.methods:
            return k.methods[name]
    return None


def _inline_state_aliases(fn_node: ast.AST, field: str, what: str) -> ast.AST:
    """`st = self.<field>` ... `if st == X:` -> `if self.<field> == X:` so that the shared guard normaliser sees the test.

    Only done when it is sound: the alias has a single definition and no store to the field (or call that may change it)
    can reach a use of the alias; otherwise the idiom is reported as not normalisable (exit 2).
    """
    ld = LocalDefs(fn_node)
    aliases: Dict[str, ast.AST] = {}
    for name, defs in ld.defs.items():
        vals = [v for v, idx, _ in defs if isinstance(v, ast.Attribute) and v.attr == field and idx is None]
        if not vals:
            continue
        if len(defs) != 1 or name in ld.params:
            raise AnalysisError(f"{what}: local '{name}' holds {field} but has several definitions - cannot normalise the guards")
        aliases[name] = vals[0]
    if not aliases:
        return fn_node
    g = CFG(fn_node)
    uses = [n for n in g.nodes if n.expr_root() is not None and not isinstance(n.expr_root(), (ast.FunctionDef, ast.ClassDef))
            and any(isinstance(x, ast.Name) and x.id in aliases and isinstance(x.ctx, ast.Load) for x in ast.walk(n.expr_root()))]
    changers = [n for n in g.nodes if n.kind == "stmt" and isinstance(n.ast, (ast.Assign, ast.AnnAssign, ast.AugAssign)) and any(
        isinstance(t, ast.Attribute) and t.attr == field for t, _, _ in store_targets(n.ast))]
    for c in changers:
        reach = g.reachable(start=c)
        if any(u.id in reach and u.id != c.id for u in uses):
            raise AnalysisError(f"{what}: a local copy of {field} is tested after the field was stored - cannot normalise")
    import copy

    class _Sub(ast.NodeTransformer):
        def visit_Name(self, node: ast.Name):  # noqa: N802
            if isinstance(node.ctx, ast.Load) and node.id in aliases:
                return copy.deepcopy(aliases[node.id])
            return node

    return ast.fix_missing_locations(_Sub().visit(copy.deepcopy(fn_node)))


# ===================================================================================================== R13.1
def _extract_table(ctx: Ctx, base: str, uni: Set[str], changers: Set[str]) -> Dict[str, Dict[str, Set[str]]]:
    """method -> {target: possible source states} by forward dataflow of self.operating_state over each method."""
    ix = ctx.ix
    out: Dict[str, Dict[str, Set[str]]] = {}
    for mname in TABLES[base]:
        fn = ix.method(f"{base}.{mname}")
        g = CFG(_inline_state_aliases(fn.node, "operating_state", f"R13.1 {fn.short}"))
        flow = state_flow(g, "self", ["operating_state"], uni,
                          havoc_call=lambda c: call_name(c) in changers and unparse(c.func).startswith(("self.", "super().")))
        got: Dict[str, Set[str]] = {}
        for n in g.nodes:
            v = _stores_attr(n, "self", "operating_state")
            if v is None:
                continue
            m = enum_member(v)
            if m is None or m[1] not in uni:
                raise AnalysisError(f"R13.1: non-literal state stored in {base}.{mname}: {unparse(v)}")
            got.setdefault(m[1], set()).update(flow[n.id])
        out[mname] = got
        want = {t: (set(uni) if s == ALL else set(s)) for t, s in TABLES[base][mname].items()}
        ok = got == want
        fmt = lambda d: "; ".join(f"{sorted(s)} -> {t}" for t, s in sorted(d.items())) or "no store"  # noqa: E731
        ctx.record("R13.1", ctx.key(fn, "transitions equal the documented table"), fn.loc(), ok,
                   f"extracted {fmt(got)}" + ("" if ok else f"; documented {fmt(want)}"))
    return out


def r13_1(ctx: Ctx, svc_uni: Set[str], app_uni: Set[str]) -> None:
    ix = ctx.ix
    ctx.rule("R13.1", "who-may-write operating_state of services/applications; extracted (sources -> target) of every "
                      "lifecycle method equals the documented table; countdowns start from their own duration and "
                      "complete on the elapsed edge; request validators demand a state the method accepts; overrides "
                      "call super() on every path and never store the state")
    software = ix.cls("Software")
    node = ix.cls("Node")
    # ---- who may write
    n_store = 0
    for s in stores_to_attr(ix, ["operating_state"]):
        vtxt = unparse(s.value) if s.value is not None else ""
        rc = recv_class(ix, s.fn, s.recv)
        kind = None
        if rc is not None:
            if ix.is_subclass(rc, software):
                kind = "software"
            elif ix.is_subclass(rc, node):
                kind = "node"
        if kind is None:
            if "ServiceOperatingState" in vtxt or "ApplicationOperatingState" in vtxt:
                kind = "software"
            elif "NodeOperatingState" in vtxt:
                kind = "node"
        if kind is None:
            raise AnalysisError(f"R13.1: cannot tell whose operating_state is stored at {s.where}: {unparse(s.node)[:80]}")
        if kind != "software":
            continue
        n_store += 1
        ok = s.owner in SW_STATE_WRITERS or bool(only_called_from(ix, s.fn, SW_STATE_WRITERS))
        ctx.record("R13.1", f"{s.path}::{s.owner}::store operating_state = {vtxt[:50]}", s.where, ok,
                   SW_STATE_WRITERS.get(s.owner, "writer of a software lifecycle state outside the lifecycle methods"))
    ctx.floor("R13.1", "stores to a service's/application's operating_state", n_store, 13)
    # ---- transition tables
    got = {
        "Service": _extract_table(ctx, "Service", svc_uni, set(TABLES["Service"])),
        "Application": _extract_table(ctx, "Application", app_uni, set(TABLES["Application"])),
    }
    # ---- timers
    for base, start_m, state, cd, dur in TIMERS:
        fn = ix.method(f"{base}.{start_m}")
        g = CFG(fn.node)
        entered = [n for n in g.nodes if (v := _stores_attr(n, "self", "operating_state")) is not None
                   and (enum_member(v) or ("", ""))[1] == state]
        loads = [n for n in g.nodes if (v := _stores_attr(n, "self", cd)) is not None
                 and isinstance(v, ast.Attribute) and v.attr == dur and unparse(v.value) in ("self", "self.config")]
        for n in entered:
            w = _on_every_path_through(g, n, loads)
            ctx.record("R13.1", ctx.key(fn, f"entering {state} loads {cd} from {dur}"), fn.loc(n.ast), w is None,
                       f"every path through the store of {state} also sets self.{cd} = self.{dur}" if w is None else
                       f"{state} can be entered without (re)loading {cd} from {dur}", w)
        if not entered:
            ctx.fail("R13.1", ctx.key(fn, f"entering {state} loads {cd} from {dur}"), fn.loc(), f"{fn.short} never stores {state}")
        at = ix.method(f"{base}.apply_timestep")
        g = CFG(at.node)
        ld = LocalDefs(at.node)
        done = [n for n in g.nodes if (v := _stores_attr(n, "self", "operating_state")) is not None]
        for n in done:
            p = _elapsed_must_pass(g, [n], cd, ld, f"R13.1 {at.short}")
            ctx.record("R13.1", ctx.key(at, f"{state} completes only when {cd} has run out"), at.loc(n.ast), p is None,
                       f"the completing store is reached only past the `{cd}` elapsed edge" if p is None else
                       f"{state} can complete without the countdown test", path_text(p))
            ticks = [x for x in g.nodes if x.kind == "stmt" and isinstance(x.ast, ast.AugAssign) and isinstance(x.ast.op, ast.Sub)
                     and isinstance(x.ast.target, ast.Attribute) and x.ast.target.attr == cd]
            ctx.record("R13.1", ctx.key(at, f"{cd} is decremented while {state}"), at.loc(), bool(ticks),
                       f"{len(ticks)} decrement(s) of self.{cd} in {at.short}" if ticks else f"{cd} never counts down")
    # ---- validators vs accepted sources
    tree = RequestTree(ix)
    if tree.problems:
        raise AnalysisError("request tree: " + "; ".join(tree.problems[:3]))
    n_req = 0
    for base, uni in (("Service", svc_uni), ("Application", app_uni)):
        b = ix.cls(base)
        life = set(TABLES[base]) - {"apply_timestep"}
        for c in ix.subclasses(b, include_self=True):
            for e in tree.slots.get((c.qualname, "root"), []):
                if e.target_kind != "handler":
                    continue
                if e.key not in life:
                    continue  # other requests (execute, scan, fix, ...) may call run() etc. as a side step; not lifecycle requests
                fnode = e.target[1]
                called = {call_name(k) for k in ast.walk(fnode) if isinstance(k, ast.Call) and isinstance(k.func, ast.Attribute)
                          and unparse(k.func.value) == "self"} & {e.key}
                if not called:
                    raise AnalysisError(f"R13.1: request {e.key!r} at {e.where} does not call self.{e.key}()")
                n_req += 1
                required = set(uni)
                for v in e.validators:
                    if v.cls is None or v.cls.name != "_StateValidator":
                        continue
                    try:
                        call = ast.parse(v.text, mode="eval").body
                    except SyntaxError:
                        raise AnalysisError(f"R13.1: cannot parse validator {v.text!r}")
                    st = kwarg(call, "state") if isinstance(call, ast.Call) else None
                    m = enum_member(st) if st is not None else None
                    if m is None or m[1] not in uni:
                        raise AnalysisError(f"R13.1: state validator without a literal state: {v.text}")
                    required &= {m[1]}
                for meth in sorted(called):
                    accepted: Set[str] = set()
                    for srcs in got[base].get(meth, {}).values():
                        accepted |= srcs
                    ok = required <= accepted and bool(required)
                    ctx.record("R13.1", f"{e.site.path}::{e.site.owner}::request {e.key_text()} -> {meth}()", e.where, ok,
                               f"validator admits {sorted(required)}; {base}.{meth} acts from {sorted(accepted)}" + (
                                   "" if ok else " - a request admitted by the validator would do nothing / be refused"))
    ctx.floor("R13.1", "lifecycle request registrations", n_req, 8)
    # ---- overrides
    n_ov = 0
    for base in ("Service", "Application"):
        b = ix.cls(base)
        for mname in TABLES[base]:
            for f in ix.overrides(b, mname):
                if f.cls is b:
                    continue
                n_ov += 1
                g = CFG(f.node)
                marks = nodes_calling(g, [mname], lambda c: unparse(c.func) == f"super().{mname}")
                p = g.path_avoiding([g.exit], lambda e: False, blocked_nodes={m.id for m in marks})
                ctx.record("R13.1", ctx.key(f, f"override calls super().{mname}() on every path"), f.loc(), p is None,
                           f"every normal exit passes super().{mname}()" if p is None else
                           f"{f.short} can return without super().{mname}(): the base transition / countdown is skipped",
                           path_text(p) or (["(straight-line path: no super() call at all)"] if p is not None else None))
                own = [unparse(t) for n in ast.walk(f.node) if isinstance(n, (ast.Assign, ast.AugAssign, ast.AnnAssign))
                       for t, _, _ in store_targets(n) if isinstance(t, ast.Attribute) and t.attr == "operating_state"]
                ctx.record("R13.1", ctx.key(f, "override does not store operating_state"), f.loc(), not own,
                           "no store to operating_state" if not own else f"stores {own}")
    ctx.floor("R13.1", "subclass overrides of lifecycle methods", n_ov, 8)


# ===================================================================================================== R13.2
class _Gates:
    """Which functions establish 'this software is RUNNING' (memoised, MRO-aware)."""

    def __init__(self, ix: Index, uni: Set[str]):
        self.ix = ix
        self.uni = uni
        self._tests: Dict[int, Tuple[bool, List[str]]] = {}
        self._recv: Dict[Tuple[int, str], bool] = {}

    def tests_running(self, f: FuncInfo, c: ClassInfo) -> Tuple[bool, List[str]]:
        """f (a _can_perform_action implementation) returns non-False only past `self.operating_state == RUNNING`,
        directly or through a super()/self call to an implementation that does."""
        k = id(f)
        if k in self._tests:
            return self._tests[k]
        self._tests[k] = (False, ["recursive"])
        g = CFG(f.node)
        ld = LocalDefs(f.node)
        rets = [n for n in g.nodes if n.kind == "stmt" and isinstance(n.ast, ast.Return) and not (
            isinstance(n.ast.value, ast.Constant) and n.ast.value.value in (False, None))]

        def sat(e: Edge) -> bool:
            es = edge_state_set(e, ["operating_state"], self.uni, ld)
            return es is not None and es[0] == "self" and set(es[1]) <= {"RUNNING"}

        p = g.path_avoiding(rets, sat) if rets else None
        res = (p is None, path_text(p) if p is not None else [])
        self._tests[k] = res
        return res

    def gate_call(self, call: ast.Call, defined_in: ClassInfo, c: ClassInfo) -> bool:
        txt = unparse(call.func)
        ix = self.ix
        if txt == "self._can_perform_action":
            t = ix.find_method(c, "_can_perform_action")
            return t is not None and self.tests_running(t, c)[0]
        if txt == "super()._can_perform_action":
            t = _next_in_mro(ix, c, defined_in, "_can_perform_action")
            return t is not None and self.tests_running(t, c)[0]
        if txt == "super().receive":
            t = _next_in_mro(ix, c, defined_in, "receive")
            return t is not None and self.receive_returns_gate(t, c)
        if txt.startswith("self.") and txt.count(".") == 1 and not call.args and not call.keywords:
            # a helper predicate of the class that itself answers True only past the running gate
            t = ix.find_method(c, txt.split(".")[1])
            return t is not None and not isinstance(t.node, ast.Lambda) and self.receive_returns_gate(t, c)
        return False

    def gate_edge(self, e: Edge, ld: LocalDefs, defined_in: ClassInfo, c: ClassInfo) -> bool:
        if not e.label or e.label[0] != "cond":
            return False
        es = edge_state_set(e, ["operating_state"], self.uni, ld)  # a direct `self.operating_state == RUNNING` test
        if es is not None and es[0] == "self" and set(es[1]) <= {"RUNNING"}:
            return True
        if e.label[2] is not True:
            return False
        ex = ld.expand(e.label[1])
        return isinstance(ex, ast.Call) and self.gate_call(ex, defined_in, c)

    def receive_returns_gate(self, f: FuncInfo, c: ClassInfo) -> bool:
        """f returns a truthy value only if the running gate held (so `if not super().receive(..): return` is a gate)."""
        k = (id(f), c.qualname)
        if k in self._recv:
            return self._recv[k]
        self._recv[k] = False
        g = CFG(f.node)
        ld = LocalDefs(f.node)
        d = f.cls
        ok = True
        for n in g.nodes:
            if n.kind != "stmt" or not isinstance(n.ast, ast.Return):
                continue
            v = n.ast.value
            if v is None or (isinstance(v, ast.Constant) and v.value in (False, None)):
                continue
            v2 = ld.expand(v)
            if isinstance(v2, ast.Call) and self.gate_call(v2, d, c):
                continue
            if g.path_avoiding([n], lambda e: self.gate_edge(e, ld, d, c)) is not None:
                ok = False
        if g.falls_through:
            pass  # falling off the end returns None (falsy)
        self._recv[k] = ok
        return ok


def _effect_nodes(g: CFG, is_gate: Callable[[ast.Call], bool]) -> List[CNode]:
    out = []
    for n in g.nodes:
        if n.kind not in ("stmt", "cond", "for", "with"):
            continue
        eff = False
        for c in node_calls(n):
            nm = call_name(c)
            if is_logging_call(c) or is_gate(c):
                continue
            if isinstance(c.func, ast.Name) and nm in PURE_BUILTINS:
                continue
            if isinstance(c.func, ast.Attribute) and nm in PURE_METHODS:
                continue
            if unparse(c.func) == "super":
                continue
            eff = True
            break
        if not eff and n.kind == "stmt" and isinstance(n.ast, (ast.Assign, ast.AugAssign, ast.AnnAssign, ast.Delete)):
            for t, v, kind in store_targets(n.ast):
                if isinstance(t, ast.Name):
                    continue
                # `self._flag = <constant>` consumes nothing of the payload: bookkeeping, not payload handling
                if kind in ("assign", "ann") and isinstance(v, ast.Constant) and isinstance(t, ast.Attribute) \
                        and unparse(t.value) == "self":
                    continue
                eff = True
        if eff:
            out.append(n)
    return out


def _dispatch_sites_gated(ctx: Ctx, uni: Set[str]) -> bool:
    """Are all `<receiver>.receive(...)` call sites of the dispatcher dominated by a RUNNING test on that receiver?"""
    ix = ctx.ix
    fn = ix.method("SoftwareManager.receive_payload_from_session_manager")
    g = CFG(fn.node)
    ld = LocalDefs(fn.node)
    sites = [(n, c) for n in g.nodes for c in node_calls(n) if call_name(c) == "receive" and isinstance(c.func, ast.Attribute)]
    ctx.floor("R13.2", "dispatch sites in SoftwareManager.receive_payload_from_session_manager", len(sites), 3)
    all_ok = True
    any_state_ref = False
    for n in ast.walk(fn.node):
        if (isinstance(n, ast.Attribute) and n.attr == "operating_state") or (
                isinstance(n, ast.Call) and call_name(n) == "_can_perform_action"):
            any_state_ref = True
    # helper predicates `def p(self?, x): return x.operating_state <test that holds only for RUNNING>` count as the test itself
    preds: Set[str] = set()
    owner = fn.cls
    # methods of the class and functions of its module alike
    cands = list(owner.methods.values() if owner else []) + [f_ for f_ in ix.all_functions() if f_.path == fn.path and f_.cls is None
                                                              and getattr(f_, "parent", None) is None]
    for m in cands:
        if isinstance(m.node, ast.Lambda):
            continue
        params = [a.arg for a in m.node.args.args if a.arg not in ("self", "cls")]
        rets = [r for r in ast.walk(m.node) if isinstance(r, ast.Return) and r.value is not None]
        if len(params) == 1 and len(rets) == 1:
            st = state_test(rets[0].value, ["operating_state"], uni)
            if st is not None and st[0] == params[0] and set(st[1]) <= {"RUNNING"}:
                preds.add(m.name)

    def pred_call_on(x: ast.AST, who: str) -> bool:
        return isinstance(x, ast.Call) and call_name(x) in preds and len(x.args) == 1 and unparse(x.args[0]) == who

    for node, call in sites:
        recv = unparse(call.func.value)

        def sat(e: Edge, recv=recv) -> bool:
            if e.label and e.label[0] == "cond" and e.label[2] is True and pred_call_on(ld.expand(e.label[1]), recv):
                return True
            es = edge_state_set(e, ["operating_state"], uni, ld)
            return es is not None and es[0] == recv and set(es[1]) <= {"RUNNING"}

        gated = g.path_avoiding([node], sat) is None
        if not gated and isinstance(call.func.value, ast.Name):
            # receiver drawn from a filtered comprehension: [s for s in ... if ... and s.operating_state == RUNNING]
            loops = [x for x in g.nodes if x.kind == "for" and isinstance(x.ast.target, ast.Name) and x.ast.target.id == recv]
            for lp in loops:
                src = ld.expand(lp.ast.iter)
                if isinstance(src, ast.ListComp) and len(src.generators) == 1 and isinstance(src.generators[0].target, ast.Name):
                    var = src.generators[0].target.id
                    conj: List[ast.AST] = []
                    for cond in src.generators[0].ifs:
                        conj.extend(cond.values if isinstance(cond, ast.BoolOp) and isinstance(cond.op, ast.And) else [cond])
                    for cj in conj:
                        st = state_test(cj, ["operating_state"], uni)
                        if st is not None and st[0] == var and set(st[1]) <= {"RUNNING"}:
                            gated = True
                        if pred_call_on(cj, var):
                            gated = True
        ctx.ok("R13.2", ctx.key(fn, f"dispatch to {recv}.receive " + ("tests" if gated else "does not test") + " the receiver's state"),
               fn.loc(call), ("receiver is RUNNING at this dispatch site" if gated else
                              "no RUNNING test on the receiver here: the gate must be inside every receive implementation"),
               trivial=True)
        all_ok = all_ok and gated
    if not all_ok and any_state_ref:
        raise AnalysisError("R13.2: the dispatcher mentions operating_state/_can_perform_action in a form that could not "
                            "be normalised into a per-receiver RUNNING gate")
    return all_ok


def r13_2(ctx: Ctx, uni: Set[str]) -> None:
    ix = ctx.ix
    ctx.rule("R13.2", "only running software handles payloads: dispatch sites test the receiver's RUNNING state, or "
                      "every concrete class's MRO-resolved receive passes _can_perform_action()/super().receive() "
                      "before any effect; _can_perform_action / _can_perform_network_action return True only past "
                      "the RUNNING edge")
    gates = _Gates(ix, uni)
    io = ix.cls("IOSoftware")
    # the running predicates themselves
    n_pred = 0
    for f in ix.overrides(io, "_can_perform_action"):
        if f.cls is io:
            continue
        n_pred += 1
        ok, w = gates.tests_running(f, f.cls)
        ctx.record("R13.2", ctx.key(f, "returns True only when RUNNING"), f.loc(), ok,
                   "every non-False return lies past `self.operating_state == RUNNING`" if ok else
                   "can report 'able to act' while not RUNNING", w)
    ctx.floor("R13.2", "_can_perform_action implementations", n_pred, 2)
    n_net = 0
    for f in ix.overrides(io, "_can_perform_network_action"):
        n_net += 1
        g = CFG(f.node)
        ld = LocalDefs(f.node)
        rets = [n for n in g.nodes if n.kind == "stmt" and isinstance(n.ast, ast.Return) and not (
            isinstance(n.ast.value, ast.Constant) and n.ast.value.value in (False, None))]
        p = g.path_avoiding(rets, lambda e: gates.gate_edge(e, ld, f.cls, f.cls))
        used = sorted({unparse(c.func) for c in calls_in(f.node) if call_name(c) == "_can_perform_action"})
        tgt = []
        for u in used:
            t = _next_in_mro(ix, f.cls, f.cls, "_can_perform_action") if u.startswith("super()") else ix.find_method(f.cls, "_can_perform_action")
            tgt.append(f"{u}() -> {t.short if t else '?'}")
        ctx.record("R13.2", ctx.key(f, "network actions only when RUNNING"), f.loc(), p is None,
                   (f"returns True only past a running test ({', '.join(tgt)})" if p is None else
                    f"returns True without a running test: {', '.join(tgt) or 'no _can_perform_action call'} does not test "
                    "operating_state"), path_text(p))
    ctx.floor("R13.2", "_can_perform_network_action implementations", n_net, 2)
    central = _dispatch_sites_gated(ctx, uni)
    # every concrete class
    n_cls = 0
    impls: Set[int] = set()
    for base in ("Service", "Application"):
        b = ix.cls(base)
        for c in ix.subclasses(b):
            if _is_abstract(ix, c):
                continue
            f = ix.find_method(c, "receive")
            if f is None:
                raise AnalysisError(f"R13.2: {c.short} has no receive along its MRO")
            n_cls += 1
            impls.add(id(f))
            key = f"{c.path}::{c.short}::receive acts only when RUNNING"
            if central:
                ctx.ok("R13.2", key, f.loc(), "all dispatch sites test the receiver's RUNNING state")
                continue
            d = f.cls
            g = CFG(f.node)
            ld = LocalDefs(f.node)
            is_gate = lambda call: gates.gate_call(call, d, c)  # noqa: E731
            eff = _effect_nodes(g, is_gate)
            if not eff:
                ok_ret = gates.receive_returns_gate(f, c)
                ctx.record("R13.2", key, f.loc(), ok_ret,
                           f"{f.short} has no effect of its own and reports success only when running" if ok_ret else
                           f"{f.short} reports success without the running test")
                continue
            p = g.path_avoiding(eff, lambda e: gates.gate_edge(e, ld, d, c))
            first = None
            if p is not None:
                last = p[-1].dst if p else None
                first = next((x for x in eff if last is not None and x.id == last.id), eff[0])
            ctx.record("R13.2", key, f.loc(), p is None,
                       f"{f.short}: every effect lies past _can_perform_action()/super().receive()" if p is None else
                       f"{f.short} reaches `{unparse(first.expr_root())[:70]}` (line {first.lineno}) without any running test",
                       path_text(p))
    ctx.floor("R13.2", "concrete Service/Application classes", n_cls, 22)
    ctx.floor("R13.2", "distinct receive implementations resolved", len(impls), 17)


# ===================================================================================================== R13.3
class _Accept:
    """Normal form of 'this frame may be delivered': which kinds of acceptance does an edge establish?"""

    def __init__(self, ix: Index, g: CFG, uni: Set[str], verified_helpers: Set[str]):
        self.ix, self.g, self.uni = ix, g, uni
        self.ld = LocalDefs(g.fn)
        self.helpers = verified_helpers
        self.kinds: Set[str] = set()
        self._busy: Set[str] = set()

    def expr(self, ex: ast.AST, depth: int = 0) -> Optional[Set[str]]:
        """Set of acceptance kinds established when `ex` is truthy, or None if ex establishes nothing."""
        if depth > 16:
            return None
        if isinstance(ex, ast.Compare) and len(ex.ops) == 1 and isinstance(ex.ops[0], ast.In):
            rhs = self.ld.expand(ex.comparators[0])
            if isinstance(rhs, ast.Call) and call_name(rhs) == "get_open_ports":
                return {"open-port"}
        if isinstance(ex, ast.Call) and call_name(ex) in ({"check_port_is_open"} | self.helpers):
            return {"open-port"}
        if isinstance(ex, ast.Attribute) and ex.attr == "icmp":
            return {"icmp"}
        st = state_test(ex, ["operating_state"], self.uni)
        if st is not None and set(st[1]) <= {"RUNNING"} and "nmap" in st[0]:
            return {"nmap-running"}
        if isinstance(ex, ast.BoolOp):
            subs = [self.expr(v, depth + 1) for v in ex.values]
            if isinstance(ex.op, ast.And):
                got = [s for s in subs if s is not None]
                return set().union(*got) if got else None
            if any(s is None for s in subs):
                return None
            return set().union(*subs)
        if isinstance(ex, ast.Name):
            return self.flag(ex.id, depth + 1)
        return None

    def flag(self, name: str, depth: int) -> Optional[Set[str]]:
        """A local flag is accepting iff every definition that can make it truthy is itself accepting."""
        if name in self._busy or name in self.ld.params:
            return None
        defs = self.ld.defs.get(name, [])
        if not defs:
            return None
        self._busy.add(name)
        try:
            kinds: Set[str] = set()
            for v, idx, stmt in defs:
                if v is None or idx is not None:
                    return None
                if isinstance(v, ast.Constant) and not v.value:
                    continue
                if isinstance(v, ast.Constant):  # flag = True: the store itself must sit behind accepting edges
                    nodes = [n for n in self.g.nodes if n.ast is stmt]
                    if not nodes:
                        return None
                    sub: Set[str] = set()

                    def acc(e: Edge, sub=sub) -> bool:
                        k = self.edge(e, depth + 1)
                        if k:
                            sub.update(k)
                            return True
                        return False

                    if self.g.path_avoiding(nodes, acc) is not None:
                        return None
                    kinds |= sub
                    continue
                k = self.expr(v, depth + 1)
                if k is None:
                    return None
                kinds |= k
            return kinds or None
        finally:
            self._busy.discard(name)

    def edge(self, e: Edge, depth: int = 0) -> Optional[Set[str]]:
        if not e.label or e.label[0] != "cond" or e.label[2] is not True:
            return None
        return self.expr(e.label[1], depth)

    def blocked(self, e: Edge) -> bool:
        k = self.edge(e)
        if k:
            self.kinds |= k
            return True
        return False


def r13_3(ctx: Ctx, uni: Set[str]) -> None:
    ix = ctx.ix
    ctx.rule("R13.3", "open ports = running software: get_open_ports / check_port_is_open list a port only past the "
                      "owner's RUNNING edge; frames reach the session manager only past an open-port test (ICMP and "
                      "running-nmap exceptions justified)")
    # get_open_ports
    fn = ix.method("SoftwareManager.get_open_ports")
    g = CFG(fn.node)
    ld = LocalDefs(fn.node)
    ret_names = {unparse(n.ast.value) for n in g.nodes if n.kind == "stmt" and isinstance(n.ast, ast.Return) and n.ast.value is not None}
    if not ret_names or not all(r.isidentifier() for r in ret_names):
        raise AnalysisError(f"R13.3: get_open_ports does not return a local list it built ({sorted(ret_names)})")
    adds: List[Tuple[CNode, ast.AST]] = []
    for n in g.nodes:
        if n.kind != "stmt":
            continue
        a = n.ast
        if isinstance(a, ast.AugAssign) and isinstance(a.target, ast.Name) and a.target.id in ret_names:
            adds.append((n, a.value))
        elif isinstance(a, ast.Expr) and isinstance(a.value, ast.Call) and isinstance(a.value.func, ast.Attribute) \
                and unparse(a.value.func.value) in ret_names and a.value.func.attr in ("append", "extend", "add", "update", "insert"):
            adds.append((n, a.value.args[-1] if a.value.args else a.value))
        elif isinstance(a, ast.Assign) and any(isinstance(t, ast.Name) and t.id in ret_names for t in a.targets):
            if not (isinstance(a.value, (ast.List, ast.Set)) and not a.value.elts) and not (
                    isinstance(a.value, ast.Call) and not a.value.args and call_name(a.value) in ("list", "set")):
                raise AnalysisError(f"R13.3: get_open_ports builds its result in an unrecognised way: {unparse(a)[:80]}")
    if not adds:
        raise AnalysisError("R13.3: no port is ever added to the list get_open_ports returns")
    for n, val in adds:
        owners = {x.id for x in ast.walk(val) if isinstance(x, ast.Name)}

        def sat(e: Edge, owners=owners) -> bool:
            es = edge_state_set(e, ["operating_state"], uni, ld)
            return es is not None and es[0] in owners and set(es[1]) <= {"RUNNING"}

        p = g.path_avoiding([n], sat)
        ctx.record("R13.3", ctx.key(fn, f"port source `{unparse(val)[:40]}` listed only when its owner is RUNNING"), fn.loc(n.ast),
                   p is None, "reached only past `<owner>.operating_state in {RUNNING}`" if p is None else
                   "a port of software that is not running can be reported open", path_text(p))
    ctx.floor("R13.3", "port sources in get_open_ports", len(adds), 2)
    # check_port_is_open
    fn = ix.method("SoftwareManager.check_port_is_open")
    g = CFG(fn.node)
    ld = LocalDefs(fn.node)
    rets = [n for n in g.nodes if n.kind == "stmt" and isinstance(n.ast, ast.Return) and not (
        isinstance(n.ast.value, ast.Constant) and n.ast.value.value in (False, None))]
    if not rets:
        raise AnalysisError("R13.3: check_port_is_open has no accepting return")

    def sat2(e: Edge) -> bool:
        es = edge_state_set(e, ["operating_state"], uni, ld)
        return es is not None and set(es[1]) <= {"RUNNING"}

    p = g.path_avoiding(rets, sat2)
    ctx.record("R13.3", ctx.key(fn, "answers 'open' only for RUNNING software"), fn.loc(), p is None,
               "every non-False return lies past the RUNNING edge" if p is None else "port reported open without a running owner",
               path_text(p))
    # helper predicates that wrap the open-port test (Router.check_send_frame_to_session_manager and overrides)
    helpers: Set[str] = set()
    n_helpers = 0
    for f in ix.functions:
        if f.name == "check_send_frame_to_session_manager" and f.cls is not None:
            n_helpers += 1
            g = CFG(f.node)
            acc = _Accept(ix, g, uni, set())
            rets = [n for n in g.nodes if n.kind == "stmt" and isinstance(n.ast, ast.Return) and not (
                isinstance(n.ast.value, ast.Constant) and n.ast.value.value in (False, None))]
            bad_ret = [n for n in rets if not (isinstance(n.ast.value, ast.Constant) and n.ast.value.value is True)
                       and acc.expr(acc.ld.expand(n.ast.value)) is None]
            p = g.path_avoiding([n for n in rets if isinstance(n.ast.value, ast.Constant)], acc.blocked)
            for n in rets:
                if not isinstance(n.ast.value, ast.Constant):
                    k = acc.expr(acc.ld.expand(n.ast.value))
                    if k:
                        acc.kinds |= k
            extra = acc.kinds - {"open-port"} - set(DELIVERY_EXCEPTIONS)
            ok = p is None and not bad_ret and "open-port" in acc.kinds and not extra
            ctx.record("R13.3", ctx.key(f, "says 'deliver' only past the open-port test"), f.loc(), ok,
                       f"accepting returns lie past {sorted(acc.kinds)}" + ("" if ok else " - a frame for a closed port can be accepted"),
                       path_text(p))
            if ok:
                helpers.add(f.name)
    ctx.floor("R13.3", "check_send_frame_to_session_manager implementations", n_helpers, 1)
    # every hand-over of a frame to the session manager
    n_del = 0
    deliveries = [cs for cs in call_sites(ix, ["receive_frame"]) if cs.fn is not None and isinstance(cs.call.func, ast.Attribute)
                  and unparse(cs.call.func.value).endswith("session_manager")]
    for cs in deliveries:
        n_del += 1
        g = CFG(cs.fn.node)
        sinks = [n for n in g.nodes if any(c is cs.call for c in node_calls(n))]
        if not sinks:
            raise AnalysisError(f"R13.3: delivery call at {cs.where} not found in the CFG of {cs.owner}")
        acc = _Accept(ix, g, uni, helpers)
        p = g.path_avoiding(sinks, acc.blocked)
        extra = acc.kinds - {"open-port"} - set(DELIVERY_EXCEPTIONS)
        ok = p is None and "open-port" in acc.kinds and not extra
        # several deliveries in one function (Firewall) are told apart by their ordinal, not by line
        ordinal = sum(1 for o in deliveries if o.fn is cs.fn and o.call.lineno < cs.call.lineno)
        ctx.record("R13.3", ctx.key(cs.fn, f"delivery #{ordinal + 1} to the session manager only past the open-port test"), cs.where, ok,
                   (f"reached only past {sorted(acc.kinds)}" + "".join(f"; {k}: {DELIVERY_EXCEPTIONS[k]}" for k in sorted(acc.kinds) if k in DELIVERY_EXCEPTIONS))
                   if ok else "a frame can reach the session manager without the open-port test", path_text(p))
    ctx.floor("R13.3", "frame hand-overs to a session manager", n_del, 5)


# ===================================================================================================== R13.4
REGISTRIES = {
    # attribute -> (what it is, how software is added, how it is removed)
    "software": "name -> instance (what is installed)",
    "port_protocol_mapping": "(port, protocol) -> instance (dispatch table and source of the open ports)",
    "applications": "node.applications: uuid -> application (reported state)",
    "services": "node.services: uuid -> service (reported state)",
    "_application_request_manager": "request route node/application/<name>",
    "_service_request_manager": "request route node/service/<name>",
}
ADD_CALLS = {"add_request", "append", "add", "update", "setdefault", "extend", "insert"}
DEL_CALLS = {"remove_request", "pop", "remove", "discard", "clear", "popitem"}


def _registry_ops(fn: FuncInfo) -> Dict[str, Dict[str, List[ast.AST]]]:
    """attribute -> {'add': [...nodes], 'del': [...nodes]} for the registries touched in fn (any receiver)."""
    ops: Dict[str, Dict[str, List[ast.AST]]] = {}

    def note(attr: str, kind: str, node: ast.AST) -> None:
        ops.setdefault(attr, {"add": [], "del": []})[kind].append(node)

    for n in ast.walk(fn.node):
        if isinstance(n, (ast.FunctionDef, ast.Lambda)) and n is not fn.node:
            continue
        if isinstance(n, (ast.Assign, ast.AugAssign, ast.Delete)):
            for t, _, kind in store_targets(n):
                if isinstance(t, ast.Subscript) and isinstance(t.value, ast.Attribute):
                    note(t.value.attr, "del" if kind == "del" else "add", n)
        elif isinstance(n, ast.Call) and isinstance(n.func, ast.Attribute):
            base = n.func.value
            # multi-valued registries: reg[k].append(x) / reg.setdefault(k, []).append(x)
            while isinstance(base, ast.Subscript) or (isinstance(base, ast.Call) and isinstance(base.func, ast.Attribute)
                                                      and base.func.attr in ("setdefault", "get")):
                base = base.value if isinstance(base, ast.Subscript) else base.func.value
            if isinstance(base, ast.Attribute):
                if n.func.attr in ADD_CALLS:
                    note(base.attr, "add", n)
                elif n.func.attr in DEL_CALLS:
                    note(base.attr, "del", n)
    return ops


def _isinstance_guard(g: CFG, target: ast.AST) -> Optional[str]:
    """Class name C such that the statement containing `target` is reached only past `isinstance(x, C)` being true."""
    nodes = [n for n in g.nodes if n.expr_root() is not None and any(x is target for x in ast.walk(n.expr_root()))]
    if not nodes:
        return None
    names: Set[str] = set()
    for e in g.edges():
        if e.label and e.label[0] == "cond" and isinstance(e.label[1], ast.Call) and call_name(e.label[1]) == "isinstance" \
                and len(e.label[1].args) == 2:
            names.add(unparse(e.label[1].args[1]))
    for nm in sorted(names):
        def sat(e: Edge, nm=nm) -> bool:
            return bool(e.label and e.label[0] == "cond" and e.label[2] is True and isinstance(e.label[1], ast.Call)
                        and call_name(e.label[1]) == "isinstance" and len(e.label[1].args) == 2 and unparse(e.label[1].args[1]) == nm)
        if g.path_avoiding(nodes, sat) is None:
            return nm
    return None


def _declared_endpoint(ix: Index, c: ClassInfo) -> Optional[Tuple[str, str]]:
    """(port, protocol) a software class declares in its __init__ (`kwargs["port"] = PORT_LOOKUP["NTP"]`), by MRO."""
    for k in ix.mro(c):
        init = k.methods.get("__init__")
        if init is None:
            continue
        got: Dict[str, str] = {}
        for n in ast.walk(init.node):
            if isinstance(n, ast.Assign) and len(n.targets) == 1 and isinstance(n.targets[0], ast.Subscript):
                t = n.targets[0]
                if isinstance(t.value, ast.Name) and t.value.id == "kwargs" and isinstance(t.slice, ast.Constant) \
                        and t.slice.value in ("port", "protocol") and isinstance(n.value, ast.Subscript) \
                        and isinstance(n.value.slice, ast.Constant):
                    got[t.slice.value] = str(n.value.slice.value)
        if "port" in got and "protocol" in got:
            return got["port"], got["protocol"]
    return None


def r13_4(ctx: Ctx) -> None:
    ix = ctx.ix
    ctx.rule("R13.4", "install adds to and uninstall removes from the same registries under the same type guard; no "
                      "SoftwareManager registry is read/popped but never populated; node-level install/uninstall "
                      "requests delegate to the software manager")
    inst = ix.method("SoftwareManager.install")
    unin = ix.method("SoftwareManager.uninstall")
    gi, gu = CFG(inst.node), CFG(unin.node)
    oi, ou = _registry_ops(inst), _registry_ops(unin)
    n_reg = 0
    for attr, what in REGISTRIES.items():
        adds = oi.get(attr, {}).get("add", [])
        dels = ou.get(attr, {}).get("del", [])
        if not adds and not dels:
            raise AnalysisError(f"R13.4: registry '{attr}' ({what}) is touched by neither install nor uninstall - anchor moved")
        n_reg += 1
        gi_guard = sorted({_isinstance_guard(gi, a) or "-" for a in adds})
        gu_guard = sorted({_isinstance_guard(gu, d) or "-" for d in dels})
        ok = bool(adds) and bool(dels) and gi_guard == gu_guard
        ctx.record("R13.4", f"{inst.path}::SoftwareManager::registry {attr} added on install and removed on uninstall", inst.loc(), ok,
                   f"{what}: {len(adds)} add(s) in install under isinstance guard {gi_guard}, {len(dels)} removal(s) in uninstall "
                   f"under {gu_guard}" + ("" if ok else " - install and uninstall disagree"))
    for attr in sorted(set(oi) | set(ou)):
        if attr in REGISTRIES:
            continue
        adds, dels = oi.get(attr, {}).get("add", []), ou.get(attr, {}).get("del", [])
        if adds and not dels:
            ctx.fail("R13.4", f"{inst.path}::SoftwareManager::registry {attr} added on install and removed on uninstall", inst.loc(adds[0]),
                     f"install adds to '{attr}' but uninstall never removes from it")
    ctx.floor("R13.4", "registries kept by install/uninstall", n_reg, 6)
    # the install request answers "already installed" exactly when the requested *name* is in the table install() fills (keyed by
    # name): any other test (class identity, isinstance - DoSBot is a DatabaseClient) reports software installed that is not there
    irm = ix.method("Node._init_request_manager")
    h = next((f for f in ix.nested_funcs(irm) if f.name == "_install_application"), None)
    if h is None:
        raise AnalysisError("R13.4: the application install handler was not found")
    gh = CFG(h.node)
    ldh = LocalDefs(h.node)
    already = [n for n in gh.nodes if n.kind == "stmt" and isinstance(n.ast, ast.Return) and n.ast.value is not None and "already installed" in unparse(n.ast.value)]
    if not already:
        raise AnalysisError("R13.4: the install handler no longer answers 'already installed'")

    def name_lookup(e) -> bool:
        if not (e.label and e.label[0] == "cond" and e.label[2] is True):
            return False
        x = ldh.expand(e.label[1])
        key_ok = lambda k: isinstance(ldh.expand(k), ast.Subscript) and unparse(ldh.expand(k).value) == h.node.args.args[0].arg
        if isinstance(x, ast.Call) and isinstance(x.func, ast.Attribute) and x.func.attr == "get" and unparse(x.func.value).endswith("software_manager.software") \
                and x.args and key_ok(x.args[0]):
            return True
        if isinstance(x, ast.Compare) and len(x.ops) == 1 and isinstance(x.ops[0], ast.In) and unparse(x.comparators[0]).endswith("software_manager.software") \
                and key_ok(x.left):
            return True
        return False

    p = gh.path_avoiding(already, name_lookup)
    ctx.record("R13.4", ctx.key(h, "'already installed' is decided by the requested name in software_manager.software"), h.loc(already[0].ast), p is None,
               "answered only on the edge where the requested name is found in the software table" if p is None else
               "the 'already installed' answer does not rest on a look-up of the requested name in the table install() fills: a request can be "
               "acknowledged while the software, its route and its port are absent", path_text(p))
    # the dispatch table is single-valued: installing a package must not silently evict another package's entry
    groups: Dict[Tuple[str, str], List[str]] = {}
    for base in ("Service", "Application"):
        for c in ix.subclasses(ix.cls(base)):
            if _is_abstract(ix, c):
                continue
            ep = _declared_endpoint(ix, c)
            if ep is not None and ep[0] != "NONE":
                groups.setdefault(ep, []).append(c.short)
    shared = {k: sorted(v) for k, v in groups.items() if len(v) > 1}
    ctx.floor("R13.4", "software classes with a declared (port, protocol)", sum(len(v) for v in groups.values()), 10)
    ld_i = LocalDefs(inst.node)
    for a in oi.get("port_protocol_mapping", {}).get("add", []):
        nodes = [n for n in gi.nodes if n.expr_root() is not None and any(x is a for x in ast.walk(n.expr_root()))]
        if not nodes:
            raise AnalysisError("R13.4: the port_protocol_mapping store of install was not found in the CFG")

        def absent(e: Edge) -> bool:
            if not e.label or e.label[0] != "cond":
                return False
            ex, pol = ld_i.expand(e.label[1]), e.label[2]
            if isinstance(ex, ast.Compare) and len(ex.ops) == 1 and isinstance(ex.ops[0], (ast.In, ast.NotIn)) \
                    and "port_protocol_mapping" in unparse(ex.comparators[0]):
                return pol == isinstance(ex.ops[0], ast.NotIn)
            if isinstance(ex, ast.Call) and call_name(ex) == "get" and "port_protocol_mapping" in unparse(ex.func):
                return pol is False
            if isinstance(ex, ast.Compare) and len(ex.ops) == 1 and isinstance(ex.ops[0], (ast.Is, ast.IsNot)) \
                    and isinstance(ex.left, ast.Call) and call_name(ex.left) == "get" and "port_protocol_mapping" in unparse(ex.left.func):
                return pol == isinstance(ex.ops[0], ast.Is)
            return False

        p = gi.path_avoiding(nodes, absent)
        multi = isinstance(a, ast.Call) and not isinstance(a.func.value, ast.Attribute)  # reg[k].append / setdefault(k, []).append
        repoints = bool(ou.get("port_protocol_mapping", {}).get("add"))  # uninstall hands the key to a remaining package
        ok = p is None or not shared or multi or repoints
        ctx.record("R13.4", ctx.key(inst, "a package sharing (port, protocol) with an installed one does not evict its dispatch entry"),
                   inst.loc(a), ok,
                   ("the entry is stored only when the key is free" if p is None else "the table keeps several packages per key" if multi
                    else "uninstall re-points the key to a remaining package" if repoints else "no two shipped classes share an endpoint") if ok else
                   "port_protocol_mapping[(port, protocol)] is overwritten unconditionally, and uninstall pops the key by the "
                   f"package's name, although these classes share an endpoint: {'; '.join(f'{k[0]}/{k[1]}: {v}' for k, v in sorted(shared.items()))}"
                   " - after installing and uninstalling one of them the other is RUNNING with its port closed and no dispatch entry")
    # uninstall side: only the entry that belongs to the package being uninstalled may be removed from the dispatch table
    un = ix.method("SoftwareManager.uninstall")
    gu = CFG(un.node)
    ld_u = LocalDefs(un.node)
    removals = []
    for n in gu.nodes:
        for c in node_calls(n):
            if isinstance(c.func, ast.Attribute) and c.func.attr in ("pop", "__delitem__") and "port_protocol_mapping" in unparse(c.func.value):
                removals.append(n)
        if n.kind == "stmt" and isinstance(n.ast, ast.Delete) and any("port_protocol_mapping" in unparse(t) for t in n.ast.targets):
            removals.append(n)

    def owned(e: Edge) -> bool:
        if not (e.label and e.label[0] == "cond" and e.label[2] is True):
            return False
        ex = ld_u.expand(e.label[1])
        if isinstance(ex, ast.Compare) and len(ex.ops) == 1 and isinstance(ex.ops[0], (ast.Eq, ast.Is)):
            sides = [unparse(ex.left), unparse(ex.comparators[0])]
            return any(t in ("software_name", "software.name", "software") for t in sides) and any(
                t not in ("software_name", "software.name", "software") for t in sides)
        return False

    if removals:
        p_u = gu.path_avoiding(removals, owned)
        ctx.record("R13.4", ctx.key(un, "uninstall removes only the dispatch entry owned by the uninstalled package"), un.loc(removals[0].ast),
                   p_u is None,
                   "the (port, protocol) entry is removed only past a test that it belongs to the package being uninstalled" if p_u is None else
                   "uninstall drops the (port, protocol) entry whoever owns it: a co-installed package that shares the endpoint "
                   f"({'; '.join(f'{k[0]}/{k[1]}: {v}' for k, v in sorted(shared.items()))[:160]}) stays RUNNING without dispatch entry or open port",
                   path_text(p_u))
    # registries of the SoftwareManager that are consulted but never populated
    sm = ix.cls("SoftwareManager")
    init = ix.method("SoftwareManager.__init__")
    containers: Dict[str, ast.AST] = {}
    for n in ast.walk(init.node):
        tgt = val = None
        if isinstance(n, ast.AnnAssign):
            tgt, val = n.target, n.value
        elif isinstance(n, ast.Assign) and len(n.targets) == 1:
            tgt, val = n.targets[0], n.value
        if isinstance(tgt, ast.Attribute) and unparse(tgt.value) == "self" and isinstance(val, (ast.Dict, ast.List, ast.Set)) and not (
                getattr(val, "keys", None) or getattr(val, "elts", None)):
            containers[tgt.attr] = n
    ctx.floor("R13.4", "empty containers created in SoftwareManager.__init__", len(containers), 3)
    stores = stores_to_attr(ix, list(containers))
    for attr, decl in sorted(containers.items()):
        adds = [s for s in stores if s.attr == attr and (s.kind == "item" or (s.kind.startswith("mutcall:") and s.kind.split(":")[1] in ADD_CALLS))
                and s.fn is not init]
        # re-assignment of the whole container from something non-empty also counts as a write
        adds += [s for s in stores if s.attr == attr and s.kind in ("assign", "ann", "aug") and s.fn is not init]
        dels = [s for s in stores if s.attr == attr and (s.kind == "itemdel" or (s.kind.startswith("mutcall:") and s.kind.split(":")[1] in DEL_CALLS))]
        reads = 0
        for f in sm.methods.values():
            for n in ast.walk(f.node):
                if isinstance(n, ast.Attribute) and n.attr == attr and isinstance(n.ctx, ast.Load) and unparse(n.value) == "self":
                    reads += 1
        ok = bool(adds) or (not dels and reads == 0)
        ctx.record("R13.4", f"{init.path}::SoftwareManager::registry {attr} is populated somewhere", init.loc(decl), ok,
                   f"{len(adds)} populating store(s), {len(dels)} removal(s), {reads} read(s) inside SoftwareManager" + (
                       "" if ok else " - consulted/popped but never written: every membership test on it is vacuously false"))
    # node-level install / uninstall requests
    nrm = ix.method("Node._init_request_manager")
    nested = {f.name: f for f in ix.nested_funcs(nrm)}
    for nm, deleg in (("_install_application", "install"), ("_uninstall_application", "uninstall")):
        f = nested.get(nm)
        if f is None:
            raise AnalysisError(f"R13.4: Node._init_request_manager no longer defines {nm}")
        g = CFG(f.node)
        marks = nodes_calling(g, [deleg], lambda c: unparse(c.func) == f"self.software_manager.{deleg}")
        ctx.record("R13.4", ctx.key(f, f"delegates to software_manager.{deleg}"), f.loc(), bool(marks),
                   f"calls self.software_manager.{deleg}(...)" if marks else f"does not go through SoftwareManager.{deleg}")
        ops = _registry_ops(f)
        if deleg == "install":
            stray = sorted(a for a, k in ops.items() if k["add"] and not ou.get(a, {}).get("del"))
            ctx.record("R13.4", ctx.key(f, "adds only to registries that uninstall clears"), f.loc(), not stray,
                       f"own additions {sorted(a for a, k in ops.items() if k['add'])} are all removed by SoftwareManager.uninstall"
                       if not stray else f"adds to {stray}, which SoftwareManager.uninstall never clears")
        else:
            own = sorted(a for a, k in ops.items() if k["del"])
            ctx.record("R13.4", ctx.key(f, "makes no partial removal of its own"), f.loc(), not own,
                       "removal is left entirely to SoftwareManager.uninstall" if not own else f"removes from {own} itself")


def r13_4_guards(ctx: Ctx) -> None:
    """Contradiction rule: `if k in A.request_types: B.remove_request(k)` believes that k is registered on the manager it is about to
    change; A and B must be the same manager (a guard on another table skips the removal, or lets it raise)."""
    ix = ctx.ix
    n = 0
    for cs in call_sites(ix, ["remove_request", "add_request"]):
        if cs.fn is None or isinstance(cs.fn.node, ast.Lambda) or not isinstance(cs.call.func, ast.Attribute) or not cs.call.args:
            continue
        recv = unparse(cs.call.func.value)
        key = unparse(cs.call.args[0])
        g = CFG(cs.fn.node)
        node = next((x for x in g.nodes if any(c is cs.call for c in node_calls(x))), None)
        if node is None:
            continue
        for e in g.edges():
            if not (e.label and e.label[0] == "cond"):
                continue
            x = e.label[1]
            if isinstance(x, ast.Compare) and len(x.ops) == 1 and isinstance(x.ops[0], ast.In) and unparse(x.left) == key \
                    and unparse(x.comparators[0]).endswith(".request_types"):
                # does this test guard the call (the call is unreachable without passing one of the test's arms)?
                if g.path_avoiding([node], lambda e2: e2.src is e.src) is not None:
                    continue
                tested = unparse(x.comparators[0])[:-len(".request_types")]
                n += 1
                ctx.record("R13.4", ctx.key(cs.fn, f"{call_name(cs.call)}({key}) on {recv} is guarded by a test of the same manager"), cs.where,
                           tested == recv, f"guard tests `{key} in {tested}.request_types`" + ("" if tested == recv else
                           f" but the call changes {recv}: the route on {recv} is kept (or the call raises) whenever the two tables differ"))
    ctx.count("R13.4: guarded route registrations", n)


def r13_5(ctx: Ctx) -> None:
    """Service.start / Application.run refuse while their node is not ON (R13.2's gate), so the node's bulk start-up is a no-op
    unless the node has been switched ON before it runs: software 'follows its lifecycle under node power events' only then."""
    ix = ctx.ix
    ctx.rule("R13.5", "the node switches itself ON before it starts its software: every call of the bulk start-up routine is "
                      "preceded on every path by the store operating_state = ON")
    node = ix.cls("Node")
    starters = []
    for m in node.methods.values():
        if isinstance(m.node, ast.Lambda):
            continue
        for loop in ast.walk(m.node):
            if isinstance(loop, ast.For) and unparse(loop.iter).startswith(("self.services", "self.applications")):
                if any(isinstance(c, ast.Call) and isinstance(c.func, ast.Attribute) and c.func.attr in ("start", "run")
                       for c in ast.walk(loop)):
                    starters.append(m)
                    break
    if not starters:
        raise AnalysisError("R13.5: no Node method that starts all services/applications found")
    gate = ix.method("Service.start")
    if not any(isinstance(c, ast.Call) and call_name(c) == "_can_perform_action" for c in ast.walk(gate.node)):
        ctx.ok("R13.5", ctx.key(gate, "start is not gated on the node's power state"), gate.loc(),
               "Service.start no longer consults the node's state: the order of start-up and switching ON is immaterial", trivial=True)
        return
    names = {m.name for m in starters}
    n = 0
    for c in [node] + list(ix.subclasses(node)):
        for m in c.methods.values():
            if isinstance(m.node, ast.Lambda) or m in starters:
                continue
            sites = [x for x in ast.walk(m.node) if isinstance(x, ast.Call) and isinstance(x.func, ast.Attribute)
                     and x.func.attr in names and unparse(x.func.value) == "self"]
            if not sites:
                continue
            g = CFG(m.node)
            on_stores = {x for x in g.nodes if x.kind == "stmt" and isinstance(x.ast, ast.Assign)
                         and any(unparse(t) == "self.operating_state" for t in x.ast.targets)
                         and unparse(x.ast.value).endswith(".ON")}
            for call in sites:
                tgt = [x for x in g.nodes if x.kind in ("stmt", "cond") and any(y is call for y in ast.walk(x.ast if x.kind == "stmt" else x.expr_root() or ast.Pass()))]
                if not tgt:
                    raise AnalysisError(f"R13.5: call site of {call.func.attr} not found in the CFG of {m.short}")
                p = g.path_avoiding(tgt, lambda e: False, blocked_nodes={x.id for x in on_stores})
                n += 1
                ctx.record("R13.5", ctx.key(m, f"ON is stored before {call.func.attr}()"), m.loc(call), p is None,
                           "the node is ON when its software is told to start" if p is None else
                           "the start-up routine can run while the node is not yet ON: Service.start / Application.run refuse, the "
                           "software stays down on a node that then turns ON", path_text(p))
    ctx.floor("R13.5", "call sites of the bulk start-up routine", n, 2)


def r13_7(ctx: Ctx, svc: Set[str], app: Set[str]) -> None:
    """The documented table says from which states a lifecycle request is accepted; accepted must mean done.  On a path that takes
    the accepting arm of the method's own state test (or has none, like disable) and passes the node-power guard, the state store
    is unavoidable: any other early `return False` (a health test, the outcome of another call) refuses a request the table accepts."""
    ix = ctx.ix
    ctx.rule("R13.7", "a lifecycle request is refused only by the node-power guard or by the method's own source-state test: past both, "
                      "the operating_state store is unavoidable")
    n_inst = 0
    for cname, table in TABLES.items():
        uni = svc if cname == "Service" else app
        for mname in table:
            if mname == "apply_timestep":
                continue
            f = ix.method(f"{cname}.{mname}")
            g = CFG(f.node)
            ld = LocalDefs(f.node)
            stores = [x for x in g.nodes if store_of_field(x, "self", ["operating_state"]) is not None]
            if not stores:
                raise AnalysisError(f"R13.7: {cname}.{mname} stores no operating_state")

            def refusing(e: Edge) -> bool:
                if not (e.label and e.label[0] == "cond"):
                    return False
                x = ld.expand(e.label[1])
                if isinstance(x, ast.Call) and call_name(x) == "_can_perform_action":
                    return e.label[2] is False
                es = edge_state_set(e, ["operating_state"], uni, ld)
                if es is not None and es[0] == "self":
                    want = {t for t in table[mname]}  # target states
                    srcs = set()
                    for t in want:
                        v = table[mname][t]
                        srcs |= (set(uni) if v == ALL else set(v))
                    return not (set(es[1]) & srcs)  # the arm on which no accepted source state remains
                return False

            p = g.path_avoiding([g.exit], refusing, blocked_nodes={x.id for x in stores})
            n_inst += 1
            ctx.record("R13.7", ctx.key(f, "accepted means done"), f.loc(), p is None,
                       "past the node-power guard and the source-state test every path stores the new state" if p is None else
                       f"{cname}.{mname} can return without changing state although the node-power guard and the source-state test "
                       "accepted the request", path_text(p))
    ctx.floor("R13.7", "lifecycle methods", n_inst, 8)


def check(ctx: Ctx) -> None:
    svc = _expect_enum(ctx.ix, "ServiceOperatingState", SVC_STATES)
    app = _expect_enum(ctx.ix, "ApplicationOperatingState", APP_STATES)
    uni = svc | app
    r13_1(ctx, svc, app)
    r13_2(ctx, uni)
    r13_3(ctx, uni)
    r13_4(ctx)
    r13_4_guards(ctx)
    r13_5(ctx)
    r13_7(ctx, svc, app)
    # "start/run are accepted only with the node ON": the node-power guard of the software base classes is C12's rule R12.5
    from . import c12
    nuni = set(ctx.ix.enum_members(ctx.ix.cls("NodeOperatingState")))
    tmp = Ctx(ctx.prop, "borrow", ctx.ix)
    flows = c12.r12_1(tmp, nuni)
    with ctx.borrowed({"R12.5": "R13.6"}):
        c12.r12_5(ctx, nuni, flows)
