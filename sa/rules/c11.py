"""C11 - the action mask agrees with what the simulator would refuse."""
from __future__ import annotations

import ast
import itertools
import os
import re
from typing import Dict, List, Optional, Set, Tuple

from ..absval import UNKNOWN, Evaluator, walk
from ..astutil import call_name, calls_in, kwarg, unparse
from ..cfg import CFG, LocalDefs, path_text
from ..index import AnalysisError, FuncInfo
from ..inventory import call_sites, recv_class
from ..report import Ctx
from ..reqtree import RequestTree, Router, action_routes
from .common import node_calls, state_test

EXPLANATION = (
    "Static analysis of the dry-run traversal against the real dispatcher. Decided: R11.1 RequestManager.check_valid "
    "and RequestManager.__call__ are evaluated as truth tables over (key registered, validator verdict at this level, "
    "entry is a sub-manager, verdict of the sub-tree): check_valid must answer True exactly when __call__ would reach "
    "the handler/sub-manager, i.e. key AND validator AND (sub-tree if any) - in particular the validator of a non-leaf "
    "entry must be consulted; R11.2 PrimaiteGame.action_mask covers every entry of the action map, forms the request "
    "with the same ActionManager.form_request that execution uses and stores check_valid's verdict at the entry's own "
    "index; PrimaiteGymEnv.action_masks delegates to it; R11.4 each of the validator classes computes the documented "
    "predicate (node ON / OFF, software state equals the required state, interface enabled / disabled, file/folder "
    "found, found and not deleted, conjunction of parts) as a truth table over its inputs; R11.3 every permission "
    "condition that docs/source/action_masking.rst documents for an action is a validator on the action's static route "
    "(the documented-but-unenforced conditions of the pinned tree are frozen with their reasons); R11.5 the mask is a function of the state the action will meet: check_valid stores nothing "
    "and calls no mutator (no verdict memo), action_mask writes only mask entries, every simulator pre_timestep (which "
    "runs between mask and action) and its helpers store no attribute a permission rule reads and call no life-cycle "
    "operation, and PrimaiteGymEnv.step applies the actions before advancing time; R11.6 no sub-tree is registered through a forwarding "
    "callable (`func=<component>.apply_request`): the dry run descends into RequestManager objects only. R11.7 = C15's R15.10 (name look-ups prefer the live item over a deleted namesake) applied here. "
    "NOT decided: agreement as a run-time behaviour in every transitional state (follows from "
    "R11.1 given validators are pure state predicates, R5.3)."
)
TECHNIQUE = "static: exhaustive truth table of check_valid vs __call__ over (key, validator, sub-manager, sub-tree), structural check of mask construction, validator predicate tables"
ASSUMPTIONS = ["validators are pure (checked by C05 R5.3)", "the request tree only changes through add/remove_request"]


def _find_texts(fn: FuncInfo) -> Dict[str, str]:
    """Locate, by shape, the sub-expressions the dispatcher's decisions depend on; returns role -> source text."""
    roles: Dict[str, str] = {}
    for n in ast.walk(fn.node):
        if isinstance(n, ast.Call):
            f = n.func
            if isinstance(f, ast.Attribute) and f.attr == "validator":
                roles.setdefault("validator", unparse(n))
            elif isinstance(f, ast.Name) and f.id == "isinstance" and len(n.args) == 2 and "RequestManager" in unparse(n.args[1]):
                roles.setdefault("is_manager", unparse(n))
            elif isinstance(f, ast.Attribute) and f.attr == "check_valid":
                roles.setdefault("sub", unparse(n))
            elif isinstance(f, ast.Attribute) and f.attr == "func":
                roles.setdefault("handler", unparse(n))
        elif isinstance(n, ast.Compare) and len(n.ops) == 1 and isinstance(n.ops[0], (ast.In, ast.NotIn)):
            if unparse(n.comparators[0]) in ("self.request_types", "self.request_types.keys()"):
                roles.setdefault("key_lhs", unparse(n.left))
                roles.setdefault("key_rhs", unparse(n.comparators[0]))
    return roles


def r11_1(ctx: Ctx) -> None:
    ix = ctx.ix
    ctx.rule("R11.1", "check_valid(request) == (key registered AND validator(request) AND sub-tree verdict), the same "
                      "condition under which __call__ passes the request on; evaluated as an exhaustive truth table")
    cv = ix.method("RequestManager.check_valid")
    roles = _find_texts(cv)
    if "key_lhs" not in roles:
        raise AnalysisError("R11.1: key test `<key> in self.request_types` not found in check_valid")
    if "sub" not in roles:
        raise AnalysisError("R11.1: recursive check_valid call not found (unrecognised traversal idiom)")
    g = CFG(cv.node)
    ld = LocalDefs(cv.node)
    n_cases = 0
    bad: List[str] = []
    uses_validator = "validator" in roles
    for key, val, is_mgr, sub in itertools.product([True, False], repeat=4):
        env = {roles["key_lhs"]: "k", roles["key_rhs"]: ({"k"} if key else set()), roles["sub"]: sub}
        if uses_validator:
            env[roles["validator"]] = val
        if "is_manager" in roles:
            env[roles["is_manager"]] = is_mgr
        ev = Evaluator(env, ld)
        outcome, node, trace = walk(g, ev)
        if outcome == "unknown":
            raise AnalysisError(f"R11.1: cannot evaluate branch {unparse(node.ast)[:70]} of check_valid")
        if outcome != "return":
            got = None
        else:
            got = ev.ev(node.ast.value)
            if got is UNKNOWN:
                raise AnalysisError(f"R11.1: cannot evaluate return value {unparse(node.ast.value)[:70]}")
        want = bool(key and val and (sub if is_mgr else True))
        n_cases += 1
        if bool(got) != want or got is None:
            bad.append(f"key={key} validator={val} sub-manager={is_mgr} sub-tree={sub}: check_valid -> {got}, "
                       f"execution passes the request on: {want}")
    ctx.record("R11.1", ctx.key(cv, "check_valid truth table"), cv.loc(), not bad,
               f"{n_cases} cases: check_valid agrees with the dispatcher" if not bad else
               "check_valid disagrees with RequestManager.__call__ (a guard of the real run is skipped by the dry run)", bad[:8])
    # the dispatcher side of the table (shares R5.1's reading of __call__)
    call = ix.method("RequestManager.__call__")
    roles_c = _find_texts(call)
    for need in ("key_lhs", "validator", "handler"):
        if need not in roles_c:
            raise AnalysisError(f"R11.1: {need} not found in RequestManager.__call__")
    gc = CFG(call.node)
    ldc = LocalDefs(call.node)
    badc: List[str] = []
    for key, val in itertools.product([True, False], repeat=2):
        env = {roles_c["key_lhs"]: "k", roles_c["key_rhs"]: ({"k"} if key else set()), roles_c["validator"]: val,
               roles_c["handler"]: "HANDLER"}
        # a condition of the dispatcher that the dry run has no counterpart for is a free atom: the handler must be reached (or
        # not) whatever its value - otherwise execution accepts requests the dry run refuses, or the reverse
        pending = [dict(env)]
        free_seen: List[str] = []
        while pending:
            e_ = pending.pop()
            ev = Evaluator(e_, ldc)
            outcome, node, trace = walk(gc, ev)
            if outcome == "unknown":
                atom = unparse(node.ast)
                if len(free_seen) >= 3 or atom in e_:
                    raise AnalysisError(f"R11.1: cannot evaluate branch {atom[:70]} of __call__")
                if atom not in free_seen:
                    free_seen.append(atom)
                for b in (True, False):
                    e2 = dict(e_)
                    e2[atom] = b
                    pending.append(e2)
                continue
            reached = outcome == "return" and ev.ev(node.ast.value) == "HANDLER"
            if reached != (key and val):
                extra = {a: e_[a] for a in free_seen if a in e_}
                badc.append(f"key={key} validator={val}" + (f" with {extra}" if extra else "") + f": handler reached={reached}"
                            + (" - the dry run knows nothing of this condition" if extra else ""))
    ctx.record("R11.1", ctx.key(call, "__call__ truth table"), call.loc(), not badc,
               "4 cases: the handler is reached exactly when key AND validator" if not badc else "dispatcher table differs", badc)
    # both functions look up the key they were given: the key variable is bound once, from request[0], in each of them
    for fn_, rl in ((cv, roles), (call, roles_c)):
        kv = rl["key_lhs"]
        defs = [v for v, i in LocalDefs(fn_.node).all_values(kv)] if kv.isidentifier() else []
        okk = (not kv.isidentifier()) or (len(defs) == 1 and defs[0] is not None and unparse(defs[0]) == "request[0]")
        ctx.record("R11.1", ctx.key(fn_, "the key looked up is request[0], bound once"), fn_.loc(), okk,
                   f"`{kv}` = {[unparse(d)[:40] if d is not None else '?' for d in defs]}" + ("" if okk else
                   " - the function rewrites the key before looking it up; unless its twin does exactly the same, execution and dry run resolve "
                   "different entries"))
    # same argument lists for the validator in both functions
    if uses_validator:
        same = roles["validator"] == roles_c["validator"]
        ctx.record("R11.1", ctx.key(cv, "validator called with the same arguments as in __call__"), cv.loc(), same,
                   f"dry run: {roles['validator']} ; real run: {roles_c['validator']}")


def r11_2(ctx: Ctx) -> None:
    ix = ctx.ix
    ctx.rule("R11.2", "action_mask iterates the whole action_map, forms each request with ActionManager.form_request "
                      "(as execution does) and stores check_valid's verdict at the entry's own index")
    am = ix.method("PrimaiteGame.action_mask")
    fors = [n for n in ast.walk(am.node) if isinstance(n, ast.For)]
    loops = [f for f in fors if "action_map" in unparse(f.iter)]
    if not loops:
        raise AnalysisError("R11.2: loop over action_map not found in PrimaiteGame.action_mask")
    loop = loops[0]
    ok_iter = unparse(loop.iter).endswith("action_map.items()") and isinstance(loop.target, ast.Tuple) and len(loop.target.elts) == 2
    ctx.record("R11.2", ctx.key(am, "loop covers action_map.items()"), am.loc(loop), ok_iter, f"iterates {unparse(loop.iter)}")
    if not ok_iter:
        return
    idx, val = (unparse(loop.target.elts[0]), unparse(loop.target.elts[1]))
    g = CFG(am.node)
    ld = LocalDefs(am.node)
    stores = []
    for n in g.nodes:
        if n.kind == "stmt" and isinstance(n.ast, ast.Assign) and len(n.ast.targets) == 1 and isinstance(n.ast.targets[0], ast.Subscript):
            t = n.ast.targets[0]
            if loop in n.loops and isinstance(t.value, ast.Name):
                stores.append((n, t))
    if not stores:
        ctx.fail("R11.2", ctx.key(am, "mask[i] store"), am.loc(loop), "no mask[<index>] store inside the loop")
        return
    n, t = stores[0]
    ok_idx = unparse(t.slice) == idx
    ctx.record("R11.2", ctx.key(am, "verdict stored at the entry's own index"), am.loc(n.ast), ok_idx,
               f"store target {unparse(t)} with loop index {idx}")
    v = ld.expand(n.ast.value)
    cvs = [c for c in calls_in(v) if call_name(c) == "check_valid"]
    ok_cv = bool(cvs) and isinstance(v, ast.Call) and call_name(v) == "check_valid"
    ctx.record("R11.2", ctx.key(am, "stored value is check_valid's verdict"), am.loc(n.ast), ok_cv, f"value {unparse(v)[:80]}")
    if cvs:
        recv = unparse(cvs[0].func.value)
        ok_recv = recv == "self.simulation._request_manager"
        ctx.record("R11.2", ctx.key(am, "dry run starts at the simulation's root manager"), am.loc(n.ast), ok_recv,
                   f"check_valid receiver {recv} (execution uses self.simulation.apply_request)")
        req = cvs[0].args[0] if cvs[0].args else None
        reqv = ld.expand(req) if req is not None else None
        ok_form = isinstance(reqv, ast.Call) and call_name(reqv) == "form_request" and \
            unparse(kwarg(reqv, "action_identifier", 0)) == f"{val}[0]" and unparse(kwarg(reqv, "action_options", 1)) == f"{val}[1]"
        ctx.record("R11.2", ctx.key(am, "request formed by form_request(action[0], action[1])"), am.loc(n.ast), ok_form,
                   f"request = {unparse(reqv)[:100] if reqv is not None else None}")
    # exactly one store per iteration, no skip
    body_nodes = [x for x in g.nodes if loop in x.loops and x.kind != "for"]
    skips = [x for x in body_nodes if isinstance(x.ast, (ast.Continue, ast.Break))]
    fornode = next(x for x in g.nodes if x.kind == "for" and x.ast is loop)
    it_edges = [e for e in g.succ[fornode.id] if e.label and e.label[0] == "iter" and e.label[2]]
    p = None
    if it_edges:
        p = g.path_avoiding([fornode], lambda e: False, start=it_edges[0].dst, blocked_nodes={n.id})
    ok_once = not skips and p is None
    ctx.record("R11.2", ctx.key(am, "every entry gets a verdict (no skipped iteration)"), am.loc(loop), ok_once,
               "each iteration passes the store" if ok_once else "an iteration can complete without storing a verdict", path_text(p))
    # execution side uses the same form_request
    fr = ix.method("AbstractAgent.format_request")
    uses = any(call_name(c) == "form_request" and unparse(c.func.value).endswith("action_manager") for c in calls_in(fr.node))
    ctx.record("R11.2", ctx.key(fr, "execution forms requests with ActionManager.form_request"), fr.loc(), uses,
               "format_request delegates to self.action_manager.form_request")
    env = ix.method("PrimaiteGymEnv.action_masks")
    deleg = any(call_name(c) == "action_mask" for c in calls_in(env.node))
    ctx.record("R11.2", ctx.key(env, "environment mask delegates to PrimaiteGame.action_mask"), env.loc(), deleg,
               "action_masks returns game.action_mask(agent) when masking is on")


def _ret_expr(fn: FuncInfo) -> ast.AST:
    """The boolean a predicate returns, as one expression.  A ladder of guard clauses - `if t: return False` ... `return e` - is the
    expression `not t and ... and e` (`if t: return True` contributes `t or ...`); locals bound once are expanded."""
    ld = LocalDefs(fn.node)
    body = [s_ for s_ in fn.node.body if not (isinstance(s_, ast.Expr) and isinstance(s_.value, ast.Constant))
            and not (isinstance(s_, (ast.Assign, ast.AnnAssign)) and all(isinstance(t, ast.Name) for t in (s_.targets if isinstance(s_, ast.Assign) else [s_.target])))]

    def fold(stmts) -> Optional[ast.AST]:
        if not stmts:
            return None
        s0 = stmts[0]
        if isinstance(s0, ast.Return) and s0.value is not None:
            return ld.expand(s0.value)
        if isinstance(s0, ast.If) and len(s0.body) == 1 and isinstance(s0.body[0], ast.Return) and isinstance(s0.body[0].value, ast.Constant) \
                and isinstance(s0.body[0].value.value, bool):
            rest = fold(list(s0.orelse) if s0.orelse else stmts[1:])
            if rest is None:
                return None
            t = ld.expand(s0.test)
            if s0.body[0].value.value:
                return ast.copy_location(ast.BoolOp(op=ast.Or(), values=[t, rest]), s0)
            return ast.copy_location(ast.BoolOp(op=ast.And(), values=[ast.UnaryOp(op=ast.Not(), operand=t), rest]), s0)
        return None

    rets = [n for n in ast.walk(fn.node) if isinstance(n, ast.Return) and n.value is not None]
    if len(rets) == 1:
        return ld.expand(rets[0].value)
    e = fold(body)
    if e is None:
        raise AnalysisError(f"R11.4: {fn.short} has {len(rets)} return statements that do not form a guard-clause ladder")
    return ast.fix_missing_locations(e)


def r11_4(ctx: Ctx) -> None:
    ix = ctx.ix
    ctx.rule("R11.4", "each validator computes its documented predicate (truth table over its inputs)")
    nos = ix.enum_members(ix.cls("NodeOperatingState"))
    uni = set(nos)
    for cname, want in (("Node._NodeIsOnValidator", {"ON"}), ("Node._NodeIsOffValidator", {"OFF"})):
        f = ix.method(cname + ".__call__")
        e = _ret_expr(f)
        st = state_test(e, ["operating_state"], uni)
        ok = st is not None and st[0] == "self.node" and set(st[1]) == want
        ctx.record("R11.4", ctx.key(f, f"true exactly in {sorted(want)}"), f.loc(), ok,
                   f"returns {unparse(e)} -> true for states {sorted(st[1]) if st else '?'} of {st[0] if st else '?'}")
    for cname, subj in (("Service._StateValidator", "self.service"), ("Application._StateValidator", "self.application")):
        f = ix.method(cname + ".__call__")
        e = _ret_expr(f)
        ok = False
        if isinstance(e, ast.Compare) and len(e.ops) == 1 and isinstance(e.ops[0], (ast.Eq, ast.Is)):
            sides = {unparse(e.left), unparse(e.comparators[0])}
            ok = sides == {f"{subj}.operating_state", "self.state"}
        ctx.record("R11.4", ctx.key(f, "operating_state == required state"), f.loc(), ok, f"returns {unparse(e)}")
    for cname, pos in (("NetworkInterface._EnabledValidator", True), ("NetworkInterface._DisabledValidator", False)):
        f = ix.method(cname + ".__call__")
        e = _ret_expr(f)
        rows = []
        for en in (True, False):
            v = Evaluator({"self.network_interface.enabled": en}).ev(e)
            rows.append((en, v))
        ok = all(v is not UNKNOWN and bool(v) == (en if pos else not en) for en, v in rows)
        ctx.record("R11.4", ctx.key(f, "enabled" if pos else "not enabled"), f.loc(), ok, f"returns {unparse(e)}; table {rows}")
    # exists / not-deleted validators: truth table over (found, deleted)
    specs = [
        ("FileSystem._FileExistsValidator", False), ("FileSystem._FolderExistsValidator", False),
        ("FileSystem._FolderNotDeletedValidator", True), ("Folder._FileExistsValidator", False),
        ("Folder._FileNotDeletedValidator", True),
    ]
    for cname, needs_not_deleted in specs:
        f = ix.method(cname + ".__call__")
        e = _ret_expr(f)
        lookups = [c for c in ast.walk(f.node) if isinstance(c, ast.Call) and call_name(c) in ("get_file", "get_folder")]
        if len(lookups) != 1:
            raise AnalysisError(f"R11.4: {cname}: expected exactly one get_file/get_folder lookup")
        lk = lookups[0]
        # the lookup must be keyed by the request's own arguments
        args_from_request = all("request[" in unparse(k.value) for k in lk.keywords if k.arg in ("folder_name", "file_name")) \
            and any(k.arg in ("folder_name", "file_name") for k in lk.keywords) or all("request[" in unparse(a) for a in lk.args)
        incl_deleted = any(k.arg == "include_deleted" and isinstance(k.value, ast.Constant) and k.value.value is True for k in lk.keywords)
        ld = LocalDefs(f.node)
        var = next((nm for nm, ds in ld.defs.items() if any(v is lk for v, _, _ in ds)), None)
        bad = []
        for found in (True, False):
            for deleted in ((True, False) if found else (False,)):
                obj = object() if found else None
                env = {unparse(lk): obj}
                if var:
                    env[var] = obj
                    env[f"{var}.deleted"] = deleted
                v = Evaluator(env, None).ev(e)
                want = found and (not deleted if needs_not_deleted else True)
                if v is UNKNOWN or bool(v) != want:
                    bad.append(f"found={found} deleted={deleted}: {v} (want {want})")
        ok = not bad and args_from_request
        ctx.record("R11.4", ctx.key(f, "found and not deleted" if needs_not_deleted else "found"), f.loc(), ok,
                   f"returns {unparse(e)[:90]}; lookup {unparse(lk)[:70]} (include_deleted={incl_deleted})", bad)
    f = ix.method("_CombinedValidator.__call__")
    e = _ret_expr(f)
    ok = (isinstance(e, ast.Call) and call_name(e) == "all" and len(e.args) == 1 and isinstance(e.args[0], (ast.GeneratorExp, ast.ListComp))
          and unparse(e.args[0].generators[0].iter) == "self.validators" and not e.args[0].generators[0].ifs
          and isinstance(e.args[0].elt, ast.Call) and unparse(e.args[0].elt.func) == unparse(e.args[0].generators[0].target)
          and [unparse(a) for a in e.args[0].elt.args] == [a.arg for a in f.node.args.args[1:]])
    ctx.record("R11.4", ctx.key(f, "conjunction of all parts"), f.loc(), ok, f"returns {unparse(e)}")
    add = ix.method("RequestPermissionValidator.__add__")
    ea = _ret_expr(add)
    ok = isinstance(ea, ast.Call) and call_name(ea) == "_CombinedValidator" and "self" in unparse(ea) and "other" in unparse(ea)
    ctx.record("R11.4", ctx.key(add, "a + b combines both"), add.loc(), ok, f"returns {unparse(ea)}")


DOC_CONDITIONS = {
    "node is on": "Node._NodeIsOnValidator", "router is on": "Node._NodeIsOnValidator",
    "firewall is on": "Node._NodeIsOnValidator", "node is off": "Node._NodeIsOffValidator",
    "service is running": "Service._StateValidator:RUNNING", "service is stopped": "Service._StateValidator:STOPPED",
    "service is paused": "Service._StateValidator:PAUSED", "service is disabled": "Service._StateValidator:DISABLED",
    "application is running": "Application._StateValidator:RUNNING",
    "nic is disabled": "NetworkInterface._DisabledValidator", "nic is enabled": "NetworkInterface._EnabledValidator",
    "file exists": "*._FileExistsValidator", "file not deleted": "*._FileNotDeletedValidator",
    "folder exists": "*._FolderExistsValidator", "folder not deleted": "*._FolderNotDeletedValidator",
}


def parse_mask_doc(repo: str) -> Dict[str, List[str]]:
    p = os.path.join(repo, "docs/source/action_masking.rst")
    if not os.path.exists(p):
        raise AnalysisError("docs/source/action_masking.rst not found")
    out: Dict[str, List[str]] = {}
    for line in open(p, encoding="utf-8"):
        m = re.match(r"\|\s*\*\*([a-z0-9\-]+)\*\*\s*\|\s*(.*?)\s*\|\s*$", line)
        if m:
            out[m.group(1)] = [c.strip().lower() for c in m.group(2).split(".") if c.strip()]
    return out


# documented conditions that no permission rule on the route implements today, each confirmed by reading (armed mode only)
DOC_TRIAGE = {
    ("node-file-access", "file exists"): "the handler looks the file up itself and answers failure when it is absent",
    ("node-file-access", "file not deleted"): "same: FileSystem.access_file answers failure for a deleted file",
    ("node-file-restore", "file is deleted"): "no validator class exists for 'is deleted'; restore_file answers failure otherwise",
    ("node-folder-restore", "folder is deleted"): "no validator class exists for 'is deleted'; restore_folder answers failure otherwise",
}


def r11_3(ctx: Ctx, armed: bool = False) -> None:
    ix = ctx.ix
    ctx.rule("R11.3", "documented permission conditions (docs/source/action_masking.rst) are validators on the action's static route"
             if armed else "cross-reference (informational): documented mask logic vs validator chain on the static route")
    doc = parse_mask_doc(ix.repo)
    tree = RequestTree(ix)
    routes, _ = action_routes(ix)
    router = Router(ix, tree)
    sim = ix.cls("Simulation")
    by_disc = {r.discriminator: r for r in routes}
    n = 0
    for act, conds in sorted(doc.items()):
        r = by_disc.get(act)
        if r is None:
            ctx.note(f"R11.3: documented action {act} is not a registered action")
            continue
        res = [x for x in router.resolve(r.segs, (sim, "root")) if x.ok]
        if not res:
            continue
        chain: Set[str] = set()
        for e in res[0].entries:
            for v in e.validators:
                nm = v.name
                m = re.search(r"state=\w+\.(\w+)", v.text)
                chain.add(nm + (":" + m.group(1) if m else ""))
        missing = []
        untriaged: List[str] = []
        for c in conds:
            want = DOC_CONDITIONS.get(c)
            if want is None:
                if c != "always possible":
                    missing.append(f"'{c}' (no validator class implements this)")
                    if (act, c) not in DOC_TRIAGE:
                        untriaged.append(c)
                continue
            if want.startswith("*."):
                if not any(x.endswith(want[1:]) for x in chain):
                    missing.append(f"'{c}'")
                    if (act, c) not in DOC_TRIAGE:
                        untriaged.append(c)
            elif want not in chain:
                missing.append(f"'{c}'")
                if (act, c) not in DOC_TRIAGE:
                    untriaged.append(c)
        n += 1
        if armed:
            ctx.record("R11.3", f"docs/source/action_masking.rst::{act}", r.where, not untriaged,
                       (f"documented {conds}; route validators {sorted(chain)}" +
                        (f"; documented but not enforced on the route: {untriaged}" if untriaged else "")))
            continue
        ctx.ok("R11.3", f"docs/source/action_masking.rst::{act}", r.where,
               (f"documented {conds}; route validators {sorted(chain)}" +
                (f"; NOT on the route: {missing}" if missing else "; all documented conditions present")), trivial=bool(missing))
        if missing:
            ctx.note(f"R11.3 {act}: documented condition(s) {missing} have no validator on the route {sorted(chain)}")
    ctx.floor("R11.3", "documented actions cross-referenced", n, 50)


# state the permission rules read (R11.4) and operations that change it: nothing of this may happen between the moment the
# mask is computed (after the previous step) and the moment the action is applied (after pre_timestep of the next step)
GUARD_STATE = {"operating_state", "enabled", "deleted", "files", "folders", "deleted_files", "deleted_folders", "request_types",
               "health_state_actual", "health_status"}
LIFECYCLE_CALLS = {"power_on", "power_off", "reset", "start", "stop", "pause", "resume", "restart", "enable", "disable", "run",
                   "close", "install", "uninstall", "delete", "restore", "delete_file", "delete_folder", "restore_file",
                   "restore_folder", "create_file", "create_folder", "add_request", "remove_request", "set_health_state"}
MUTATORS = {"setdefault", "update", "append", "add", "pop", "popitem", "clear", "extend", "insert", "remove", "__setitem__",
            "__delitem__", "discard"}


def _stores(fn_node: ast.AST) -> List[Tuple[ast.AST, str]]:
    out = []
    for n in ast.walk(fn_node):
        tgts: List[ast.AST] = []
        if isinstance(n, ast.Assign):
            tgts = list(n.targets)
        elif isinstance(n, (ast.AugAssign, ast.AnnAssign)) and getattr(n, "value", None) is not None:
            tgts = [n.target]
        elif isinstance(n, ast.Delete):
            tgts = list(n.targets)
        for t in tgts:
            for x in ([t] if not isinstance(t, (ast.Tuple, ast.List)) else t.elts):
                if isinstance(x, (ast.Attribute, ast.Subscript)):
                    out.append((n, unparse(x)))
    return out


def r11_5(ctx: Ctx) -> None:
    ix = ctx.ix
    ctx.rule("R11.5", "the mask is a function of the state the action will meet: the dry run keeps no memory and has no effect, "
                      "and nothing a permission rule reads is changed between mask and action (pre_timestep)")
    cv = ix.method("RequestManager.check_valid")
    # scratch containers created inside the call are not memory
    fresh = {t.id for n in ast.walk(cv.node) if isinstance(n, ast.Assign) and isinstance(n.value, (ast.List, ast.Dict, ast.Set, ast.ListComp, ast.DictComp))
             or isinstance(n, ast.Assign) and isinstance(n.value, ast.Call) and isinstance(n.value.func, ast.Name) and n.value.func.id in ("list", "dict", "set") and not n.value.args
             for t in n.targets if isinstance(t, ast.Name)}
    bad = [f"line {n.lineno}: store to {t}" for n, t in _stores(cv.node) if t.split("[")[0].split(".")[0] not in fresh]
    for c in calls_in(cv.node):
        if call_name(c) in MUTATORS and isinstance(c.func, ast.Attribute) and not (isinstance(c.func.value, ast.Name) and c.func.value.id in fresh):
            bad.append(f"line {c.lineno}: {unparse(c.func)}(...) mutates its receiver")
    ctx.record("R11.5", ctx.key(cv, "dry run stores nothing"), cv.loc(), not bad,
               "check_valid performs no store and calls no mutator: each call evaluates the guards afresh" if not bad else
               "check_valid keeps state between calls (a verdict remembered from an earlier request or an earlier state can be "
               "served for this one)", bad[:6])
    am = ix.method("PrimaiteGame.action_mask")
    # stores into a container that is a plain local of the function build the result; anything rooted in an attribute is state
    badm = [f"line {n.lineno}: store to {t}" for n, t in _stores(am.node) if "." in t.split("[")[0]]
    ctx.record("R11.5", ctx.key(am, "mask construction stores only mask entries"), am.loc(), not badm,
               "only mask[...] is written" if not badm else "action_mask writes other state", badm[:6])
    # the environment hands out a freshly computed mask: action_masks() stores nothing on the environment and returns
    # game.action_mask(...) itself (a mask kept across calls survives a reset / a state change made outside step())
    em = ix.method("PrimaiteGymEnv.action_masks")
    bade = [f"line {n.lineno}: store to {t}" for n, t in _stores(em.node) if "." in t.split("[")[0]]
    reads_memo = [unparse(r.value)[:50] for r in ast.walk(em.node) if isinstance(r, ast.Return) and r.value is not None
                  and any(isinstance(x, ast.Attribute) and isinstance(x.value, ast.Name) and x.value.id == "self" and x.attr.startswith("_") and "mask" in x.attr
                          for x in ast.walk(r.value))]
    ctx.record("R11.5", ctx.key(em, "the environment computes the mask on every call"), em.loc(), not bade and not reads_memo,
               "action_masks() keeps nothing between calls" if not bade and not reads_memo else
               "action_masks() remembers a mask on the environment: after a reset (or any change outside step) the remembered mask of the old "
               "state is served", (bade + reads_memo)[:4])
    # pre_timestep closure
    n_pre = 0
    simc = ix.cls("SimComponent")
    for fn in ix.all_functions():
        if fn.name != "pre_timestep" or fn.cls is None or not fn.path.startswith("src/primaite/simulator/"):
            continue
        n_pre += 1
        todo, seen = [fn], {id(fn)}
        problems: List[str] = []
        depth = {id(fn): 0}
        while todo:
            f = todo.pop()
            for nd, t in _stores(f.node):
                m = re.match(r"self\.(\w+)", t)
                if m and m.group(1) in GUARD_STATE:
                    problems.append(f"{f.short} line {nd.lineno}: stores {t}")
            for c in calls_in(f.node):
                nm = call_name(c)
                if nm in LIFECYCLE_CALLS and isinstance(c.func, ast.Attribute) and not (isinstance(c.func.value, ast.Call) and call_name(c.func.value) == "super"):
                    # only operations of simulation components count (a logger's close(), a timer's start() do not)
                    rc = f.cls if unparse(c.func.value) == "self" else recv_class(ix, f, c.func.value)
                    if rc is not None and ix.is_subclass(rc, simc) and ix.find_method(rc, nm) is not None:
                        problems.append(f"{f.short} line {c.lineno}: calls {unparse(c.func)}() of {rc.short}")
                if isinstance(c.func, ast.Attribute) and unparse(c.func.value) == "self" and depth[id(f)] < 2 and f.cls is not None:
                    h = ix.find_method(f.cls, c.func.attr)
                    if h is not None and id(h) not in seen and not isinstance(h.node, ast.Lambda) and h.name != "pre_timestep":
                        seen.add(id(h))
                        depth[id(h)] = depth[id(f)] + 1
                        todo.append(h)
        ctx.record("R11.5", ctx.key(fn, "pre_timestep leaves guard state alone"), fn.loc(), not problems,
                   "resets per-step counters only" if not problems else
                   "state a permission rule reads changes after the mask was computed and before the action is applied: a "
                   "masked-out action can succeed / an offered one be refused", problems[:6])
    ctx.floor("R11.5", "pre_timestep implementations", n_pre, 12)
    # the environment applies the action before it advances time
    st = ix.method("PrimaiteGymEnv.step")
    g = CFG(st.node)
    adv = [n for n in g.nodes if any(call_name(c) in ("advance_timestep", "apply_timestep") for c in node_calls(n))]
    app = [n for n in g.nodes if any(call_name(c) == "apply_agent_actions" for c in node_calls(n))]
    if not app:
        raise AnalysisError("R11.5: PrimaiteGymEnv.step no longer calls apply_agent_actions")
    p = None
    for a in adv:
        p = p or g.path_avoiding(app, lambda e: False, start=a)
    ctx.record("R11.5", ctx.key(st, "actions are applied before time advances"), st.loc(), p is None,
               "no advance_timestep precedes apply_agent_actions in step()" if p is None else
               "time advances between the mask and the action", path_text(p))



FORWARDING_OK = {
    "DomainController._init_request_manager": "the 'domain account <uuid>' branch: no action of the action map forms a request under 'domain' "
                                              "(C05 R5.4 action routes), Account objects register no permission rules, and the controller "
                                              "holds no accounts in any scenario - nothing the mask speaks about passes through it",
}


def r11_6(ctx: Ctx) -> None:
    """check_valid descends only into RequestManager objects.  A sub-tree registered through a bound method that merely forwards
    (`func=component.apply_request`) executes exactly like the manager, but the dry run stops there and answers True: the guards
    below it (application is running, ...) are invisible to the mask."""
    ix = ctx.ix
    ctx.rule("R11.6", "every registered request target is a RequestManager (descended by the dry run) or a leaf handler; no sub-tree "
                      "is registered through a forwarding callable such as `<component>.apply_request`")
    n = 0
    for cs in call_sites(ix, ["RequestType"]):
        f = kwarg(cs.call, "func", 0)
        if f is None:
            continue
        n += 1
        fwd = None
        if isinstance(f, ast.Attribute) and f.attr in ("apply_request", "__call__"):
            fwd = unparse(f)
        elif isinstance(f, ast.Lambda) and any(isinstance(c, ast.Call) and call_name(c) in ("apply_request",) or (
                isinstance(c, ast.Call) and isinstance(c.func, ast.Attribute) and c.func.attr == "_request_manager") for c in ast.walk(f.body)):
            fwd = unparse(f)[:60]
        if fwd is not None and cs.owner in FORWARDING_OK:
            ctx.ok("R11.6", f"{cs.path}::{cs.owner}::RequestType(func={unparse(f)[:50]})", cs.where, FORWARDING_OK[cs.owner])
            continue
        ctx.record("R11.6", f"{cs.path}::{cs.owner}::RequestType(func={unparse(f)[:50]})", cs.where, fwd is None,
                   "a manager or a leaf handler" if fwd is None else
                   f"`{fwd}` forwards into another component's request tree through a plain callable: execution applies that component's "
                   "permission rules, the dry run cannot see them and marks the action available")
    ctx.floor("R11.6", "RequestType(...) constructions", n, 100)



def check(ctx: Ctx) -> None:
    r11_5(ctx)
    try:
        r11_1(ctx)
    except AnalysisError:
        # a dry run that keeps memory (R11.5) has no truth table: report the violation, not an analysis failure
        if not any(i.rule == "R11.5" and not i.ok for i in ctx.instances):
            raise
        ctx.note("R11.1 not evaluated: check_valid is not a pure function of (request, state) - see R11.5")
    r11_2(ctx)
    r11_6(ctx)
    r11_4(ctx)
    r11_3(ctx, armed=True)
    # "unavailable exactly when the folder is missing or deleted": the not-deleted rules look the item up by name - C15's R15.10
    from . import c15
    with ctx.borrowed({"R15.10": "R11.7"}):
        c15.r15_10(ctx)
