"""C04 - episodes and environment instances are isolated from one another."""
from __future__ import annotations

import ast
from typing import Dict, List, Optional, Set, Tuple

from ..astutil import MUTATING_METHODS, attr_chain, call_name, calls_in, store_targets, unparse
from ..cfg import CFG, LocalDefs, path_text
from ..index import AnalysisError, ClassInfo, FuncInfo, Index
from ..inventory import _scopes, dynamic_feature_census, scope_nodes
from ..purity import is_logging_call
from ..report import Ctx
from .common import node_calls

EXPLANATION = (
    "Static analysis of state that outlives an episode or is shared between environment instances. Decided: R4.1 every "
    "store to a class attribute or module-level singleton (ClassName.attr = ..., cls.attr = ..., mutation of a class-level "
    "container through the class, SIM_OUTPUT.x = ...) anywhere in the package is inventoried and must be in the frozen "
    "allow-list (plugin registries written only from __init_subclass__, pcap log handles, output switches written by the "
    "IO layer), and a process-wide setting stored by a from_config loader is stored on every path through it (each build "
    "re-establishes it instead of inheriting the previous game's value); the global python/numpy/torch generators are "
    "seeded only inside set_random_seed, with one argument, and never on a path that returns None (no seed in use); R4.2 every read of an output switch SIM_OUTPUT.* sits in logging infrastructure, builds an output path, "
    "or guards statements that only log / open log files - it never guards simulation state or random draws; R4.3 "
    "per-instance defaults: mutable class-level attributes that pydantic does not copy (un-annotated ones, ClassVars, "
    "attributes of plain classes) are either rebound in __init__ or never mutated through an instance, and mutable "
    "default arguments are not mutated in place; R4.4 every EpisodeScheduler.__call__ returns a fresh object "
    "(copy.deepcopy(...) or freshly parsed YAML), never a field of self - from_config mutates its argument; R4.5 reset = "
    "construct: the closure of setup_for_episode (reachable from reset but not from the constructor) performs no "
    "power-state transition (power_on / power_off / reset) - only clearing of counters/caches, log-handle set-up and "
    "idempotent re-assertions (enable/start/run, which refuse on a node that is not ON); plus the dynamic-feature census "
    "(setattr/exec/__dict__) that the who-may-write rules of all properties rely on; R4.1 also lists memoising decorators "
    "(lru_cache / cache keep objects for the whole process; cached_property is per instance); R4.6 = C01's R1.4 and C03's R3.4 "
    "(reset re-seeds when a seed is given - `is not None`, not truthiness - and rebuilds the game exactly once on every path) "
    "applied here. R4.7 the numeric settings this property depends on are never tested by truthiness (`x or default`, `if x:`) - 0 is a legal value for them. "
    "R4.8 no function returns a module-level mutable object or an element of a module-level container of objects (sentinels and constant tables excepted): such a result is shared by every episode and environment. "
    "NOT decided: equality of "
    "trajectories after a dirty history (behavioural) and leaks through third-party global state."
)
TECHNIQUE = "static: who-may-write inventory of class-level/singleton state, output-switch guard analysis, mutable-default analysis, dynamic-feature census"
ASSUMPTIONS = ["pydantic deep-copies annotated field defaults and private attributes per instance (pydantic 2.7)",
               "reset() rebuilds the whole PrimaiteGame (C01 R1.4), so per-episode state lives in objects created afresh"]

CLASS_STATE_WRITERS: Dict[Tuple[str, str], str] = {
    ("PacketCapture.setup_logger", "PacketCapture._logger_instances"): "registry of open pcap log handles, closed and emptied by PacketCapture.clear() in reset()",
    ("PacketCapture.clear", "PacketCapture._logger_instances"): "closes and forgets the handles of the previous episode",
    ("PrimaiteIO.__init__", "SIM_OUTPUT.*"): "output switches (where / whether to write logs) taken from io_settings",
    ("network_simulator_demo_example", "SIM_OUTPUT.*"): "demo-network helper turns sys-logging on (output switch, log-only by R4.2)",
}
LOG_CLASSES = {"SysLog", "AgentLog", "PacketCapture", "_SimOutput", "PrimaiteIO", "_JSONFilter", "_NotJSONFilter"}
DYNAMIC_CENSUS_EXPECTED = {
    ("src/primaite/__init__.py", "self.__class__.__dict__"),  # read-only scan of property names in _PrimaitePaths
}
TRANSITIONS = {"power_on", "power_off", "reset"}


def _class_of_name(ix: Index, fn: Optional[FuncInfo], path: str, name: str) -> Optional[ClassInfo]:
    mi = ix.by_path[path]
    c = ix._resolve_expr_to_class(ast.Name(id=name, ctx=ast.Load()), mi, fn.cls if fn else None)
    return c


def r4_1(ctx: Ctx) -> None:
    ix = ctx.ix
    ctx.rule("R4.1", "who-may-write process-wide state (class attributes, module singletons)")
    n = 0
    for fn, path, root in _scopes(ix):
        if fn is not None and fn.name == "__init_subclass__":
            continue  # plugin registries: written once per class definition at import time
        for node, lam in scope_nodes(fn, root):
            targets: List[Tuple[ast.AST, str]] = []
            if isinstance(node, (ast.Assign, ast.AugAssign, ast.AnnAssign, ast.Delete)):
                for t, v, kind in store_targets(node):
                    base = t
                    while isinstance(base, ast.Subscript):
                        base = base.value
                    if isinstance(base, ast.Attribute):
                        targets.append((base, kind))
            elif isinstance(node, ast.Call) and isinstance(node.func, ast.Attribute) and node.func.attr in MUTATING_METHODS:
                base = node.func.value
                while isinstance(base, ast.Subscript):
                    base = base.value
                if isinstance(base, ast.Attribute):
                    targets.append((base, "mutcall"))
            for base, kind in targets:
                if not isinstance(base.value, ast.Name):
                    continue
                rn = base.value.id
                what = None
                if rn == "cls" and fn is not None and (fn.cls or (fn.parent and fn.parent.cls)):
                    what = f"{(fn.cls or fn.parent.cls).short}.{base.attr}"
                elif rn == "SIM_OUTPUT":
                    what = "SIM_OUTPUT.*"
                elif rn[:1].isupper() or rn.startswith("_"):
                    c = _class_of_name(ix, fn, path, rn)
                    if c is not None and fn is not None:
                        what = f"{c.short}.{base.attr}"
                if what is None or fn is None:
                    continue
                # class-body level statements (fn is None) are import-time definitions
                n += 1
                owner = fn.short
                reason = CLASS_STATE_WRITERS.get((owner, what))
                ctx.record("R4.1", f"{path}::{owner}::{kind} {what}", f"{path}:{node.lineno}", reason is not None,
                           reason or f"`{unparse(base)}` is shared by every environment in the process: writing it from {owner} lets one "
                                     "environment (or episode) change the behaviour of another")
                if fn.name == "from_config" and lam is None and kind != "mutcall":
                    # a process-wide setting taken from the scenario must at least be re-established by *every* build, or
                    # a scenario that does not mention it inherits the value of whatever was built before it
                    g = CFG(fn.node)
                    here = [x for x in g.nodes if x.ast is node]
                    if here:
                        p = g.path_avoiding([g.exit], lambda e: False, blocked_nodes={x.id for x in here})
                        ctx.record("R4.1", f"{path}::{owner}::{what} is re-established by every build", f"{path}:{node.lineno}", p is None,
                                   "the store is on every path through the loader" if p is None else
                                   f"a build can complete without storing {what}: it then runs with the value left by the previously built game",
                                   path_text(p))
    ctx.floor("R4.1", "class-level / singleton stores", n, 10)
    # the global python / numpy generators are process-wide state too: they are (re)seeded only by set_random_seed, with the
    # seed it returns, and never on the path on which no seed is wanted (creating an unseeded environment must not disturb
    # the streams a seeded one is drawing from)
    SEEDERS = ("random.seed", "np.random.seed", "numpy.random.seed", "th.manual_seed", "torch.manual_seed")
    n_seed = 0
    for fn, path, root in _scopes(ix):
        for node, lam in scope_nodes(fn, root):
            if isinstance(node, ast.Call) and unparse(node.func) in SEEDERS and path.startswith("src/primaite/"):
                n_seed += 1
                owner = fn.short if fn is not None else "<module>"
                ok = owner == "set_random_seed" and len(node.args) == 1
                why = "seeded with the session's seed inside set_random_seed"
                if ok:
                    g = CFG(fn.node)
                    here = [x for x in g.nodes if any(c is node for c in node_calls(x))]
                    none_rets = [x for x in g.nodes if x.kind == "stmt" and isinstance(x.ast, ast.Return) and (
                        x.ast.value is None or (isinstance(x.ast.value, ast.Constant) and x.ast.value.value is None))]
                    for h in here:
                        if none_rets and g.path_avoiding(none_rets, lambda e: False, start=h) is not None:
                            ok, why = False, "the generator is re-seeded on the path on which set_random_seed reports that no seed is in use"
                elif owner == "set_random_seed":
                    why = f"`{unparse(node)}` re-seeds a process-wide generator from entropy: every environment in the process loses its stream"
                else:
                    why = f"`{unparse(node)}` in {owner}: process-wide generator state written outside set_random_seed"
                ctx.record("R4.1", f"{path}::{owner}::seeds {unparse(node.func)}", f"{path}:{node.lineno}", ok, why)
    ctx.floor("R4.1", "global generator seeding sites", n_seed, 2)
    # memoising decorators keep their results for the life of the process: a cached *object* (a rule, a component, a parsed
    # scenario) is then shared by every episode and every environment.  cached_property is per instance and is fine.
    n_dec = 0
    for fn in ix.functions:
        if isinstance(fn.node, ast.Lambda):
            continue
        for d in getattr(fn.node, "decorator_list", []):
            t = unparse(d.func if isinstance(d, ast.Call) else d)
            if t.split(".")[-1] in ("lru_cache", "cache", "cached_property", "singledispatch"):
                n_dec += 1
                ok = t.split(".")[-1] in ("cached_property", "singledispatch")
                ctx.record("R4.1", ctx.key(fn, f"@{t} keeps no object across episodes"), fn.loc(d), ok,
                           "per-instance cache" if ok else
                           f"@{t} memoises {fn.short} for the whole process: whatever it returns (and that object's counters / state) is shared "
                           "by every episode and every environment built afterwards")
    ctx.count("R4.1:memoising decorators", n_dec)
    census = {(p, t) for p, _, t in dynamic_feature_census(ix)}
    extra = census - DYNAMIC_CENSUS_EXPECTED
    ctx.record("R4.1", "src/primaite::<package>::dynamic-feature census (setattr / delattr / exec / eval / globals / __dict__)", "", not extra,
               f"{len(census)} known sites, none writes attributes dynamically" if not extra else
               f"new dynamic attribute access {sorted(extra)[:3]}: who-may-write inventories are no longer sound")


def _only_logging(stmts: List[ast.stmt]) -> List[str]:
    bad = []
    for s in stmts:
        for n in ast.walk(s):
            if isinstance(n, ast.Call) and not (is_logging_call(n) or "pcap" in unparse(n.func) or "logger" in unparse(n.func)
                                                or call_name(n) in ("open", "write", "mkdir", "dump", "print", "str", "int", "format")):
                bad.append(f"L{n.lineno}: call {unparse(n)[:50]}")
            if isinstance(n, (ast.Assign, ast.AugAssign)):
                for t, _, _ in store_targets(n):
                    if not isinstance(t, ast.Name) and "pcap" not in unparse(t) and "logger" not in unparse(t):
                        bad.append(f"L{n.lineno}: store {unparse(t)[:50]}")
            if isinstance(n, (ast.Return,)) and n.value is not None and not isinstance(n.value, ast.Constant):
                bad.append(f"L{n.lineno}: returns a value under an output switch")
    return bad


def r4_2(ctx: Ctx) -> None:
    ix = ctx.ix
    ctx.rule("R4.2", "output switches are log-only")
    n = 0
    for fn in ix.functions:
        if isinstance(fn.node, ast.Lambda):
            continue
        reads = [a for a in ast.walk(fn.node) if isinstance(a, ast.Attribute) and isinstance(a.value, ast.Name) and a.value.id == "SIM_OUTPUT"
                 and isinstance(a.ctx, ast.Load)]
        if not reads:
            continue
        owner_cls = fn.cls.short if fn.cls else (fn.parent.cls.short if fn.parent and fn.parent.cls else "")
        for r in reads:
            n += 1
            key = ctx.key(fn, f"read SIM_OUTPUT.{r.attr}")
            if owner_cls in LOG_CLASSES:
                ctx.ok("R4.2", key, fn.loc(r), f"inside logging infrastructure {owner_cls}")
                continue
            if r.attr in ("path", "agent_behaviour_path", "date_str", "time_str"):
                ctx.ok("R4.2", key, fn.loc(r), "builds an output path")
                continue
            # find the if-statements whose test contains this read
            guards = [i for i in ast.walk(fn.node) if isinstance(i, ast.If) and any(x is r for x in ast.walk(i.test))]
            if not guards:
                # the switch may be held in a local first (`log = SIM_OUTPUT.x` ... `if log:`): the ifs testing that local guard it,
                # provided the local is used for nothing but such tests
                holder = next((a for a in ast.walk(fn.node) if isinstance(a, ast.Assign) and len(a.targets) == 1 and isinstance(a.targets[0], ast.Name)
                               and any(x is r for x in ast.walk(a.value))), None)
                if holder is not None:
                    nm = holder.targets[0].id
                    loads = [x for x in ast.walk(fn.node) if isinstance(x, ast.Name) and x.id == nm and isinstance(x.ctx, ast.Load)]
                    tests = [i for i in ast.walk(fn.node) if isinstance(i, ast.If) and any(isinstance(x, ast.Name) and x.id == nm for x in ast.walk(i.test))]
                    in_tests = {id(x) for i in tests for x in ast.walk(i.test)}
                    if loads and all(id(x) in in_tests for x in loads) and len(LocalDefs(fn.node).defs.get(nm, [])) == 1:
                        guards = tests
            if not guards:
                ctx.fail("R4.2", key, fn.loc(r), f"output switch SIM_OUTPUT.{r.attr} is read outside a guard of logging statements")
                continue
            bad = []
            for gi in guards:
                bad.extend(_only_logging(gi.body))
                bad.extend(_only_logging(gi.orelse))
            ctx.record("R4.2", key, fn.loc(r), not bad,
                       "guards only logging / log-file statements" if not bad else
                       "an output switch guards simulation behaviour: runs differ with logging on or off", bad[:4])
    ctx.floor("R4.2", "reads of output switches", n, 40)


def _is_mutable_literal(v: Optional[ast.AST]) -> bool:
    if v is None:
        return False
    if isinstance(v, (ast.List, ast.Dict, ast.Set, ast.ListComp, ast.DictComp, ast.SetComp)):
        return True
    if isinstance(v, ast.Call) and isinstance(v.func, ast.Name) and v.func.id in ("list", "dict", "set", "defaultdict", "OrderedDict"):
        return True
    return False


def r4_3(ctx: Ctx) -> None:
    ix = ctx.ix
    ctx.rule("R4.3", "mutable class-level defaults are per instance (or never mutated through an instance); mutable default "
                     "arguments are not mutated in place")
    base_model_like: Set[str] = set()
    for c in ix.classes.values():
        if any(u.split(".")[-1] == "BaseModel" for k in ix.mro(c) for u in k.unknown_bases):
            base_model_like.add(c.qualname)
    n = 0
    for c in sorted(ix.classes.values(), key=lambda k: k.qualname):
        for nm, f in c.fields.items():
            if not _is_mutable_literal(f.default):
                continue
            pyd = c.qualname in base_model_like
            protected = pyd and f.ann is not None and not f.classvar
            if protected:
                continue  # pydantic copies annotated field defaults (incl. private attributes) per instance
            if nm.startswith("__") or nm in ("model_config", "__all__"):
                continue
            n += 1
            # rebound in __init__ ?
            rebound = False
            mutated: List[str] = []
            for k in [c] + ix.subclasses(c):
                for m in k.methods.values():
                    if isinstance(m.node, ast.Lambda):
                        continue
                    for node in ast.walk(m.node):
                        if isinstance(node, (ast.Assign, ast.AnnAssign)):
                            for t in (node.targets if isinstance(node, ast.Assign) else [node.target]):
                                if isinstance(t, ast.Attribute) and t.attr == nm and isinstance(t.value, ast.Name) and t.value.id == "self" \
                                        and m.name in ("__init__", "model_post_init"):
                                    rebound = True
                                if isinstance(t, ast.Subscript) and isinstance(t.value, ast.Attribute) and t.value.attr == nm \
                                        and isinstance(t.value.value, ast.Name) and t.value.value.id == "self":
                                    mutated.append(f"{m.short}:{node.lineno}")
                        if isinstance(node, ast.AugAssign) and isinstance(node.target, ast.Attribute) and node.target.attr == nm \
                                and isinstance(node.target.value, ast.Name) and node.target.value.id == "self":
                            if getattr(node, "from_binop", False):  # `self.x = self.x + [...]`: a new object, bound on the instance
                                rebound = rebound or m.name in ("__init__", "model_post_init")
                            else:  # `self.x += [...]` extends the class-level object in place (and then binds it on the instance)
                                mutated.append(f"{m.short}:{node.lineno}")
                        if isinstance(node, ast.Call) and isinstance(node.func, ast.Attribute) and node.func.attr in MUTATING_METHODS \
                                and isinstance(node.func.value, ast.Attribute) and node.func.value.attr == nm \
                                and isinstance(node.func.value.value, ast.Name) and node.func.value.value.id == "self":
                            mutated.append(f"{m.short}:{node.lineno}")
            # aliases: `self.x = self.NAME` / `self.x = Cls.NAME` / `x = self.NAME` without a copy hands the shared container to an instance
            # attribute or local; mutating *that* mutates the class-level object
            aliased: List[str] = []
            for k in [c] + ix.subclasses(c):
                for m in k.methods.values():
                    if isinstance(m.node, ast.Lambda):
                        continue
                    alias_names: Set[str] = set()
                    for node in ast.walk(m.node):
                        if isinstance(node, (ast.Assign, ast.AnnAssign)) and getattr(node, "value", None) is not None:
                            v = node.value
                            if isinstance(v, ast.Attribute) and v.attr == nm and isinstance(v.value, ast.Name) and (v.value.id in ("self", "cls") or v.value.id == c.name):
                                for t in (node.targets if isinstance(node, ast.Assign) else [node.target]):
                                    alias_names.add(unparse(t))
                    if not alias_names:
                        continue
                    for k2 in [c] + ix.subclasses(c):
                        for m2 in k2.methods.values():
                            if isinstance(m2.node, ast.Lambda):
                                continue
                            for node in ast.walk(m2.node):
                                tgt = None
                                if isinstance(node, ast.Call) and isinstance(node.func, ast.Attribute) and node.func.attr in MUTATING_METHODS:
                                    tgt = unparse(node.func.value)
                                elif isinstance(node, (ast.Assign, ast.AugAssign)):
                                    for t in (node.targets if isinstance(node, ast.Assign) else [node.target]):
                                        if isinstance(t, ast.Subscript):
                                            tgt = unparse(t.value)
                                if tgt in alias_names and (tgt.startswith("self.") or m2 is m):
                                    aliased.append(f"{m2.short}:{node.lineno} mutates `{tgt}` (= the class-level `{nm}`, assigned without a copy in {m.short})")
            mutated += aliased
            ok = rebound and not aliased or not mutated or f.classvar and nm.startswith("_registry")
            if f.classvar and nm in ("_registry",):
                ok = True
            ctx.record("R4.3", f"{c.path}::{c.short}::class-level mutable `{nm}`", f"{c.path}:{f.node.lineno}", ok,
                       ("rebound per instance in __init__" if rebound else "never mutated through an instance") if ok else
                       f"class-level container shared by all instances is mutated in place at {mutated[:3]}")
    ctx.floor("R4.3", "unprotected class-level mutable attributes", n, 3)
    m = 0
    for fn in ix.functions:
        if isinstance(fn.node, ast.Lambda):
            continue
        a = fn.node.args
        pos = a.posonlyargs + a.args
        defaults = [None] * (len(pos) - len(a.defaults)) + list(a.defaults)
        for p, d in list(zip(pos, defaults)) + list(zip(a.kwonlyargs, a.kw_defaults)):
            if not _is_mutable_literal(d):
                continue
            m += 1
            muts = []
            for node in ast.walk(fn.node):
                if isinstance(node, ast.Call) and isinstance(node.func, ast.Attribute) and node.func.attr in MUTATING_METHODS \
                        and isinstance(node.func.value, ast.Name) and node.func.value.id == p.arg:
                    muts.append(node.lineno)
                if isinstance(node, (ast.Assign, ast.AugAssign)):
                    for t in (node.targets if isinstance(node, ast.Assign) else [node.target]):
                        if isinstance(t, ast.Subscript) and isinstance(t.value, ast.Name) and t.value.id == p.arg:
                            muts.append(node.lineno)
                        if isinstance(node, ast.AugAssign) and isinstance(t, ast.Name) and t.id == p.arg and not getattr(node, "from_binop", False):
                            muts.append(node.lineno)  # `p += [...]` extends the default object; `p = p + [...]` rebinds the local
            ctx.record("R4.3", ctx.key(fn, f"mutable default argument `{p.arg}`"), fn.loc(), not muts,
                       "default object is only read" if not muts else f"shared default object mutated in place at lines {muts[:4]}")
    ctx.floor("R4.3", "mutable default arguments", m, 5)


RNG_FACTORIES = {"default_rng", "Random", "RandomState", "Generator", "SystemRandom"}


def r4_3_generators(ctx: Ctx) -> None:
    """A random generator built in a class body (as a plain field default) is built once, at import, and shared by every instance of
    the class - pydantic copies field defaults only when they are unhashable, and a generator object is hashable.  Per-instance
    generators come from `Field(default_factory=...)` or from __init__."""
    ix = ctx.ix
    n = 0
    for c in sorted(ix.classes.values(), key=lambda k: k.qualname):
        for nm, f in c.fields.items():
            d = f.default
            calls = [x for x in ast.walk(d) if isinstance(x, ast.Call)] if d is not None else []
            rng = [x for x in calls if call_name(x) in RNG_FACTORIES]
            if not rng:
                continue
            n += 1
            in_factory = isinstance(d, ast.Call) and call_name(d) in ("Field", "PrivateAttr", "field") and any(
                k.arg == "default_factory" and any(y is r for r in rng for y in ast.walk(k.value)) for k in d.keywords)
            ctx.record("R4.3", f"{c.path}::{c.short}::random generator `{nm}` is built per instance", f"{c.path}:{f.node.lineno}", in_factory,
                       "built by a default_factory (one generator per instance)" if in_factory else
                       f"`{nm} = {unparse(d)[:60]}` is evaluated once when the class is defined: all instances - across episodes and "
                       "environments - draw from one shared generator")
    ctx.count("R4.3: class-level random generators", n)


def r4_4(ctx: Ctx, rid: str = "R4.4") -> None:
    ix = ctx.ix
    ctx.rule(rid, "each episode gets its own scenario dict (schedulers return a fresh object)")
    base = ix.cls("EpisodeScheduler")
    n = 0
    for f in ix.overrides(base, "__call__"):
        if f.cls is base:
            continue
        n += 1
        ld = LocalDefs(f.node)
        rets = [r for r in ast.walk(f.node) if isinstance(r, ast.Return) and r.value is not None]
        bad = []
        for r in rets:
            v = ld.expand(r.value)
            fresh = isinstance(v, ast.Call) and (unparse(v.func) in ("copy.deepcopy", "deepcopy", "yaml.safe_load", "yaml.load"))
            if not fresh:
                bad.append(f"L{r.lineno}: returns {unparse(v)[:50]}")
        ctx.record(rid, ctx.key(f, "returns a fresh config"), f.loc(), bool(rets) and not bad,
                   "every return is copy.deepcopy(...) or freshly parsed YAML" if not bad else
                   "the scheduler hands out an object it keeps: PrimaiteGame.from_config mutates its argument, so a later episode sees the mutation", bad)
    ctx.floor(rid, "episode schedulers", n, 2)
    fc = ix.method("PrimaiteGame.from_config")
    muts = [f"L{nd.lineno}: {unparse(nd)[:60]}" for nd in ast.walk(fc.node) if isinstance(nd, ast.Assign) and any(
        isinstance(t, ast.Subscript) and "cfg" in unparse(t.value).lower() or isinstance(t, ast.Subscript) and "options" in unparse(t.value) for t in nd.targets)]
    ctx.note(f"{rid} reason: from_config mutates its argument at {muts[:4]} (and Router.from_config pops keys)")


def r4_5(ctx: Ctx) -> None:
    ix = ctx.ix
    ctx.rule("R4.5", "reset = construct: no power-state transition in the closure of setup_for_episode")
    sc = ix.cls("SimComponent")
    impls = list(ix.overrides(sc, "setup_for_episode")) + [ix.method("PrimaiteGame.setup_for_episode")]
    n = 0
    for f in impls:
        n += 1
        bad = [f"L{c.lineno}: {unparse(c)[:50]}" for c in calls_in(f.node) if call_name(c) in TRANSITIONS]
        ctx.record("R4.5", ctx.key(f, "no power transition on reset"), f.loc(), not bad,
                   "only clears counters/caches, sets up log handles and re-asserts enable/start/run" if not bad else
                   "a node declared OFF in the scenario is ON after reset() but OFF in a newly constructed environment", bad)
    ctx.floor("R4.5", "setup_for_episode implementations", n, 6)
    init = ix.method("PrimaiteGymEnv.__init__")
    called = any(call_name(c) == "setup_for_episode" for c in calls_in(init.node))
    ctx.note(f"R4.5: PrimaiteGymEnv.__init__ calls setup_for_episode: {called} (reset does); the rule therefore requires the closure to be idempotent with respect to construction")


def r4_6(ctx: Ctx) -> None:
    """A reset behaves like a fresh environment only if it really rebuilds and re-seeds: C01's R1.4 (reset: reseed if a seed is given,
    rebuild the game from the scheduler's config exactly once on every path, then set-up) and C03's R3.4 (seeding discipline)."""
    from . import c01, c03
    with ctx.borrowed({"R1.4": "R4.6"}):
        c01.r1_4(ctx)
    with ctx.borrowed({"R3.4": "R4.6"}):
        c03.r3_4(ctx)


def r4_8(ctx: Ctx) -> None:
    """A module-level object lives as long as the process.  A function that *returns* one (or an element of a module-level container)
    hands every caller - every episode, every environment - the same object: the first caller that writes to it (`response.data = ...`)
    changes what all later callers get.  Immutable results are fine: sentinels `object()`, and look-ups in a table whose values are
    all constants."""
    ix = ctx.ix
    ctx.rule("R4.8", "no function returns a module-level mutable object or an element of a module-level container of objects")
    n_mod = n_ret = 0

    def _const_table(v: ast.AST) -> bool:
        if isinstance(v, ast.Dict):
            return all(isinstance(x, ast.Constant) for x in v.values)
        if isinstance(v, ast.Call) and unparse(v.func) == "dict" and not v.args:
            return all(isinstance(k.value, ast.Constant) for k in v.keywords)
        if isinstance(v, (ast.List, ast.Set, ast.Tuple)):
            return all(isinstance(x, ast.Constant) for x in v.elts)
        return False

    # attribute names that some site writes through a receiver other than self/cls (`response.data = ...`, `x.items.append(..)`)
    foreign: Dict[str, str] = {}
    for path, mi in sorted(ix.by_path.items()):
        if not path.startswith("src/primaite/"):
            continue
        for x in ast.walk(mi.tree):
            tg = []
            if isinstance(x, (ast.Assign, ast.AugAssign, ast.AnnAssign)):
                tg = list(x.targets) if isinstance(x, ast.Assign) else [x.target]
            elif isinstance(x, ast.Call) and isinstance(x.func, ast.Attribute) and x.func.attr in MUTATING_METHODS:
                tg = [x.func.value]
            for t in tg:
                while isinstance(t, ast.Subscript):
                    t = t.value
                if isinstance(t, ast.Attribute) and not (isinstance(t.value, ast.Name) and t.value.id in ("self", "cls")):
                    foreign.setdefault(t.attr, f"{path}:{x.lineno}")

    def _written_fields(v: ast.AST, mi) -> Optional[List[str]]:
        """fields of the object(s) `v` builds that some site writes from outside; None = not an instance of an indexed class"""
        calls = [v] if isinstance(v, ast.Call) else [e for e in (v.values if isinstance(v, ast.Dict) else getattr(v, "elts", []))]
        out: List[str] = []
        for c in calls:
            k = ix._resolve_expr_to_class(c.func, mi, None) if isinstance(c, ast.Call) else None
            if k is None:
                return None
            for kk in ix.mro(k) if hasattr(ix, "mro") else [k]:
                out += [f"{f} (written at {foreign[f]})" for f in kk.fields if f in foreign]
        return out

    for path, mi in sorted(ix.by_path.items()):
        if not path.startswith("src/primaite/"):
            continue
        mut: Dict[str, ast.AST] = {}
        for st in mi.tree.body:
            tg, v = None, None
            if isinstance(st, ast.Assign) and len(st.targets) == 1 and isinstance(st.targets[0], ast.Name):
                tg, v = st.targets[0].id, st.value
            elif isinstance(st, ast.AnnAssign) and isinstance(st.target, ast.Name) and st.value is not None:
                tg, v = st.target.id, st.value
            if tg and isinstance(v, (ast.Dict, ast.List, ast.Set, ast.Call, ast.DictComp, ast.ListComp, ast.SetComp)):
                mut[tg] = v
        if not mut:
            continue
        n_mod += 1
        for fnode in ast.walk(mi.tree):
            if not isinstance(fnode, (ast.FunctionDef, ast.AsyncFunctionDef)):
                continue
            local = {x.id for x in ast.walk(fnode) if isinstance(x, ast.Name) and isinstance(x.ctx, ast.Store)} | {
                a.arg for a in fnode.args.args + fnode.args.kwonlyargs + fnode.args.posonlyargs}
            for r in ast.walk(fnode):
                if not (isinstance(r, ast.Return) and r.value is not None):
                    continue
                b, element = r.value, False
                while True:
                    if isinstance(b, ast.Subscript):
                        b, element = b.value, True
                    elif isinstance(b, ast.Call) and isinstance(b.func, ast.Attribute) and b.func.attr in ("get", "setdefault", "pop"):
                        b, element = b.func.value, True
                    else:
                        break
                if not (isinstance(b, ast.Name) and b.id in mut and b.id not in local):
                    continue
                n_ret += 1
                v = mut[b.id]
                if isinstance(v, ast.Call) and unparse(v) == "object()":
                    ok, why = True, f"`{b.id}` is an attribute-less sentinel (object())"
                elif element and _const_table(v):
                    ok, why = True, f"look-up in the constant table `{b.id}`: the result is an immutable constant"
                elif isinstance(v, ast.Call) and unparse(v.func).split(".")[-1] == "getLogger":
                    ok, why = True, f"`{b.id}` is a logger"
                elif (element or isinstance(v, ast.Call)) and _written_fields(v, mi) == []:
                    ok, why = True, (f"`{b.id}` holds instance(s) of an indexed class none of whose fields is written through a foreign receiver "
                                     "anywhere in the package: shared but never changed")
                else:
                    ok, why = False, (f"`{unparse(r.value)[:60]}` hands out {'an element of ' if element else ''}the module-level object `{b.id}` "
                                      f"(= {unparse(v)[:50]}): every caller in the process - every episode and every environment - shares it, so a "
                                      "caller that writes to it changes what all later callers receive" + (
                                          f"; written from outside: {_written_fields(v, mi)[:3]}" if _written_fields(v, mi) else ""))
                ctx.record("R4.8", f"{path}::{fnode.name}::returns {b.id}{' element' if element else ''}", f"{path}:{r.lineno}", ok, why)
    ctx.floor("R4.8", "modules with module-level objects", n_mod, 10)
    ctx.floor("R4.8", "returns that mention a module-level object", n_ret, 2)


def check(ctx: Ctx) -> None:
    r4_8(ctx)
    r4_1(ctx)
    r4_2(ctx)
    r4_3(ctx)
    r4_3_generators(ctx)
    r4_4(ctx)
    r4_5(ctx)
    r4_6(ctx)
    from .common import falsy_numeric
    falsy_numeric(ctx, "R4.7", r"seed", "random seeds (reset(seed=0) must re-seed like any other seed)")
