"""C20 - the simulation built from a scenario file is what the file says."""
from __future__ import annotations

import ast
from typing import Dict, List, Optional, Set, Tuple

from ..astutil import call_name, calls_in, kwarg, unparse, walk_shallow
from ..cfg import CFG, LocalDefs, expand_test, path_text
from ..index import AnalysisError, ClassInfo, FuncInfo, Index
from ..report import Ctx
from .common import node_calls, nodes_calling

EXPLANATION = (
    "Static analysis of the scenario loaders. Decided: R20.1 no silently ignored or mis-keyed option: every literal key "
    "tested with `\"k\" in cfg` is the key that the guarded body reads from the same mapping, and every field of every "
    "ConfigSchema / settings schema has a reader somewhere in the package (attribute read, string-keyed look-up, or "
    "**-expansion into its consumer); R20.2 declared values flow to the object by local dataflow in the from_config "
    "functions: link bandwidth and both endpoints' hostname/port reach Network.connect, service/application options reach "
    "SoftwareManager.install(software_config=...), listen_on_ports are applied, users reach add_user, start-up/shut-down "
    "durations and the declared operating state reach the node, routes reach add_route with address/mask/next hop/metric; "
    "R20.3 mapping keys are honoured: a loop over cfg.items() whose key is unused while the body hands out identities by "
    "iteration order (connect_nic numbering) is order-dependent on the YAML file; R20.4 loaders of one interface agree: "
    "every Node subclass from_config applies the declared operating_state (or leaves it to Node.__init__) and does not "
    "override it afterwards, the route/default-route parsers of Router and Firewall read the same keys; R20.5 sibling "
    "loader blocks agree: each of the eight ACL blocks (router, wireless router, six firewall lists) takes every add_rule "
    "argument from the key its siblings use, never a src_ value for a dst_ argument, position = the mapping key, and adds "
    "to the list the block iterates over; every Network.connect of a node-set adder that declares `bandwidth` passes it; "
    "R20.6 each episode is built from a freshly parsed / deep-copied scenario dict (the loaders consume theirs); R20.7 every "
    "resolved listening port reaches the append in _set_software_listen_on_ports (number or name), and no scenario mapping is read "
    "by position (`list(m.values())[i]`). R20.8 the numeric settings this property depends on are never tested by truthiness (`x or default`, `if x:`) - 0 is a legal value for them. "
    "R20.9 a node-level fallback (`own.X = parent.X`) is taken only where the component's own declared option is unset; R20.10 = C19's R19.5 (the probability vector is index-aligned with the action map, not in file order) applied here. "
    "NOT decided: "
    "inventory equality for arbitrary scenario files and behavioural identity under re-serialisation."
)
TECHNIQUE = "static: key-guard/read agreement, schema-option reader inventory, local dataflow of declared values into constructors, loader sibling agreement (ACL blocks, node-set links), fresh-dict return check of the episode schedulers"
ASSUMPTIONS = ["scenario mappings reach from_config as plain dicts in file order (yaml.safe_load)",
               "pydantic ConfigSchema validation rejects unknown keys where extra='forbid'"]

# schema fields whose only consumer is outside src/primaite or that are structural, one reason each
FIELD_EXCEPTIONS = {
    "model_config": "pydantic configuration, not an option",
}


def r20_1(ctx: Ctx) -> None:
    ix = ctx.ix
    ctx.rule("R20.1", "no silently ignored / mis-keyed option")
    n = 0
    _lds: Dict[int, LocalDefs] = {}
    for fn in ix.functions:
        if isinstance(fn.node, ast.Lambda):
            continue
        for node in ast.walk(fn.node):
            if not isinstance(node, ast.If):
                continue
            t = expand_test(_lds.setdefault(id(fn), LocalDefs(fn.node)), node.test)
            if not (isinstance(t, ast.Compare) and len(t.ops) == 1 and isinstance(t.ops[0], ast.In) and isinstance(t.left, ast.Constant)
                    and isinstance(t.left.value, str) and isinstance(t.comparators[0], (ast.Name, ast.Attribute, ast.Subscript, ast.Call))):
                continue
            mapping = unparse(t.comparators[0])
            key = t.left.value
            reads = []
            for b in node.body:
                for s in ast.walk(b):
                    if isinstance(s, ast.Subscript) and unparse(s.value) == mapping and isinstance(s.slice, ast.Constant) and isinstance(s.slice.value, str):
                        reads.append(s.slice.value)
                    if isinstance(s, ast.Call) and isinstance(s.func, ast.Attribute) and s.func.attr == "get" and unparse(s.func.value) == mapping \
                            and s.args and isinstance(s.args[0], ast.Constant):
                        reads.append(s.args[0].value)
            if not reads:
                continue
            n += 1
            wrong = [r for r in reads if r != key]
            # reads of *other* keys are fine when those keys are themselves tested nearby; flag only keys never tested in the function
            tested = {x.left.value for x in ast.walk(fn.node) if isinstance(x, ast.Compare) and len(x.ops) == 1 and isinstance(x.ops[0], ast.In)
                      and isinstance(x.left, ast.Constant) and unparse(x.comparators[0]) == mapping}
            wrong = [r for r in wrong if r not in tested and key not in reads]
            ctx.record("R20.1", ctx.key(fn, f"`{key!r} in {mapping}` guards a read of the same key"), fn.loc(node), not wrong,
                       f"body reads {sorted(set(reads))}" if not wrong else
                       f"the guard tests {key!r} but the body reads {wrong} from {mapping}: the declared option raises KeyError or is ignored")
    ctx.floor("R20.1", "key-guarded option reads", n, 10)
    # schema fields with no reader
    readers: Set[str] = set()
    str_keys: Set[str] = set()
    for mi in ix.modules.values():
        for node in ast.walk(mi.tree):
            if isinstance(node, ast.Attribute) and isinstance(node.ctx, ast.Load):
                readers.add(node.attr)
            elif isinstance(node, ast.Constant) and isinstance(node.value, str):
                str_keys.add(node.value)
            elif isinstance(node, ast.keyword) and node.arg:
                pass
    m = 0
    for c in sorted(ix.classes.values(), key=lambda k: k.qualname):
        if not (c.name.endswith("Schema") or c.name.endswith("Options") or c.name.endswith("Settings")):
            continue
        if c.path.startswith("src/primaite/game/agent/actions"):
            continue  # action options are checked against their form_request by C15 R15.5 / C05 R5.4
        # the property speaks about what the *simulation* contains and how scripted agents are set up: node, interface,
        # software and agent-settings schemas.  Game/IO/session metadata (team labels, log switches) is out of scope.
        in_scope = c.path.startswith("src/primaite/simulator/") or c.name == "AgentSettingsSchema"
        if not in_scope:
            continue
        # consumers that receive the whole model by **-expansion or model_dump read every field
        for nm, f in c.fields.items():
            if f.ann is None or f.classvar or nm in FIELD_EXCEPTIONS or nm.startswith("_"):
                continue
            m += 1
            ok = nm in readers or nm in str_keys
            ctx.record("R20.1", f"{c.path}::{c.short}::option `{nm}` has a reader", f"{c.path}:{f.node.lineno}", ok,
                       "read somewhere in the package" if ok else f"option `{nm}` is accepted by {c.short} but nothing ever reads it")
    ctx.floor("R20.1", "schema options", m, 80)


def _flows(fn: FuncInfo, call: ast.Call, kw: str, must_contain: List[str], ld: LocalDefs) -> Tuple[bool, str]:
    v = kwarg(call, kw)
    if v is None:
        return False, "<missing>"
    e = ld.expand(v)
    txt = unparse(e)
    return all(m in txt for m in must_contain), txt[:80]


def enum_member_text(e: ast.AST) -> bool:
    return isinstance(e, ast.Attribute) and e.attr.isupper() and isinstance(e.value, (ast.Name, ast.Attribute))


def r20_2(ctx: Ctx) -> None:
    ix = ctx.ix
    ctx.rule("R20.2", "declared values flow to the object (local dataflow in the loaders)")
    fc = ix.method("PrimaiteGame.from_config")
    ld = LocalDefs(fc.node)
    calls = calls_in(fc.node)
    for nf in ix.nested_funcs(fc):
        calls += calls_in(nf.node)

    def one(name: str, pred=lambda c: True) -> ast.Call:
        cs = [c for c in calls if call_name(c) == name and pred(c)]
        if not cs:
            raise AnalysisError(f"R20.2: PrimaiteGame.from_config no longer calls {name}")
        return cs[0]

    # locals are identified by what they hold, never by what they are called
    for_targets = {t.id for n in ast.walk(fc.node) if isinstance(n, ast.For) for t in ast.walk(n.target) if isinstance(t, ast.Name)}

    def key_readers(e: Optional[ast.AST], key: str) -> Set[str]:
        """Names N with N["key"] / N.get("key"...) somewhere in e (e is expanded through single-assignment locals first)."""
        out: Set[str] = set()
        if e is None:
            return out
        for x in ast.walk(ld.expand(e)):
            if isinstance(x, ast.Subscript) and isinstance(x.value, ast.Name) and isinstance(x.slice, ast.Constant) and x.slice.value == key:
                out.add(x.value.id)
            if isinstance(x, ast.Call) and isinstance(x.func, ast.Attribute) and x.func.attr == "get" and isinstance(x.func.value, ast.Name) \
                    and x.args and isinstance(x.args[0], ast.Constant) and x.args[0].value == key:
                out.add(x.func.value.id)
        return out

    def all_defs(name: str) -> List[ast.AST]:
        return [v for v, _ in ld.all_values(name) if v is not None]

    conn = one("connect")
    bw = kwarg(conn, "bandwidth")
    link_vars = key_readers(bw, "bandwidth") & for_targets
    ctx.record("R20.2", ctx.key(fc, "link bandwidth from the file"), fc.loc(conn), bool(link_vars),
               f"connect(bandwidth={unparse(ld.expand(bw))[:70] if bw is not None else '<missing>'}) reads 'bandwidth' of the link entry {sorted(link_vars)}")
    for side in ("a", "b"):
        v = kwarg(conn, f"endpoint_{side}")
        defs = all_defs(v.id) if isinstance(v, ast.Name) else ([v] if v is not None else [])
        hosts: Set[str] = set()
        ok = bool(defs)
        for dexp in defs:
            port_from = key_readers(dexp, f"endpoint_{side}_port") & (link_vars or for_targets)
            base = {x.value.id for x in ast.walk(dexp) if isinstance(x, ast.Subscript) and isinstance(x.value, ast.Attribute)
                    and isinstance(x.value.value, ast.Name) for x in [x]} if False else \
                {x.value.value.id for x in ast.walk(dexp) if isinstance(x, ast.Subscript) and isinstance(x.value, ast.Attribute) and isinstance(x.value.value, ast.Name)}
            ok = ok and bool(port_from) and len(base) == 1
            hosts |= base
        ctx.record("R20.2", ctx.key(fc, f"link endpoint {side} = declared port of the declared host"), fc.loc(conn), ok and len(hosts) == 1,
                   f"{[unparse(d)[:60] for d in defs][:2]}")
        nd = [d for h in hosts for d in all_defs(h)]
        okn = bool(nd) and all(isinstance(d, ast.Call) and call_name(d) == "get_node_by_hostname" and key_readers(d, f"endpoint_{side}_hostname") for d in nd)
        ctx.record("R20.2", ctx.key(fc, f"link endpoint {side} host looked up by the declared hostname"), fc.loc(conn), okn,
                   f"{[unparse(d)[:70] for d in nd][:2]}")
    inst = [c for c in calls if call_name(c) == "install"]
    if len(inst) < 2:
        raise AnalysisError("R20.2: service/application install calls not found in from_config")
    for c in inst:
        v = kwarg(c, "software_config")
        readers = key_readers(v, "options") & for_targets
        kind = "service" if "service" in unparse(c.args[0] if c.args else c).lower() else "application"
        ctx.record("R20.2", ctx.key(fc, f"{kind} options reach install(software_config=)"), fc.loc(c), bool(readers),
                   f"software_config={unparse(ld.expand(v))[:70] if v is not None else '<missing>'} reads 'options' of the declared entry {sorted(readers)}")
    ctx.record("R20.2", ctx.key(fc, "listen_on_ports applied to services"), fc.loc(),
               any(call_name(c) == "_set_software_listen_on_ports" for c in calls), "_set_software_listen_on_ports(new_service, service_cfg)")
    au = one("add_user")
    spread = [k.value.id for k in au.keywords if k.arg is None and isinstance(k.value, ast.Name)]
    user_loops = [n for n in ast.walk(fc.node) if isinstance(n, ast.For) and isinstance(n.target, ast.Name) and n.target.id in spread
                  and any(isinstance(x, ast.Constant) and x.value == "users" for x in ast.walk(n.iter))]
    ctx.record("R20.2", ctx.key(fc, "declared users are created"), fc.loc(au), bool(user_loops), unparse(au)[:80])
    # durations: the last store before net.add_node / return must come from the node's own entry
    node_vars: Set[str] = set()
    for attr, key in (("start_up_duration", "start_up_duration"), ("shut_down_duration", "shut_down_duration")):
        stores = [n for n in ast.walk(fc.node) if isinstance(n, ast.Assign) and any(
            isinstance(t, ast.Attribute) and t.attr == attr and isinstance(t.value, ast.Attribute) and t.value.attr == "config" for t in n.targets)]
        last = max(stores, key=lambda st: st.lineno) if stores else None
        rd = key_readers(last.value, key) & for_targets if last is not None else set()
        ctx.record("R20.2", ctx.key(fc, f"node {attr} from the file"), fc.loc(last) if last else fc.loc(), bool(rd),
                   f"final value: {unparse(last.value)[:60] if last else '?'}")
        for st in stores:
            for t in st.targets:
                if isinstance(t, ast.Attribute) and isinstance(t.value, ast.Attribute) and isinstance(t.value.value, ast.Name):
                    node_vars.add(t.value.value.id)
    # a node declared ON is powered on; one declared otherwise is not
    pon = [c for c in calls if call_name(c) == "power_on" and isinstance(c.func.value, ast.Name) and c.func.value.id in node_vars]
    g = CFG(fc.node)
    pn = [n for n in g.nodes if any(c in pon for c in node_calls(n))]
    p = g.path_avoiding(pn, lambda e: bool(e.label and e.label[0] == "cond" and any(
        isinstance(x, ast.Attribute) and x.attr == "operating_state" and isinstance(x.value, ast.Name) and x.value.id in node_vars
        for x in ast.walk(e.label[1])) and "ON" in unparse(e.label[1]) and e.label[2] is True))
    ctx.record("R20.2", ctx.key(fc, "only nodes declared ON are powered on at load"), fc.loc(), bool(pn) and p is None,
               "power_on() of the node being built only on the `operating_state == ON` edge")
    ni = ix.method("Node.__init__")
    st = [n for n in ast.walk(ni.node) if isinstance(n, ast.Assign) and any(unparse(t) == "self.operating_state" for t in n.targets)]

    def from_cfg(e: ast.AST) -> bool:
        t = unparse(e)
        return "operating_state" in t and "config" in t

    bound = {x.target.id for x in ast.walk(ni.node) if isinstance(x, ast.NamedExpr) and from_cfg(x.value)} | {
        t.id for x in ast.walk(ni.node) if isinstance(x, ast.Assign) and from_cfg(x.value) for t in x.targets if isinstance(t, ast.Name)}

    def derived(e: ast.AST) -> bool:
        return from_cfg(e) or any(isinstance(x, ast.Name) and x.id in bound for x in ast.walk(e))

    # a constant state is a default: acceptable in an arm of a test on the declared value (`ON if not declared else State[declared]`,
    # written as an expression or as a statement)
    guarded = {id(a) for i in ast.walk(ni.node) if isinstance(i, ast.If) and derived(i.test) for arm in (i.body, i.orelse) for a in arm}
    ok = bool(st) and any(derived(s.value) for s in st) and all(derived(s.value) or (enum_member_text(s.value) and id(s) in guarded) for s in st)
    ctx.record("R20.2", ctx.key(ni, "declared operating_state reaches the node"), ni.loc(), ok, f"{[unparse(s.value)[:70] for s in st]}")
    # routes
    for spec in ("Router.from_config", "Firewall.from_config"):
        f = ix.method(spec)
        ar = [c for c in calls_in(f.node) if call_name(c) == "add_route"]
        if not ar:
            raise AnalysisError(f"R20.2: {spec} no longer calls add_route")
        kws = {k.arg: unparse(k.value) for k in ar[0].keywords}
        ok = all(kname in kws and f'"{kname}"' in kws[kname].replace("'", '"') for kname in ("address", "subnet_mask", "next_hop_ip_address", "metric"))
        ctx.record("R20.2", ctx.key(f, "route address / mask / next hop / metric from the file"), f.loc(ar[0]), ok, f"{kws}")
        # the default route is a declaration of its own: it must not sit in an arm that a test of the `routes` declaration excludes
        gg = CFG(f.node)
        ldd = LocalDefs(f.node)
        drn = [x for x in gg.nodes if any(call_name(c) == "set_default_route_next_hop_ip_address" for c in node_calls(x))]
        if drn:
            def routes_absent_edge(e) -> bool:
                if not (e.label and e.label[0] == "cond"):
                    return False
                t = unparse(ldd.expand(e.label[1]))
                return ("'routes'" in t or '"routes"' in t) and e.label[2] is False
            p_ = gg.path_avoiding(drn, routes_absent_edge)
            ctx.record("R20.2", ctx.key(f, "a declared default route is installed whether or not static routes are declared"), f.loc(drn[0].ast),
                       p_ is not None, "the default-route block is reachable with `routes` present" if p_ is not None else
                       "the default route is only installed when the router declares no static routes")
        dr = [c for c in calls_in(f.node) if call_name(c) == "set_default_route_next_hop_ip_address"]
        ctx.record("R20.2", ctx.key(f, "default route from the file"), f.loc(), bool(dr) and "next_hop_ip_address" in unparse(dr[0]),
                   unparse(dr[0])[:80] if dr else "no default-route parser")


IDENTITY_BY_ORDER = {"connect_nic"}


def r20_3(ctx: Ctx) -> None:
    ix = ctx.ix
    ctx.rule("R20.3", "mapping keys are honoured: no loop over cfg.items() that ignores the key while numbering by order")
    n = 0
    for fn in ix.functions:
        if isinstance(fn.node, ast.Lambda) or not fn.name.startswith(("from_config", "_from_config")):
            continue
        for node in ast.walk(fn.node):
            if not (isinstance(node, ast.For) and isinstance(node.target, ast.Tuple) and len(node.target.elts) == 2):
                continue
            it = node.iter
            src = it
            while isinstance(src, ast.Call) and isinstance(src.func, ast.Name) and src.func.id in ("sorted", "list"):
                src = src.args[0]
            if not (isinstance(src, ast.Call) and isinstance(src.func, ast.Attribute) and src.func.attr == "items"):
                continue
            n += 1
            kvar = unparse(node.target.elts[0])
            used = any(isinstance(x, ast.Name) and x.id == kvar for b in node.body for x in ast.walk(b))
            by_order = [call_name(c) for b in node.body for c in calls_in(b) if call_name(c) in IDENTITY_BY_ORDER]
            is_sorted = isinstance(it, ast.Call) and isinstance(it.func, ast.Name) and it.func.id == "sorted"
            ok = used or not by_order or is_sorted
            ctx.record("R20.3", ctx.key(fn, f"loop over {unparse(src.func.value)[:40]}.items() honours its keys"), fn.loc(node), ok,
                       ("key is used" if used else "iteration in sorted key order" if is_sorted else "body does not assign identities by order") if ok else
                       f"key `{kvar}` is ignored while {by_order} numbers the items in file order: reordering the mapping in the scenario file "
                       "changes which interface gets which number")
    ctx.floor("R20.3", "loops over config mappings", n, 8)


def r20_4(ctx: Ctx) -> None:
    ix = ctx.ix
    ctx.rule("R20.4", "loaders of one interface agree (operating state, routes)")
    node = ix.cls("Node")
    n = 0
    for c in ix.subclasses(node, include_self=True):
        if not c.discriminator and c is not node:
            continue
        n += 1
        # does construction from a config override the declared state? look at __init__ of the class chain for power_on()/stores after super().__init__
        culprits = []
        for k in ix.mro(c):
            init = k.methods.get("__init__")
            if init is None or k is node:
                continue
            gi = CFG(init.node)
            uni = set(ix.enum_members(ix.cls("NodeOperatingState")))
            for nn in gi.nodes:
                for call in node_calls(nn):
                    if call_name(call) in ("power_on", "power_off") and unparse(call.func.value) == "self":
                        # harmless when it only re-asserts the declared state: power_on() reached only on the `state == ON` edge
                        from .common import edge_state_set
                        want = {"ON"} if call_name(call) == "power_on" else {"OFF"}
                        p = gi.path_avoiding([nn], lambda e: (lambda es: es is not None and es[0] == "self" and set(es[1]) <= want)(
                            edge_state_set(e, ["operating_state"], uni, LocalDefs(init.node))))
                        if p is not None:
                            culprits.append(f"{k.short}.__init__ calls self.{call_name(call)}() whatever state was declared")
            for s in ast.walk(init.node):
                if isinstance(s, ast.Assign) and any(unparse(t) == "self.operating_state" for t in s.targets):
                    culprits.append(f"{k.short}.__init__ stores operating_state")
        fcm = ix.find_method(c, "from_config")
        declared = fcm is not None and (fcm.cls is node or any(
            isinstance(s, ast.Assign) and any(unparse(t).endswith(".operating_state") for t in s.targets) and "operating_state" in unparse(s.value)
            for s in ast.walk(fcm.node)))
        ok = not culprits and (declared or True)
        ctx.record("R20.4", f"{c.path}::{c.short}::declared operating_state is not overridden during construction", f"{c.path}:{c.node.lineno}", ok,
                   "constructed in the declared state" if ok else
                   f"{'; '.join(culprits)}: a {c.discriminator or c.short} declared OFF in the scenario is switched on while it is being built")
    ctx.floor("R20.4", "node classes", n, 8)
    # Router vs Firewall route parsing
    def route_keys(spec: str) -> Dict[str, str]:
        f = ix.method(spec)
        ar = [c for c in calls_in(f.node) if call_name(c) == "add_route"]
        return {k.arg: unparse(k.value) for k in ar[0].keywords} if ar else {}
    a, b = route_keys("Router.from_config"), route_keys("Firewall.from_config")
    ctx.record("R20.4", "src/primaite/simulator/network/hardware/nodes/network::Router/Firewall.from_config::same route parsing", "", a == b and bool(a),
               "identical add_route keyword maps" if a == b else f"route parsers differ: {a} vs {b}")


def _cfg_keys(e: ast.AST, var: str) -> Set[str]:
    """String keys read from mapping `var` inside expression e: var["k"], var.get("k"[, d])."""
    out: Set[str] = set()
    for x in ast.walk(e):
        if isinstance(x, ast.Subscript) and unparse(x.value) == var and isinstance(x.slice, ast.Constant) and isinstance(x.slice.value, str):
            out.add(x.slice.value)
        if isinstance(x, ast.Call) and isinstance(x.func, ast.Attribute) and x.func.attr == "get" and unparse(x.func.value) == var \
                and x.args and isinstance(x.args[0], ast.Constant) and isinstance(x.args[0].value, str):
            out.add(x.args[0].value)
    return out


def _expand_deep(ld: LocalDefs, e: ast.AST, depth: int = 4) -> ast.AST:
    """The expression with every single-assignment local replaced by its definition, transitively (a value computed in two or three
    named steps before the call is the same value as the one written inside the call)."""
    import copy as _copy
    if depth <= 0:
        return e

    class R(ast.NodeTransformer):
        def visit_Name(self, node):
            if isinstance(node.ctx, ast.Load):
                d = ld.single(node.id)
                if d is not None and d[0] is not None and d[1] is None:
                    return _expand_deep(ld, _copy.deepcopy(d[0]), depth - 1)
            return node

    return R().visit(_copy.deepcopy(e))


def r20_5(ctx: Ctx) -> None:
    """Sibling loader blocks (the router ACL, the wireless router ACL, the six firewall lists; the connect calls of one
    node-set adder) are copies of one another: each must map the same declared key to the same constructor argument."""
    ix = ctx.ix
    ctx.rule("R20.5", "sibling loader blocks agree: ACL rule arguments come from their own keys at their own position in the "
                      "list the block names; every link of a node set carries the declared bandwidth")
    sites = []
    for fn in ix.functions:
        if isinstance(fn.node, ast.Lambda) or fn.name != "from_config":
            continue
        for loop in ast.walk(fn.node):
            if not (isinstance(loop, ast.For) and isinstance(loop.target, ast.Tuple) and len(loop.target.elts) == 2):
                continue
            kvar, vvar = unparse(loop.target.elts[0]), unparse(loop.target.elts[1])
            for c in calls_in(loop):
                if call_name(c) == "add_rule" and isinstance(c.func, ast.Attribute):
                    sites.append((fn, loop, kvar, vvar, c))
    if len(sites) < 8:
        raise AnalysisError(f"R20.5: expected the 8 ACL loader blocks (router, wireless router, 6 firewall lists), found {len(sites)}")
    maps = []
    for fn, loop, kvar, vvar, c in sites:
        ld_ = LocalDefs(fn.node)
        m = {k.arg: frozenset(_cfg_keys(_expand_deep(ld_, k.value), vvar)) for k in c.keywords if k.arg}
        maps.append(m)
    # reference: per keyword the key set most sites use (confirmed by reading: kw == key except src_ip/dst_ip)
    ref: Dict[str, frozenset] = {}
    for kw in sorted({k for m in maps for k in m}):
        vals = [m.get(kw) for m in maps if kw in m]
        ref[kw] = max(set(vals), key=vals.count)
    for (fn, loop, kvar, vvar, c), m in zip(sites, maps):
        acl = unparse(c.func.value)
        probs = []
        for kw, want in ref.items():
            got = m.get(kw)
            if got is None:
                probs.append(f"{kw} is not passed (its siblings read {sorted(want)})")
            elif got != want:
                probs.append(f"{kw} is read from {sorted(got) or 'no key'}; its siblings read {sorted(want)}")
            for pre in ("src_", "dst_"):
                if kw.startswith(pre) and got and any(not g.startswith(pre) for g in got):
                    probs.append(f"{kw} takes a value declared for the other end ({sorted(got)})")
        pos = kwarg(c, "position")
        if pos is None or unparse(pos) != kvar:
            probs.append(f"position is {unparse(pos) if pos is not None else 'missing'}, not the mapping key {kvar}")
        # the list that receives the rules is the one the block iterates over
        lst = acl.split(".")[-1]
        src_keys = {x.slice.value for x in ast.walk(loop.iter) if isinstance(x, ast.Subscript) and isinstance(x.slice, ast.Constant)
                    and isinstance(x.slice.value, str)}
        named = {k for k in src_keys if k.endswith("_acl")}
        if named and named != {lst}:
            probs.append(f"rules declared under {sorted(named)} are added to {lst}")
        ctx.record("R20.5", ctx.key(fn, f"ACL block -> {acl}"), fn.loc(c), not probs,
                   f"{len(m)} arguments, each from its own key; position = {kvar}" if not probs else "; ".join(probs))
    # node-set adders
    adder = ix.cls("NetworkNodeAdder")
    n_conn = 0
    for c in ix.subclasses(adder):
        schema = next((x for x in c.node.body if isinstance(x, ast.ClassDef) and x.name == "ConfigSchema"), None)
        if schema is None or not any(isinstance(st, ast.AnnAssign) and isinstance(st.target, ast.Name) and st.target.id == "bandwidth"
                                     for st in schema.body):
            continue
        for f in c.methods.values():
            if isinstance(f.node, ast.Lambda):
                continue
            ld = LocalDefs(f.node)
            for call in calls_in(f.node):
                if call_name(call) != "connect":
                    continue
                n_conn += 1
                v = kwarg(call, "bandwidth", 2)
                txt = unparse(ld.expand(v)) if v is not None else None
                ok = txt is not None and "bandwidth" in txt and "config" in txt
                ctx.record("R20.5", ctx.key(f, f"link {unparse(call.args[0])[:40] if call.args else '?'} <-> "
                                               f"{unparse(call.args[1])[:40] if len(call.args) > 1 else '?'} carries the declared bandwidth"),
                           f.loc(call), ok, f"connect(..., bandwidth={txt})" if ok else
                           f"{c.short} declares `bandwidth` but this link is created with "
                           f"{'bandwidth=' + txt if txt else 'the default of Network.connect'}")
    ctx.floor("R20.5", "node-set links", n_conn, 5)


def r20_6(ctx: Ctx) -> None:
    from .c04 import r4_4
    r4_4(ctx, "R20.6")



def r20_7(ctx: Ctx) -> None:
    """(a) Every declared listening port is applied: in the helper that turns `listen_on_ports` into the service's port set, each
    iteration that resolved a port reaches the append - whichever way the port was written (number or name).
    (b) A mapping declared in the scenario is read by key, never by position (`list(m.values())[i]` depends on the order the keys
    were written in)."""
    ix = ctx.ix
    ctx.rule("R20.7", "every declared listening port reaches the service's port set (number or name); scenario mappings are indexed "
                      "by key, not by position")
    fc = ix.method("PrimaiteGame.from_config")
    helper = next((f for f in ix.nested_funcs(fc) if f.name == "_set_software_listen_on_ports"), None)
    if helper is None:  # the same helper as a module-level function of the loader's module
        helper = next((f for f in ix.all_functions() if f.name == "_set_software_listen_on_ports" and f.path == fc.path
                       and not isinstance(f.node, ast.Lambda)), None)
    if helper is None:
        raise AnalysisError("R20.7: _set_software_listen_on_ports not found in from_config or next to it")
    g = CFG(helper.node)
    loops = [n for n in g.nodes if n.kind == "for" and "listen_on_ports" in unparse(n.ast.iter)]
    apps = [n for n in g.nodes if any(call_name(c) in ("append", "add") for c in node_calls(n)) and n.loops]
    if not loops or not apps:
        raise AnalysisError("R20.7: the loop over listen_on_ports / its append was not recognised")
    lp = loops[0]
    resolved = [n for n in g.nodes if lp.ast in n.loops and n.kind == "stmt" and isinstance(n.ast, ast.Assign)
                and not (isinstance(n.ast.value, ast.Constant) and n.ast.value.value is None)]
    bad = None
    app_target = {unparse(c.args[0]) for n in apps for c in node_calls(n) if call_name(c) in ("append", "add") and c.args}
    for r in resolved:
        tv = unparse(r.ast.targets[0])
        if tv not in app_target:
            continue
        # from a store of a resolved port back to the loop head without the append: only through the `port` falsy edge
        p = g.path_avoiding([lp], lambda e, tv=tv: bool(e.label and e.label[0] == "cond" and unparse(e.label[1]) == tv and e.label[2] is False),
                            start=r, blocked_nodes={a.id for a in apps})
        if p is not None:
            bad = (r, p)
            break
    ctx.record("R20.7", ctx.key(helper, "a resolved listening port is always added"), helper.loc(lp.ast), bad is None,
               "every way of writing a port (number, name) leads to the append" if bad is None else
               f"a port resolved at line {bad[0].lineno} can reach the next iteration without being added: declared listening ports of that "
               "form are silently dropped", path_text(bad[1]) if bad else None)
    n = 0
    for fn in ix.functions:
        if isinstance(fn.node, ast.Lambda) or not fn.path.startswith(("src/primaite/session/", "src/primaite/game/game.py", "src/primaite/simulator/network/")):
            continue
        for x in ast.walk(fn.node):
            if isinstance(x, ast.Subscript) and isinstance(x.value, ast.Call) and isinstance(x.value.func, ast.Name) and x.value.func.id in ("list", "tuple") \
                    and x.value.args and isinstance(x.value.args[0], ast.Call) and isinstance(x.value.args[0].func, ast.Attribute) \
                    and x.value.args[0].func.attr in ("values", "keys", "items") and not isinstance(x.slice, ast.Slice):
                n += 1
                src = unparse(x.value.args[0].func.value)
                cfg_like = any(w in src for w in ("schedule", "cfg", "config", "episode_data"))
                ctx.record("R20.7", ctx.key(fn, f"{unparse(x)[:60]} is not a positional read of a scenario mapping"), fn.loc(x), not cfg_like,
                           "not a scenario mapping" if not cfg_like else
                           f"`{unparse(x)[:70]}` picks an entry of the declared mapping `{src}` by position: which entry that is depends on the "
                           "order the keys were written in the file")
    ctx.count("R20.7:positional reads of mappings inspected", n)



def r20_9(ctx: Ctx) -> None:
    """A component option that falls back to a node-level setting (`self.config.X = self.parent.X`) takes the fallback only when
    the component's own option was not declared: the store sits behind a test that the own option is unset."""
    ix = ctx.ix
    ctx.rule("R20.9", "a node-level fallback never overrides a declared component option (`own.X = parent.X` only where own.X is unset)")
    n = 0
    for f in ix.all_functions():
        if isinstance(f.node, ast.Lambda) or "/simulator/system/" not in f.path:
            continue
        g = None
        for st in ast.walk(f.node):
            if not (isinstance(st, ast.Assign) and len(st.targets) == 1 and isinstance(st.targets[0], ast.Attribute) and isinstance(st.value, ast.Attribute)
                    and st.targets[0].attr == st.value.attr and "parent" in unparse(st.value.value) and unparse(st.targets[0].value).startswith("self")):
                continue
            g = g or CFG(f.node)
            node = next((x for x in g.nodes if x.ast is st), None)
            if node is None:
                continue
            own = st.targets[0]
            names = {unparse(own), f"self.{own.attr}"}

            def own_unset(e) -> bool:
                if not (e.label and e.label[0] == "cond"):
                    return False
                x = e.label[1]
                if isinstance(x, ast.Attribute) and x.attr == own.attr and "parent" not in unparse(x):
                    return e.label[2] is False
                if isinstance(x, ast.Compare) and len(x.ops) == 1 and isinstance(x.ops[0], ast.Is) and isinstance(x.left, ast.Attribute) \
                        and x.left.attr == own.attr and "parent" not in unparse(x.left) and isinstance(x.comparators[0], ast.Constant) \
                        and x.comparators[0].value is None:
                    return e.label[2] is True
                return False

            p_ = g.path_avoiding([node], own_unset)
            n += 1
            ctx.record("R20.9", ctx.key(f, f"{unparse(own)} falls back to the node's value only when unset"), f.loc(st), p_ is None,
                       "the fallback store is reached only where the component's own option is unset" if p_ is None else
                       "the node-level value overwrites an option that the scenario declared for the component", path_text(p_))
    ctx.floor("R20.9", "node-level fallbacks", n, 1)


def check(ctx: Ctx) -> None:
    r20_1(ctx)
    r20_2(ctx)
    r20_3(ctx)
    r20_4(ctx)
    r20_5(ctx)
    r20_6(ctx)
    r20_7(ctx)
    r20_9(ctx)
    # "key order within a mapping must not change behaviour": the probability vector of a scripted agent is index-aligned - C19's R19.5
    from . import c19
    with ctx.borrowed({"R19.5": "R20.10"}):
        c19.r19_5(ctx)
    from .common import falsy_numeric
    falsy_numeric(ctx, "R20.8", r"duration|bandwidth|position|metric|weight|num_|probability|variance|frequency|start_step", "declared numeric options")
