"""C06 - blocking is effective: a denied frame is neither forwarded nor handed to software."""
from __future__ import annotations

import ast
import re
from typing import Dict, List, Optional, Set, Tuple

from ..astutil import attr_chain, call_name, calls_in, unparse
from ..cfg import CFG, CNode, Edge, LocalDefs, path_text
from ..index import AnalysisError, ClassInfo, FuncInfo
from ..inventory import call_sites, recv_class
from ..inventory import only_called_from
from ..report import Ctx
from .common import node_calls, nodes_calling

EXPLANATION = (
    "Static analysis of the packet-filter control flow and of the channels between hosts. Decided: R6.1 in "
    "Router.receive_frame every path to ARP learning, session delivery, process_frame/route_frame or send_frame passes "
    "the permitted-edge of a verdict obtained from self.acl.is_permitted(frame) (ARP frames are exempt only on the "
    "`not subject_to_acl` edge); in each of the six Firewall._process_<zone>_<direction>_frame functions the same holds "
    "for that zone/direction's own list; Firewall.receive_frame dispatches each port to its source-zone function, and "
    "every route from a source-zone function to process_frame goes through exactly one destination-zone check chosen "
    "by the matching port test; who-may-call process_frame/route_frame is a frozen set; R6.2 frames are the only "
    "channel: interface.receive_frame is called only by Link.transmit_frame/AirSpace.transmit, node.receive_frame only "
    "by interface receive_frame, send_frame only from the session manager, the switch and the router forwarding "
    "functions; software and file-system modules never reach the Network container or another node's objects; R6.3 "
    "every send_frame/receive_frame implementation of an interface class tests `self.enabled` before any effect, "
    "Link.can_transmit_frame requires is_up, and is_up is the conjunction of both endpoints' enabled flags. NOT "
    "decided: that B's state is unchanged in every history (behavioural). R6.4: in the three source-zone functions the "
    "tests that choose the destination zone (looked through predicate helpers) depend on the routing state - the route "
    "table or an interface resolved through ARP/route lookup - because the zone whose inbound list applies is the port "
    "the frame leaves by; a predicate helper that makes the choice (`_leaves_by_<zone>_port`) is evaluated as a truth table "
    "over its membership atoms (any further atom must not change the answer); the arithmetic of the route lookup itself is not "
    "decided. R6.5 = C07's rules R7.1/R7.2/R7.5 (first-match scan, field-by-field matcher, wildcard per-bit table) and R6.6 = "
    "C12's R12.1/R12.2 (power-state writers, interfaces disabled when leaving ON, enable gated on ON) applied here: a deny rule "
    "blocks only if the matcher matches and the scan stops there, a powered-off device is silent only if its interfaces stay down. "
    "R6.7 Router.check_send_frame_to_session_manager is true exactly for frames addressed to an own interface that are ICMP or "
    "aimed at an open port (8-row table) - the premise under which RouterICMP may re-enter process_frame. R6.8 the ACL exemption (subject_to_acl and the Frame properties it consults) reads the frame's ip and udp headers only, unless every path to the exemption passes `ip.protocol == 'udp'`."
)
TECHNIQUE = "static: CFG must-pass (verdict before effect) per filter function, zone call-graph check, who-may-call inventories, module layering check"
ASSUMPTIONS = ["no monkey-patching of interface/node classes", "class-hierarchy analysis over-approximates dispatch"]

SINK_CALLS = ["add_arp_cache_entry", "process_frame", "route_frame", "send_frame"]
PROCESS_FRAME_CALLERS = {
    "Router.receive_frame": "after the ACL verdict (R6.1)",
    "Router.process_frame": "route_frame for non-local destinations (same verdict)",
    "Firewall._process_external_outbound_frame": "destination-zone check passed",
    "Firewall._process_internal_inbound_frame": "destination-zone check passed",
    "Firewall._process_dmz_inbound_frame": "destination-zone check passed",
    "RouterICMP.receive": "re-enters process_frame only when the destination is NOT a router interface, which "
                          "contradicts the predicate under which the frame was handed to it (infeasible cross-function "
                          "path; the frame had already passed the verdict)",
}
SEND_FRAME_CALLERS = {
    "SessionManager.receive_payload_from_software_manager": "the single exit of software traffic to the wire",
    "Switch.receive_frame": "layer-2 forwarding",
    "Router.process_frame": "layer-3 forwarding after the verdict",
    "Router.route_frame": "layer-3 forwarding after the verdict",
    "WiredNetworkInterface.send_frame": "super().send_frame bookkeeping",
    "WirelessNetworkInterface.send_frame": "super().send_frame bookkeeping",
}


def _sink_nodes(g: CFG) -> List[CNode]:
    out = []
    for n in g.nodes:
        if n.kind in ("entry", "exit", "raise"):
            continue
        for c in node_calls(n):
            nm = call_name(c)
            if nm in SINK_CALLS:
                out.append(n)
                break
            if nm == "receive_frame" and isinstance(c.func, ast.Attribute) and "session_manager" in unparse(c.func.value):
                out.append(n)
                break
            if nm and nm.startswith("_process_") and nm.endswith("_frame"):
                out.append(n)
                break
    return out


def _verdict_edges(fn: FuncInfo, g: CFG, acl_expr: str) -> Tuple[Set[int], List[str]]:
    """Ids of edges that establish `permitted` for a verdict taken from <acl_expr>.is_permitted(frame)."""
    ld = LocalDefs(fn.node)
    notes: List[str] = []
    verdict_vars: Set[str] = set()
    for name, defs in ld.defs.items():
        vals = [(v, i, st) for v, i, st in defs]
        from_acl = [(v, i) for v, i, _ in vals if isinstance(v, ast.Call) and call_name(v) == "is_permitted"
                    and unparse(v.func.value) == acl_expr and i == 0]
        if not from_acl:
            continue
        others = [(v, i, st) for v, i, st in vals if not (isinstance(v, ast.Call) and call_name(v) == "is_permitted")]
        ok = True
        for v, i, st in others:
            if isinstance(v, ast.Constant) and v.value is False:
                continue  # initialisation to "not permitted" is harmless
            if isinstance(v, ast.Constant) and v.value is True:
                # exemption: must sit on the false edge of a subject_to_acl(...) test
                stn = [n for n in g.nodes if n.ast is st]
                exempt = bool(stn) and g.path_avoiding(stn, lambda e: bool(
                    e.label and e.label[0] == "cond" and isinstance(e.label[1], ast.Call) and call_name(e.label[1]) == "subject_to_acl"
                    and e.label[2] is False)) is None
                if exempt:
                    notes.append("ARP exemption on the `not subject_to_acl(frame)` edge")
                    continue
            ok = False
        if ok:
            verdict_vars.add(name)
    edges: Set[int] = set()
    for e in g.edges():
        if e.label and e.label[0] == "cond" and e.label[2] is True and isinstance(e.label[1], ast.Name) and e.label[1].id in verdict_vars:
            edges.add(id(e))
        # direct form: if self.acl.is_permitted(frame)[0]:
        if e.label and e.label[0] == "cond" and e.label[2] is True and isinstance(e.label[1], ast.Subscript):
            v = e.label[1].value
            if isinstance(v, ast.Call) and call_name(v) == "is_permitted" and unparse(v.func.value) == acl_expr:
                edges.add(id(e))
    return edges, notes


_PORT_RE = re.compile(r"self\.(\w+_port)\b")


def _cond_ports(ix, cls: ClassInfo, cond: ast.AST, truth: bool, depth: int = 2, scope: Optional[ast.AST] = None) -> Tuple[Set[str], Set[str]]:
    """(ports the edge `cond is truth` selects, ports it excludes).  A comparison mentioning self.<z>_port selects z on its
    true edge and excludes it on the false edge; `self.<helper>(...)` is looked through: the ports tested on the way to
    `return True` (or named by a computed return value) are what its true edge selects, those guarding `return False` are
    excluded by it."""
    pos: Set[str] = set()
    neg: Set[str] = set()
    if isinstance(cond, ast.UnaryOp) and isinstance(cond.op, ast.Not):
        return _cond_ports(ix, cls, cond.operand, not truth, depth, scope)
    if isinstance(cond, ast.Name) and scope is not None:
        # a local bound exactly once stands for its definition
        defs = [st.value for st in ast.walk(scope) if isinstance(st, ast.Assign) and len(st.targets) == 1
                and isinstance(st.targets[0], ast.Name) and st.targets[0].id == cond.id]
        if len(defs) == 1:
            return _cond_ports(ix, cls, defs[0], truth, depth, None)
        return pos, neg
    if isinstance(cond, ast.Compare):
        ports = set(_PORT_RE.findall(unparse(cond)))
        return (ports, set()) if truth else (set(), ports)
    if isinstance(cond, ast.Call) and isinstance(cond.func, ast.Attribute) and unparse(cond.func.value) == "self" and depth > 0:
        h = ix.find_method(cls, cond.func.attr)
        if h is not None and not isinstance(h.node, ast.Lambda):
            hg = CFG(h.node)
            sel: Set[str] = set()
            exc: Set[str] = set()
            for n in hg.nodes:
                if not isinstance(n.ast, ast.Return) or n.ast.value is None:
                    continue
                v = n.ast.value
                guard_pos: Set[str] = set()
                for e in hg.edges():
                    if e.label and e.label[0] == "cond" and hg.path_avoiding([n], lambda x, ee=e: x is ee) is None:
                        a, b = _cond_ports(ix, cls, e.label[1], bool(e.label[2]), depth - 1, h.node)
                        guard_pos |= a
                if isinstance(v, ast.Constant) and v.value is True:
                    sel |= guard_pos
                elif isinstance(v, ast.Constant) and v.value is False:
                    exc |= guard_pos
                else:
                    sel |= set(_PORT_RE.findall(unparse(v))) | guard_pos
            exc -= sel
            return (sel, exc) if truth else (exc, sel)
    return pos, neg


def _routing_dependence(ix, fn: FuncInfo, conds: List[ast.AST], depth: int = 3) -> Optional[str]:
    """Name the construct through which the given conditions (may-)depend on the routing state: a load of `route_table`
    or a call of find_best_route / get_arp_cache_network_interface in the conditions, in any definition of a local they
    mention (flow-insensitive), or in a self-method they call (transitively, bounded)."""
    seen_fn: Set[int] = set()

    def scan(f: FuncInfo, exprs: List[ast.AST], d: int) -> Optional[str]:
        names: Set[str] = set()
        work = list(exprs)
        done: Set[int] = set()
        while work:
            e = work.pop()
            if id(e) in done:
                continue
            done.add(id(e))
            for x in ast.walk(e):
                if isinstance(x, ast.Attribute) and x.attr == "route_table":
                    return f"{f.short}: reads {unparse(x)}"
                if isinstance(x, ast.Call) and call_name(x) in ("find_best_route", "get_arp_cache_network_interface"):
                    return f"{f.short}: calls {unparse(x.func)}"
                if isinstance(x, ast.Name) and x.id not in names:
                    names.add(x.id)
                    for st in ast.walk(f.node):
                        if isinstance(st, ast.Assign) and any(isinstance(t, ast.Name) and t.id == x.id for t in st.targets):
                            work.append(st.value)
                        elif isinstance(st, ast.AnnAssign) and isinstance(st.target, ast.Name) and st.target.id == x.id and st.value:
                            work.append(st.value)
                if isinstance(x, ast.Call) and isinstance(x.func, ast.Attribute) and unparse(x.func.value) == "self" and d > 0 and f.cls:
                    h = ix.find_method(f.cls, x.func.attr)
                    if h is not None and id(h) not in seen_fn and not isinstance(h.node, ast.Lambda):
                        seen_fn.add(id(h))
                        r = scan(h, [h.node], d - 1)
                        if r:
                            return r
        return None

    return scan(fn, conds, depth)



def r6_1(ctx: Ctx) -> None:
    ix = ctx.ix
    ctx.rule("R6.1", "verdict before effect: every path to ARP learning / session delivery / forwarding passes the "
                     "permitted-edge of this filter's own is_permitted(frame) verdict")
    specs: List[Tuple[str, str]] = [("Router.receive_frame", "self.acl")]
    fw = ix.cls("Firewall")
    zone_funcs = sorted(m for m in fw.methods if re.fullmatch(r"_process_(external|internal|dmz)_(inbound|outbound)_frame", m))
    if len(zone_funcs) != 6:
        raise AnalysisError(f"R6.1: expected 6 firewall zone functions, found {zone_funcs}")
    for m in zone_funcs:
        zone, direction = re.fullmatch(r"_process_(\w+)_(\w+)_frame", m).groups()
        specs.append((f"Firewall.{m}", f"self.{zone}_{direction}_acl"))
    for spec, acl in specs:
        fn = ix.method(spec)
        g = CFG(fn.node)
        sinks = _sink_nodes(g)
        if not sinks:
            raise AnalysisError(f"R6.1: {spec} contains none of the effects the rule guards (idiom changed)")
        vedges, notes = _verdict_edges(fn, g, acl)
        if not vedges:
            ctx.fail("R6.1", ctx.key(fn, f"verdict of {acl} precedes every effect"), fn.loc(),
                     f"no branch on the verdict of {acl}.is_permitted(frame) found; effects: "
                     f"{sorted({call_name(c) for s in sinks for c in node_calls(s) if call_name(c)})[:6]}")
            continue
        for s in sinks:
            p = g.path_avoiding([s], lambda e: id(e) in vedges)
            what = sorted({call_name(c) for c in node_calls(s) if call_name(c) in SINK_CALLS or (call_name(c) or "").startswith("_process_")
                           or call_name(c) == "receive_frame"})
            ctx.record("R6.1", ctx.key(fn, f"{'/'.join(what)} only after the verdict of {acl}"), fn.loc(s.ast), p is None,
                       (f"reached only on the permitted edge of {acl}.is_permitted(frame)" + (f" ({'; '.join(notes)})" if notes else ""))
                       if p is None else f"{'/'.join(what)} reachable without a permitting verdict from {acl}", path_text(p))
    # dispatch in Firewall.receive_frame
    rf = ix.method("Firewall.receive_frame")
    g = CFG(rf.node)
    want = {"external_port": "_process_external_inbound_frame", "internal_port": "_process_internal_outbound_frame",
            "dmz_port": "_process_dmz_outbound_frame"}
    seen: Dict[str, str] = {}
    for n in g.nodes:
        for c in node_calls(n):
            nm = call_name(c)
            if nm and nm.startswith("_process_"):
                # which port tests dominate this call?
                ports = set()
                for e in g.edges():
                    if e.label and e.label[0] == "cond" and e.label[2] is True and isinstance(e.label[1], ast.Compare):
                        txt = unparse(e.label[1])
                        m = re.search(r"self\.(\w+_port)", txt)
                        if m and "from_network_interface" in txt and g.path_avoiding([n], lambda x, ee=e: x is ee) is None:
                            ports.add(m.group(1))
                for p in ports:
                    seen[p] = nm
    for port, func in want.items():
        ctx.record("R6.1", ctx.key(rf, f"{port} -> {func}"), rf.loc(), seen.get(port) == func,
                   f"frames from {port} are handled by {seen.get(port)}")
    others = [call_name(c) for c in calls_in(rf.node) if call_name(c) in SINK_CALLS + ["receive_frame"]]
    ctx.record("R6.1", ctx.key(rf, "dispatch only"), rf.loc(), not others,
               "Firewall.receive_frame performs no effect itself" if not others else f"effects outside the zone functions: {others}")
    # zone call graph
    entry = ["_process_external_inbound_frame", "_process_internal_outbound_frame", "_process_dmz_outbound_frame"]
    dest = {"_process_dmz_inbound_frame": "dmz_port", "_process_internal_inbound_frame": "internal_port",
            "_process_external_outbound_frame": "external_port"}
    zone_conds: Dict[str, List[ast.AST]] = {}
    for m in entry:
        fn = ix.method(f"Firewall.{m}")
        called = {call_name(c) for c in calls_in(fn.node)}
        direct = "process_frame" in called or "route_frame" in called or "send_frame" in called
        zc = sorted(x for x in called if x and x.startswith("_process_"))
        ok = not direct and zc and all(x in dest for x in zc)
        ctx.record("R6.1", ctx.key(fn, "forwards only through a destination-zone check"), fn.loc(), ok,
                   f"calls {zc}; direct forwarding: {direct}")
        # the destination function matches the port test that selects it
        g = CFG(fn.node)
        for n in g.nodes:
            for c in node_calls(n):
                nm = call_name(c)
                if nm in dest:
                    # positive port tests on the path
                    pos_ports, neg_ports = set(), set()
                    deciding: List[ast.AST] = []
                    for e in g.edges():
                        if e.label and e.label[0] == "cond" and g.path_avoiding([n], lambda x, ee=e: x is ee) is None:
                            a, b = _cond_ports(ix, fw, e.label[1], bool(e.label[2]), 2, fn.node)
                            pos_ports |= a
                            neg_ports |= b
                            if a or b:
                                deciding.append(e.label[1])
                    zone_conds.setdefault(m, []).extend(deciding)
                    okd = (dest[nm] in pos_ports) or (not pos_ports and dest[nm] not in neg_ports)
                    ctx.record("R6.1", ctx.key(fn, f"destination check {nm} matches the selecting port test"), fn.loc(n.ast), okd,
                               f"{nm} is chosen on: positive tests {sorted(pos_ports)}, negative tests {sorted(neg_ports)}")
    # R6.4: the destination zone is the port the frame will leave by, so its selection consults the routing state
    ctx.rule("R6.4", "destination-zone selection depends on the routing state (route table / resolved outbound interface), "
                     "not on a port's own subnet alone")
    for m in entry:
        fn = ix.method(f"Firewall.{m}")
        conds = zone_conds.get(m, [])
        if not conds:
            raise AnalysisError(f"R6.4: no port test selects the destination zone in Firewall.{m} (idiom changed)")
        dep = _routing_dependence(ix, fn, conds)
        ctx.record("R6.4", ctx.key(fn, "zone selection consults the routing state"), fn.loc(conds[0]), dep is not None,
                   f"selecting tests [{'; '.join(sorted({unparse(c)[:70] for c in conds}))}] depend on the routing state via {dep}"
                   if dep else
                   f"the tests that choose the destination zone [{'; '.join(sorted({unparse(c)[:70] for c in conds}))}] look only at "
                   f"the ports' own subnets: a destination routed through a port (next hop on its subnet) is checked against "
                   f"another zone's list and forwarded without this zone's inbound check")
    for m in dest:
        fn = ix.method(f"Firewall.{m}")
        called = {call_name(c) for c in calls_in(fn.node)}
        zc = sorted(x for x in called if x and x.startswith("_process_") and x.endswith("_frame"))
        ctx.record("R6.1", ctx.key(fn, "exactly one destination check per route"), fn.loc(), not zc and "process_frame" in called,
                   f"calls process_frame and no further zone function ({zc})")
    # who may call process_frame / route_frame
    for cs in call_sites(ix, ["process_frame", "route_frame"]):
        via = None if cs.owner in PROCESS_FRAME_CALLERS else only_called_from(ix, cs.fn, PROCESS_FRAME_CALLERS)
        ok = cs.owner in PROCESS_FRAME_CALLERS or bool(via)
        ctx.record("R6.1", f"{cs.path}::{cs.owner}::calls {call_name(cs.call)}", cs.where, ok,
                   PROCESS_FRAME_CALLERS.get(cs.owner, f"helper called only from {via}" if via else
                                             "forwarding entered from a function that has not taken an ACL verdict"))


def r6_2(ctx: Ctx) -> None:
    ix = ctx.ix
    ctx.rule("R6.2", "frames are the only channel between hosts (who-may-call receive_frame / send_frame; software and "
                     "file-system code never reaches the Network container or another node)")
    ni = ix.cls("NetworkInterface")
    node = ix.cls("Node")
    n = 0
    for cs in call_sites(ix, ["receive_frame"]):
        f = cs.call.func
        if not isinstance(f, ast.Attribute) or cs.fn is None:
            continue
        if isinstance(f.value, ast.Call) and call_name(f.value) == "super":
            continue
        rtxt = unparse(f.value)
        rc = recv_class(ix, cs.fn, f.value)
        n += 1
        key = f"{cs.path}::{cs.owner}::{rtxt}.receive_frame"
        if "session_manager" in rtxt:
            okc = cs.fn.cls is not None and ix.is_subclass(cs.fn.cls, node)
            ctx.record("R6.2", key, cs.where, okc, "session delivery is entered from the node's own receive path")
        elif rtxt == "self._connected_node" or (rc is not None and ix.is_subclass(rc, node)):
            okc = cs.fn.cls is not None and ix.is_subclass(cs.fn.cls, ni) and cs.fn.name == "receive_frame" and rtxt == "self._connected_node"
            ctx.record("R6.2", key, cs.where, okc,
                       "a node receives frames only from its own interface's receive_frame" if okc else
                       "node.receive_frame called from outside an interface's receive_frame")
        else:
            okc = cs.owner in ("Link.transmit_frame", "AirSpace.transmit")
            ctx.record("R6.2", key, cs.where, okc,
                       "an interface receives frames only from the link / air space it is attached to" if okc else
                       "interface.receive_frame called directly - bypasses links, bandwidth, enabled checks and ACLs")
    ctx.floor("R6.2", "receive_frame call sites", n, 10)
    n = 0
    for cs in call_sites(ix, ["send_frame"]):
        n += 1
        via = None if cs.owner in SEND_FRAME_CALLERS else only_called_from(ix, cs.fn, SEND_FRAME_CALLERS)
        ok = cs.owner in SEND_FRAME_CALLERS or bool(via)
        ctx.record("R6.2", f"{cs.path}::{cs.owner}::{unparse(cs.call.func)}", cs.where, ok,
                   SEND_FRAME_CALLERS.get(cs.owner, f"helper called only from {via}" if via else
                                          "frames emitted from outside the session manager / forwarding plane"))
    ctx.floor("R6.2", "send_frame call sites", n, 6)
    # layering for software and file-system modules
    n_mod = 0
    for mi in ix.modules.values():
        if not (mi.path.startswith("src/primaite/simulator/system/") or mi.path.startswith("src/primaite/simulator/file_system/")):
            continue
        n_mod += 1
        bad: List[str] = []
        for nm, tgt in mi.imports.items():
            if tgt.startswith("primaite.simulator.network.container") or tgt.startswith("primaite.simulator.sim_container") \
                    or tgt.startswith("primaite.game.game") or tgt.startswith("primaite.session"):
                bad.append(f"imports {tgt}")
        for node_ in ast.walk(mi.tree):
            if isinstance(node_, ast.Attribute):
                ch = attr_chain(node_)
                if ch:
                    for a, b in zip(ch, ch[1:]):
                        if (a == "parent" and b == "parent") or (a == "node" and b == "parent") or (a == "parent" and b in ("nodes", "links", "network")):
                            bad.append(f"L{node_.lineno}: {unparse(node_)[:60]}")
                            break
            if isinstance(node_, ast.Call) and call_name(node_) in ("get_node_by_hostname", "get_node_by_uuid"):
                bad.append(f"L{node_.lineno}: {unparse(node_)[:60]}")
        ctx.record("R6.2", f"{mi.path}::<module>::no reference to the network container or other nodes", f"{mi.path}:1", not bad,
                   "software/file-system module touches only its own node" if not bad else
                   "software reaches beyond its node without sending a frame", sorted(set(bad))[:5])
    ctx.floor("R6.2", "software/file-system modules", n_mod, 40)


def r6_3(ctx: Ctx) -> None:
    ix = ctx.ix
    ctx.rule("R6.3", "a disabled interface / down link is silent: send_frame and receive_frame test self.enabled "
                     "before any effect; can_transmit_frame requires is_up; is_up = both endpoints enabled")
    ni = ix.cls("NetworkInterface")
    n = 0
    for meth in ("send_frame", "receive_frame"):
        for f in ix.overrides(ni, meth):
            g = CFG(f.node)
            effects = [x for x in g.nodes if x.kind in ("stmt", "cond", "for", "with") and any(
                not unparse(c.func).startswith(("_LOGGER", "self._connected_node.sys_log")) for c in node_calls(x))]
            # abstract bases only do bookkeeping (traffic counters) and are reached through super() from gated overrides
            if f.is_abstract:
                ctx.ok("R6.3", ctx.key(f, "gated on self.enabled"), f.loc(), "abstract base (bookkeeping reached via super() of a gated override)", trivial=True)
                continue
            if not effects:
                ctx.ok("R6.3", ctx.key(f, "gated on self.enabled"), f.loc(), "stub without effect", trivial=True)
                continue
            n += 1
            p = g.path_avoiding(effects, lambda e: bool(e.label and e.label[0] == "cond" and unparse(e.label[1]) == "self.enabled" and e.label[2]))
            ctx.record("R6.3", ctx.key(f, "gated on self.enabled"), f.loc(), p is None,
                       "every effect lies behind the `self.enabled` edge" if p is None else "effect reachable on a disabled interface", path_text(p))
    ctx.floor("R6.3", "concrete send/receive implementations", n, 7)
    ct = ix.method("Link.can_transmit_frame")
    g = CFG(ct.node)
    rets = [x for x in g.nodes if x.kind == "stmt" and isinstance(x.ast, ast.Return) and not (isinstance(x.ast.value, ast.Constant) and x.ast.value.value is False)]
    p = g.path_avoiding(rets, lambda e: bool(e.label and e.label[0] == "cond" and unparse(e.label[1]) == "self.is_up" and e.label[2]))
    ctx.record("R6.3", ctx.key(ct, "requires is_up"), ct.loc(), p is None and bool(rets),
               "a non-False answer is returned only on the `self.is_up` edge" if p is None else "a down link may admit a frame", path_text(p))
    iu = ix.method("Link.is_up")
    rets = [x for x in ast.walk(iu.node) if isinstance(x, ast.Return)]
    ok = len(rets) == 1 and isinstance(rets[0].value, ast.BoolOp) and isinstance(rets[0].value.op, ast.And) and \
        {unparse(v) for v in rets[0].value.values} == {"self.endpoint_a.enabled", "self.endpoint_b.enabled"}
    ctx.record("R6.3", ctx.key(iu, "is_up = endpoint_a.enabled and endpoint_b.enabled"), iu.loc(), ok,
               f"returns {unparse(rets[0].value) if rets else '?'}")


def r6_4_helper_table(ctx: Ctx) -> None:
    """If the zone choice is delegated to a predicate (`_leaves_by_<zone>_port(dst)`), the predicate is evaluated as a truth table
    over its membership atoms: it must answer True exactly when dst is on that port's subnet, or on none of the firewall's own
    subnets and routed via a next hop on that port's subnet - whatever any other atom (e.g. 'is the default route') says."""
    ix = ctx.ix
    fw = ix.cls("Firewall")
    import itertools
    from ..absval import UNKNOWN, Evaluator, walk
    for name, h in sorted(fw.methods.items()):
        m = re.fullmatch(r"_leaves_by_(\w+)_port", name)
        if not m or isinstance(h.node, ast.Lambda):
            continue
        zone = m.group(1)
        params = [a.arg for a in h.node.args.args[1:]]
        if len(params) != 1:
            raise AnalysisError(f"R6.4: {h.short} no longer takes the destination address only")
        d = params[0]
        g = CFG(h.node)
        ld = LocalDefs(h.node)
        # atoms: every condition node and every boolean operand of the return expressions
        atoms: Dict[str, ast.AST] = {}

        def collect(e: ast.AST) -> None:
            if isinstance(e, ast.BoolOp):
                for v in e.values:
                    collect(v)
            elif isinstance(e, ast.UnaryOp) and isinstance(e.op, ast.Not):
                collect(e.operand)
            elif not isinstance(e, ast.Constant):
                atoms.setdefault(unparse(e), e)

        for n in g.nodes:
            if n.kind == "cond" and n.ast is not None:
                collect(n.ast)
            if n.kind == "stmt" and isinstance(n.ast, ast.Return) and n.ast.value is not None:
                collect(ld.expand(n.ast.value))
        route_var = next((nm for nm, ds in ld.defs.items() if any(isinstance(v, ast.Call) and call_name(v) == "find_best_route" for v, _, _ in ds)), None)
        if route_var is None:
            ctx.fail("R6.4", ctx.key(h, f"true exactly when the frame leaves by the {zone} port"), h.loc(),
                     f"{h.short} never looks the destination up in the route table: a destination routed through the {zone} port is "
                     f"classified by the ports' own subnets only")
            continue

        def role(t: str) -> Optional[str]:
            mm = re.fullmatch(rf"{re.escape(d)} in self\.(\w+)_port\.ip_network", t)
            if mm:
                return "dst_in_" + mm.group(1)
            mm = re.fullmatch(rf"{re.escape(route_var)}\.next_hop_ip_address in self\.(\w+)_port\.ip_network", t)
            if mm:
                return "hop_in_" + mm.group(1)
            if t in (route_var, f"{route_var} is not None", f"{route_var} is None"):
                return "route"
            return None

        names = sorted(atoms)
        free = [t for t in names if role(t) is None]
        bad: List[str] = []
        n_rows = 0
        for vals in itertools.product((False, True), repeat=len(names)):
            env = dict(zip(names, vals))
            r = {role(t): (v if t != f"{route_var} is None" else not v) for t, v in env.items() if role(t)}
            # consistency: dst is on at most one subnet; no next hop without a route
            if sum(1 for k, v in r.items() if k.startswith("dst_in_") and v) > 1:
                continue
            if not r.get("route", True) and any(v for k, v in r.items() if k.startswith("hop_in_")):
                continue
            if sum(1 for k, v in r.items() if k.startswith("hop_in_") and v) > 1:
                continue
            ev = Evaluator(env, None)
            outcome, node, _ = walk(g, ev, track_assign=False)
            if outcome != "return":
                raise AnalysisError(f"R6.4: cannot evaluate {h.short} ({outcome})")
            got = ev.ev(ld.expand(node.ast.value))
            if got is UNKNOWN:
                raise AnalysisError(f"R6.4: cannot evaluate `{unparse(node.ast.value)[:60]}` in {h.short}")
            on_own = any(v for k, v in r.items() if k.startswith("dst_in_"))
            want = bool(r.get(f"dst_in_{zone}")) or (not on_own and bool(r.get("route", False)) and bool(r.get(f"hop_in_{zone}")))
            n_rows += 1
            if bool(got) != want:
                bad.append(", ".join(f"{t}={v}" for t, v in env.items()) + f": answers {bool(got)}, the frame "
                           + ("leaves" if want else "does not leave") + f" by the {zone} port")
        ctx.record("R6.4", ctx.key(h, f"true exactly when the frame leaves by the {zone} port"), h.loc(), not bad,
                   f"{n_rows} consistent rows over atoms {names}" + (f" (free atoms {free} do not change the answer)" if free else "")
                   if not bad else f"the predicate that selects the {zone} zone is wrong for some destinations", bad[:6])


def r6_7(ctx: Ctx) -> None:
    """A router/firewall hands a frame to its *own* software only when the frame is addressed to one of its own interfaces (and is
    ICMP or aimed at an open port).  Anything handed up that is not addressed to the router is passed on by RouterICMP.receive to
    Router.process_frame - past the firewall's destination-zone check (the reason that call site is accepted in R6.1 is exactly this
    predicate)."""
    import itertools
    from ..absval import UNKNOWN, Evaluator, walk
    ix = ctx.ix
    ctx.rule("R6.7", "check_send_frame_to_session_manager is true exactly for: addressed to an own interface AND (ICMP OR open port)")
    f = ix.method("Router.check_send_frame_to_session_manager")
    g = CFG(f.node)
    ld = LocalDefs(f.node)
    mine_t = next((unparse(c) for c in calls_in(f.node) if call_name(c) == "ip_is_router_interface"), None)
    port_t = next((unparse(x) for x in ast.walk(f.node) if isinstance(x, ast.Compare) and len(x.ops) == 1 and isinstance(x.ops[0], ast.In)
                   and "get_open_ports" in unparse(x.comparators[0])), None)
    if mine_t is None or port_t is None:
        raise AnalysisError("R6.7: own-interface test / open-port test not found in check_send_frame_to_session_manager")
    bad = []
    for mine, icmp, open_ in itertools.product((True, False), repeat=3):
        env = {mine_t: mine, "frame.icmp": ("ICMP" if icmp else None), port_t: open_,
               "frame.ip.protocol": "icmp" if icmp else "tcp", 'PROTOCOL_LOOKUP["TCP"]': "tcp", "PROTOCOL_LOOKUP['TCP']": "tcp",
               'PROTOCOL_LOOKUP["UDP"]': "udp", "PROTOCOL_LOOKUP['UDP']": "udp", "frame.tcp.dst_port": 80, "frame.udp.dst_port": 80}
        ev = Evaluator(env, ld)
        out, node, _ = walk(g, ev)
        if out != "return":
            raise AnalysisError(f"R6.7: cannot evaluate check_send_frame_to_session_manager ({out})")
        v = ev.ev(node.ast.value)
        want = mine and (icmp or open_)
        if v is UNKNOWN or bool(v) != want:
            bad.append(f"addressed to an own interface={mine}, ICMP={icmp}, port open={open_}: answers {v}, expected {want}")
    ctx.record("R6.7", ctx.key(f, "own software only for frames addressed to the router"), f.loc(), not bad,
               "8-row table holds" if not bad else
               "a frame that is not addressed to the router can be handed to its software (and from there be forwarded without the "
               "destination zone's check), or one that is can be missed", bad[:4])



def r6_8(ctx: Ctx) -> None:
    """The only frames a router lets past its ACL unexamined are ARP frames: UDP to the ARP port.  The exemption decision
    (subject_to_acl and the Frame properties it consults) may therefore read the frame's ip and udp headers only: once it looks at the
    tcp header (or the payload) a TCP segment addressed to the ARP port number walks through every deny rule."""
    ix = ctx.ix
    ctx.rule("R6.8", "the ACL exemption is decided from the frame's ip and udp headers only")
    frame = ix.cls("Frame")
    headers = set(frame.fields)
    impls = [f for f in ix.functions if f.name == "subject_to_acl" and f.cls is not None and not isinstance(f.node, ast.Lambda)]
    ctx.floor("R6.8", "subject_to_acl implementations", len(impls), 1)

    def reads(fnode: ast.AST, recv: str, depth: int = 2) -> Set[str]:
        out: Set[str] = set()
        for x in ast.walk(fnode):
            if isinstance(x, ast.Attribute) and isinstance(x.value, ast.Name) and x.value.id == recv:
                if x.attr in headers:
                    out.add(x.attr)
                else:
                    m = ix.find_method(frame, x.attr)
                    if m is not None and depth > 0 and not isinstance(m.node, ast.Lambda):
                        out |= reads(m.node, "self", depth - 1)
        return out

    for f in impls:
        params = [a.arg for a in f.node.args.args if a.arg != "self"]
        if len(params) != 1:
            raise AnalysisError(f"R6.8: {f.short} takes {params}, expected exactly the frame")
        got = reads(f.node, params[0])
        extra = sorted(got - {"ip", "udp"})
        # behind a test that the frame *is* UDP the other headers are absent: consulting them cannot exempt anything else
        g = CFG(f.node)
        exempt = [x for x in g.nodes if x.kind == "stmt" and isinstance(x.ast, ast.Return) and isinstance(x.ast.value, ast.Constant)
                  and x.ast.value.value is False]
        if extra and not exempt:
            raise AnalysisError(f"R6.8: {f.short} has no `return False` (exemption) statement")

        def is_udp_edge(e) -> bool:
            if not (e.label and e.label[0] == "cond" and e.label[2]):
                return False
            c = e.label[1]
            return isinstance(c, ast.Compare) and len(c.ops) == 1 and isinstance(c.ops[0], ast.Eq) and unparse(c.left).endswith(".ip.protocol") \
                and isinstance(c.comparators[0], ast.Constant) and c.comparators[0].value == "udp"

        if extra and g.path_avoiding(exempt, is_udp_edge) is None:
            ctx.ok("R6.8", ctx.key(f, "exemption reads only ip/udp headers"), f.loc(),
                   f"fields consulted {sorted(got)}, but every path to the exemption passes `ip.protocol == 'udp'`")
            continue
        ctx.record("R6.8", ctx.key(f, "exemption reads only ip/udp headers"), f.loc(), not extra and "udp" in got,
                   f"frame fields consulted (through Frame properties too): {sorted(got)}" + ("" if not extra and "udp" in got else
                   f" - {extra or 'no udp header'}: a frame that is not UDP-to-the-ARP-port can be exempted from (or ARP subjected to) the ACL"))


def check(ctx: Ctx) -> None:
    r6_8(ctx)
    r6_1(ctx)
    r6_4_helper_table(ctx)
    r6_7(ctx)
    r6_2(ctx)
    r6_3(ctx)
    # a deny rule blocks only if the matcher says it matches and the scan stops at it, and a powered-off device is silent only
    # if its interfaces cannot come up: the matcher / scan rules of C07 and the interface gate of C12 are necessary here too
    from . import c07, c12
    with ctx.borrowed({"R7.1": "R6.5", "R7.2": "R6.5", "R7.5": "R6.5"}):
        c07.r7_5(ctx)
        c07.r7_1(ctx)
        c07.r7_2(ctx)
    uni = set(ctx.ix.enum_members(ctx.ix.cls("NodeOperatingState")))
    with ctx.borrowed({"R12.1": "R6.6", "R12.2": "R6.6"}):
        flows = c12.r12_1(ctx, uni)
        c12.r12_2(ctx, uni, flows)
